package main

import (
	"encoding/hex"
	"errors"
	"fmt"
	"io"
	"sort"
	"strconv"
	"strings"

	"seehuhn.de/go/pdf"
)

// wire encodes an object for the model (see lean/PdfVerif/Model/Obj.lean).
// Reals are sent as the token strconv.FormatFloat(x,'f',-1,64).
func wire(o pdf.Object) string {
	var sb strings.Builder
	wireTo(&sb, o)
	return sb.String()
}

func hx(b []byte) string { return hex.EncodeToString(b) }

func hexWire(b []byte) string {
	if len(b) == 0 {
		return "-"
	}
	return hex.EncodeToString(b)
}

func wireTo(sb *strings.Builder, o pdf.Object) {
	if o == nil {
		sb.WriteString("z")
		return
	}
	switch x := o.(type) {
	case pdf.Boolean:
		if x {
			sb.WriteString("t")
		} else {
			sb.WriteString("f")
		}
	case pdf.Integer:
		fmt.Fprintf(sb, "i%d;", int64(x))
	case pdf.Real:
		sb.WriteString("r" + hx([]byte(strconv.FormatFloat(float64(x), 'f', -1, 64))) + ";")
	case pdf.Name:
		sb.WriteString("n" + hx([]byte(x)) + ";")
	case pdf.String:
		sb.WriteString("s" + hx([]byte(x)) + ";")
	case pdf.Operator:
		sb.WriteString("o" + hx([]byte(x)) + ";")
	case pdf.Reference:
		fmt.Fprintf(sb, "R%d,%d;", x.Number(), x.Generation())
	case pdf.Array:
		if x == nil {
			sb.WriteString("Z")
			return
		}
		sb.WriteString("a")
		for _, e := range x {
			wireTo(sb, e)
		}
		sb.WriteString("]")
	case pdf.Dict:
		if x == nil && wireNilDict {
			// typed nil Dict: like a nil Array it is the null object (C01 sets the flag; the
			// Lean side reads "N" as the same value as "Z")
			sb.WriteString("N")
			return
		}
		sb.WriteString("d")
		keys := make([]string, 0, len(x))
		for k := range x {
			keys = append(keys, string(k))
		}
		sort.Strings(keys)
		for _, k := range keys {
			sb.WriteString(hx([]byte(k)) + ";")
			wireTo(sb, x[pdf.Name(k)])
		}
		sb.WriteString(">")
	default:
		panic(fmt.Sprintf("wire: unsupported %T", o))
	}
}

// wireNorm is the canonical output form shared with the model's `norm`:
// nil entries dropped, nil arrays as null, dictionaries sorted by key bytes,
// reals by the bits of their value.
func wireNorm(o pdf.Object) string {
	var sb strings.Builder
	wireNormTo(&sb, o)
	return sb.String()
}

// wireNilDict makes wireTo write a typed nil Dict as "N" instead of as the empty dictionary "d>".
// Only the C01 runs set it (one property per process).
var wireNilDict bool

func isNilObj(o pdf.Object) bool {
	if o == nil {
		return true
	}
	if a, ok := o.(pdf.Array); ok && a == nil {
		return true
	}
	return false
}

func wireNormTo(sb *strings.Builder, o pdf.Object) {
	if isNilObj(o) {
		sb.WriteString("z")
		return
	}
	switch x := o.(type) {
	case pdf.Real:
		fmt.Fprintf(sb, "r%s;", realCanon(float64(x)))
	case pdf.Array:
		sb.WriteString("a")
		for _, e := range x {
			wireNormTo(sb, e)
		}
		sb.WriteString("]")
	case pdf.Dict:
		sb.WriteString("d")
		keys := make([]string, 0, len(x))
		for k, v := range x {
			if !isNilObj(v) {
				keys = append(keys, string(k))
			}
		}
		sort.Strings(keys)
		for _, k := range keys {
			sb.WriteString(hx([]byte(k)) + ";")
			wireNormTo(sb, x[pdf.Name(k)])
		}
		sb.WriteString(">")
	default:
		wireTo(sb, o)
	}
}

func realCanon(x float64) string {
	return hx([]byte(strconv.FormatFloat(x, 'g', -1, 64)))
}

// canonReals rewrites r<hex token>; fields of a model output line into the
// canonical value form used by wireNorm (strconv is trusted, see DESIGN 2.3).
func canonReals(line string) string {
	if !strings.Contains(line, "r") {
		return line
	}
	var sb strings.Builder
	i := 0
	for i < len(line) {
		c := line[i]
		// an 'r' tag can only start a token at a position where an object starts;
		// hex digits never contain 'r', so a plain scan is unambiguous.
		if c == 'r' {
			j := strings.IndexByte(line[i:], ';')
			if j > 0 {
				tok, err := hex.DecodeString(line[i+1 : i+j])
				if err == nil {
					if v, err := strconv.ParseFloat(string(tok), 64); err == nil {
						sb.WriteString("r" + realCanon(v) + ";")
						i += j + 1
						continue
					}
				}
			}
		}
		sb.WriteByte(c)
		i++
	}
	return sb.String()
}

// errClass maps an error to the model's enum.
func errClass(err error) string {
	switch {
	case err == nil:
		return "ok"
	case err == io.EOF:
		return "eof"
	case pdf.IsMalformed(err):
		return "malformed"
	}
	var ae *pdf.AuthenticationError
	if errors.As(err, &ae) {
		return "auth"
	}
	if errors.Is(err, errInjected) {
		return "io"
	}
	return "other"
}

var errInjected = errors.New("injected I/O fault")

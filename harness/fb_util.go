package main

import (
	"bytes"
	"encoding/hex"
	"errors"
	"fmt"
	"io"
	"strconv"
	"strings"

	"seehuhn.de/go/membudget"
	"seehuhn.de/go/pdf"
)

// Work package FB: PNG/TIFF predictors, CCITTFax, filter parameters
// (properties C06, C07, C08).  Correspondence lines start with "FB".

type fbNopWC struct{ io.Writer }

func (fbNopWC) Close() error { return nil }

// fbWriteChunked writes data to w in pieces chosen by mode:
// 0 one call, 1 single bytes, 2 primes, 3 random sizes.
func fbWriteChunked(w io.Writer, data []byte, r *Rand, mode int) error {
	primes := []int{2, 3, 5, 7, 11, 13, 127, 131}
	pos := 0
	for pos < len(data) {
		n := len(data) - pos
		switch mode {
		case 1:
			n = 1
		case 2:
			n = min(n, primes[(pos+len(data))%len(primes)])
		case 3:
			n = min(n, 1+r.Intn(97))
		}
		k, err := w.Write(data[pos : pos+n])
		pos += k
		if err != nil {
			return err
		}
		if k != n {
			return io.ErrShortWrite
		}
	}
	return nil
}

// fbReadChunked reads r to the end with buffers chosen by mode.
func fbReadChunked(rd io.Reader, r *Rand, mode int, limit int) ([]byte, error) {
	var out []byte
	buf := make([]byte, 4096)
	for {
		n := len(buf)
		switch mode {
		case 1:
			n = 1
		case 2:
			n = 7
		case 3:
			n = 1 + r.Intn(300)
		}
		k, err := rd.Read(buf[:n])
		out = append(out, buf[:k]...)
		if err != nil {
			if err == io.EOF {
				return out, nil
			}
			return out, err
		}
		if limit > 0 && len(out) > limit {
			return out, errFbTooMuch
		}
	}
}

var errFbTooMuch = errors.New("fb: output exceeds the bound")

// fbEncode runs Filter.Encode on data; a panic is returned as an error string.
func fbEncode(f pdf.Filter, v pdf.Version, data []byte, r *Rand, mode int) (enc []byte, err error, panicked string) {
	defer func() {
		if p := recover(); p != nil {
			panicked = fmt.Sprint(p)
		}
	}()
	buf := &bytes.Buffer{}
	w, err := f.Encode(v, fbNopWC{buf})
	if err != nil {
		return nil, fmt.Errorf("Encode: %w", err), ""
	}
	werr := fbWriteChunked(w, data, r, mode)
	cerr := w.Close()
	if werr != nil {
		return buf.Bytes(), fmt.Errorf("Write: %w", werr), ""
	}
	if cerr != nil {
		return buf.Bytes(), fmt.Errorf("Close: %w", cerr), ""
	}
	return buf.Bytes(), nil, ""
}

// fbDecode runs Filter.Decode and reads to the end.
func fbDecode(f pdf.Filter, v pdf.Version, enc []byte, r *Rand, mode int, limit int) (out []byte, err error, panicked string) {
	defer func() {
		if p := recover(); p != nil {
			panicked = fmt.Sprint(p)
		}
	}()
	rd, err := f.Decode(v, bytes.NewReader(enc), membudget.New(1<<28))
	if err != nil {
		return nil, err, ""
	}
	defer rd.Close()
	out, err = fbReadChunked(rd, r, mode, limit)
	return out, err, ""
}

func fbHexDecode(s string) []byte {
	if s == "-" {
		return nil
	}
	b, _ := hex.DecodeString(s)
	return b
}

func fbAtoi(s string) int {
	n, _ := strconv.ParseInt(s, 10, 64)
	return int(n)
}

// fbErrWord maps a reader error of the filter layer to the word used on
// correspondence lines.
func fbErrWord(err error) string {
	if err == nil {
		return "ok"
	}
	return "malformed"
}

func fbFields(s string) []string { return strings.Fields(s) }

func fbTrunc(b []byte) string {
	if len(b) > 48 {
		return hex.EncodeToString(b[:48]) + fmt.Sprintf("…(%d bytes)", len(b))
	}
	return hexWire(b)
}

// fbDictWire gives the canonical wire form of a parameter dictionary
// ("z" for nil or empty).
func fbDictWire(d pdf.Dict) string {
	if len(d) == 0 {
		return "z"
	}
	return wire(d)
}

// fbUnwireOne parses the wire form of a single object (unwireSeq expects an array).
func fbUnwireOne(s string) (pdf.Object, error) {
	a, err := unwireSeq("a" + s + "]")
	if err != nil {
		return nil, err
	}
	if len(a) != 1 {
		return nil, errors.New("not a single object")
	}
	return a[0], nil
}

package main

import (
	"bytes"
	"errors"
	"fmt"
	"sort"
	"strings"

	"golang.org/x/text/language"
	"seehuhn.de/go/pdf"
	"seehuhn.de/go/xmp"
)

// Document-level generator shared by C09 and C10: an encrypted document with
// strings inside arrays, dictionaries, stream dictionaries and object
// streams, stream bodies behind several filters, high object numbers and
// non-zero generations, Info strings and optional (plaintext) XMP metadata.

type secWritten struct {
	ref        pdf.Reference
	obj        pdf.Object // expected value (for streams: the dictionary as given)
	isStream   bool
	body       []byte
	inObjStm   bool // written through WriteCompressed at a version with object streams
	cryptIdent bool
}

type secDoc struct {
	version     pdf.Version
	user        string
	owner       string
	perm        pdf.Perm
	ids         [][]byte // opt.ID (nil = not given)
	hasMeta     bool
	plainMeta   bool
	metaTitle   string
	human       bool
	infoTitle   string
	nItems      int
	boundary    []string // passwords differing from a 120..135 byte password around byte 127
	skipRefused int      // Crypt-filter streams the Writer refused (file encrypted without crypt filters)

	// results of writing
	data      []byte
	rngLog    []byte
	setupUsed int // random bytes drawn by NewWriter for ID and handler
	sec       *pdf.VerifSec
	strF      string
	encDict   pdf.Dict
	idsOut    [][]byte
	written   []secWritten
	needles   [][]byte // plaintexts that must not be visible in the file
	visible   [][]byte // plaintexts inside documented exemptions (expected to be visible)
	writeErr  error
}

var secVersions = []pdf.Version{pdf.V1_1, pdf.V1_2, pdf.V1_3, pdf.V1_4, pdf.V1_5, pdf.V1_6, pdf.V1_7, pdf.V2_0}

func verName(v pdf.Version) string {
	s, err := v.ToString()
	if err != nil {
		return "?"
	}
	return s
}

var needleCounter int

func newNeedle(r *Rand, n int) []byte {
	needleCounter++
	s := fmt.Sprintf("NEEDLE%05d-", needleCounter)
	b := []byte(s)
	for len(b) < n {
		b = append(b, byte('A'+r.Intn(26)))
	}
	return b
}

// genSecString returns a string value; some are needles (distinctive
// plaintext), some tricky (empty, block sized, binary, delimiters).
func (d *secDoc) genSecString(r *Rand, shared [][]byte) pdf.String {
	switch r.Intn(8) {
	case 0:
		return pdf.String("")
	case 1:
		return pdf.String(r.Bytes(16 * (1 + r.Intn(3))))
	case 2:
		return pdf.String(genBytes(r, 40))
	case 3:
		if len(shared) > 0 {
			return pdf.String(Pick(r, shared)) // the same plaintext in several objects
		}
		fallthrough
	default:
		n := newNeedle(r, 14+r.Intn(30))
		d.needles = append(d.needles, n)
		return pdf.String(n)
	}
}

func (d *secDoc) genSecObj(r *Rand, depth int, shared [][]byte) pdf.Object {
	k := r.Intn(9)
	if depth <= 0 && k >= 6 {
		k = r.Intn(6)
	}
	switch k {
	case 0:
		return pdf.Integer(r.Intn(1000) - 500)
	case 1:
		return pdf.Name(Pick(r, []string{"A", "Type", "Font", "X#Y", "Name With Space"}))
	case 2:
		return pdf.Boolean(r.Bool())
	case 3, 4, 5:
		return d.genSecString(r, shared)
	case 6, 7:
		n := r.Intn(4)
		a := make(pdf.Array, 0, n)
		for i := 0; i < n; i++ {
			a = append(a, d.genSecObj(r, depth-1, shared))
		}
		return a
	default:
		return d.genSecDict(r, depth-1, shared)
	}
}

func (d *secDoc) genSecDict(r *Rand, depth int, shared [][]byte) pdf.Dict {
	n := 1 + r.Intn(4)
	dict := pdf.Dict{}
	for i := 0; i < n; i++ {
		key := pdf.Name(Pick(r, []string{"K", "S", "T", "Contents", "Title", "Zz", "A1", "Type", "Subtype"}))
		if key == "Type" || key == "Subtype" {
			dict[key] = pdf.Name("Verif" + string(key))
			continue
		}
		dict[key] = d.genSecObj(r, depth, shared)
	}
	// at least one string at this level, so that every object carries ciphertext
	dict["Str"] = d.genSecString(r, shared)
	return dict
}

func genSecDoc(r *Rand, idx int) *secDoc {
	d := &secDoc{}
	d.version = secVersions[idx%len(secVersions)]
	if r.P(1, 5) {
		d.version = Pick(r, secVersions)
	}
	d.user = genPassword(r)
	d.owner = genPassword(r)
	if d.version < pdf.V2_0 {
		// R <= 4 needs PDFDocEncoding; keep some passwords without one (NewWriter must refuse them)
		for i := 0; i < 3; i++ {
			if _, ok := pdf.PDFDocEncode(d.user); !ok {
				d.user = genPassword(r)
			}
			if _, ok := pdf.PDFDocEncode(d.owner); !ok {
				d.owner = genPassword(r)
			}
		}
	}
	switch r.Intn(8) {
	case 0:
		d.user = ""
	case 1:
		d.owner = ""
	case 2:
		d.owner = d.user
	}
	if d.user == "" && d.owner == "" {
		d.owner = "owner"
	}
	d.perm = pdf.Perm(r.Intn(128))
	switch r.Intn(3) {
	case 0:
		d.ids = nil
	case 1:
		d.ids = [][]byte{r.Bytes(16)}
	default:
		d.ids = [][]byte{r.Bytes(16 + r.Intn(8)), r.Bytes(16)}
	}
	if d.version >= pdf.V1_4 && r.P(1, 2) {
		d.hasMeta = true
		d.plainMeta = d.version >= pdf.V1_6 && r.Bool()
		d.metaTitle = string(newNeedle(r, 24))
	}
	// compact and HumanReadable alternate so that every version sees both within 16 documents
	d.human = (idx/len(secVersions))%2 == 1
	if r.P(1, 8) {
		d.human = !d.human
	}
	d.infoTitle = string(newNeedle(r, 20))
	d.nItems = 3 + r.Intn(8)
	if idx >= secBoundaryIdx {
		// revision 6 with passwords around the 127-byte truncation
		d.version = pdf.V2_0
		b := genBoundaryPassword(r)
		d.boundary = b.variants
		switch idx % 3 {
		case 0:
			d.user, d.owner = b.pw, genPassword(r)
		case 1:
			d.user, d.owner = genPassword(r), b.pw
		default:
			d.user, d.owner = b.pw, ""
		}
		if _, ok := prepKey(6, d.user); !ok {
			d.user = "u"
		}
		if _, ok := prepKey(6, d.owner); !ok {
			d.owner = "o"
		}
		if d.user == "" && d.owner == "" {
			d.owner = "owner"
		}
		d.nItems = 2
	}
	return d
}

// documents with index >= secBoundaryIdx are made for the password truncation boundary
const secBoundaryIdx = 1000000

func (d *secDoc) describe() string {
	return fmt.Sprintf("v=%s user=%q owner=%q perm=%d ids=%d meta=%v plain=%v human=%v items=%d",
		verName(d.version), d.user, d.owner, int(d.perm), len(d.ids), d.hasMeta, d.plainMeta, d.human, d.nItems)
}

// write produces the document with the real Writer; all randomness of the
// library comes from rr and is recorded.
func (d *secDoc) write(rr *Rand, gr *Rand) {
	withRecRand(rr, func(rec *recRand) {
		d.writeErr = d.doWrite(rec, gr)
		d.rngLog = rec.log
	})
}

func (d *secDoc) doWrite(rec *recRand, r *Rand) (err error) {
	defer func() {
		if p := recover(); p != nil {
			err = fmt.Errorf("panic: %v", p)
		}
	}()
	opt := &pdf.WriterOptions{
		ID:              d.ids,
		UserPassword:    d.user,
		OwnerPassword:   d.owner,
		UserPermissions: d.perm,
		HumanReadable:   d.human,
	}
	if d.hasMeta {
		packet := xmp.NewPacket()
		dc := &xmp.DublinCore{}
		dc.Title.Set(language.Und, d.metaTitle)
		if err := packet.Set(dc); err != nil {
			return err
		}
		opt.DocumentMetadata = &pdf.MetadataStream{Data: packet, Plaintext: d.plainMeta}
	}
	// plain buffer (stream lengths go to separate objects when the dictionary is written before
	// the data) or a seekable one (the Placeholder is filled in afterwards)
	var out secOutput = &memWriter{}
	if r.P(1, 3) {
		out = &memSeekWriter{}
	}
	w, err := pdf.NewWriter(out, d.version, opt)
	if err != nil {
		return err
	}
	enc := pdf.VerifWriterEnc(w)
	if enc == nil {
		return errors.New("writer has no encryption")
	}
	d.sec = enc.Sec()
	d.strF = enc.StrF()
	d.idsOut = w.GetMeta().ID
	if ed, ok := w.GetMeta().Trailer["Encrypt"].(pdf.Dict); ok {
		d.encDict = ed
	}
	// the IV of the metadata stream (if it is encrypted with AES) was drawn inside NewWriter
	d.setupUsed = len(rec.log)
	if d.hasMeta && !d.plainMeta && strings.HasPrefix(d.strF, "aes") {
		d.setupUsed -= 16
	}
	if d.hasMeta {
		if d.plainMeta {
			d.visible = append(d.visible, []byte(d.metaTitle))
		} else {
			d.needles = append(d.needles, []byte(d.metaTitle))
		}
	}

	pages := w.Alloc()
	w.GetMeta().Catalog.Pages = pages
	if err := w.Put(pages, pdf.Dict{"Type": pdf.Name("Pages"), "Kids": pdf.Array{}, "Count": pdf.Integer(0)}); err != nil {
		return err
	}
	w.GetMeta().Info.Title = pdf.TextString(d.infoTitle)
	d.needles = append(d.needles, []byte(d.infoTitle))

	var shared [][]byte
	for i := 0; i < 2; i++ {
		n := newNeedle(r, 16+r.Intn(20))
		shared = append(shared, n)
		d.needles = append(d.needles, n)
	}

	jumped := false
	newRef := func() pdf.Reference {
		ref := w.Alloc()
		switch r.Intn(8) {
		case 0: // non-zero generation
			return pdf.NewReference(ref.Number(), uint16(Pick(r, []int{1, 2, 255, 256, 65535, 1 + r.Intn(65535)})))
		case 1: // a gap in the numbering
			return pdf.NewReference(ref.Number()+uint32(1+r.Intn(100)), uint16(r.Intn(3)))
		case 2:
			// beyond 2^16 the third key byte counts.  Only with a classical xref table:
			// the Writer's xref stream has one entry per number up to the highest one and
			// no /Index, and the Reader rejects such a sparse table as disproportionate
			// to the stream's size (see notes/C09.md, found while building this generator)
			if r.P(1, 3) && (d.version < pdf.V1_5 || d.human) {
				return pdf.NewReference(65536+uint32(r.Intn(3000)), uint16(r.Intn(2)))
			}
			if r.P(1, 3) && !jumped {
				jumped = true // once per document, so that an xref stream stays within the Reader's bound
				return pdf.NewReference(ref.Number()+256+uint32(r.Intn(3000)), uint16(r.Intn(2)))
			}
		}
		return ref
	}

	// dictStrings: a stream dictionary with 1-3 strings, some nested in arrays and dictionaries
	dictStrings := func() pdf.Dict {
		dict := pdf.Dict{"S1": d.genSecString(r, shared)}
		if r.Bool() {
			dict["Arr"] = pdf.Array{pdf.Integer(1), d.genSecString(r, shared)}
		}
		if r.Bool() {
			dict["Sub"] = pdf.Dict{"In": pdf.Array{pdf.Dict{"Deep": d.genSecString(r, shared)}}}
		}
		return dict
	}
	// cryptSkip writes a stream which is exempt from the default stream encryption (filter chain
	// starting with /Crypt /Identity: through OpenStream's filters, alone or followed by another
	// filter, or as a "copied" stream whose dictionary already says /Filter /Crypt); the strings
	// of its dictionary must still be encrypted under its own (number, generation).  It is always
	// written after an object with a different number.
	nSkip := 0
	cryptSkip := func() error {
		prev := newRef()
		pobj := pdf.Dict{"Prev": d.genSecString(r, shared)}
		if err := w.Put(prev, pobj); err != nil {
			return err
		}
		d.written = append(d.written, secWritten{ref: prev, obj: pobj})
		ref := newRef()
		dict := dictStrings()
		body := newNeedle(r, 20+r.Intn(60))
		variant := r.Intn(4)
		if d.version < pdf.V1_5 {
			variant = 2 + r.Intn(2) // the Crypt filter of OpenStream needs PDF 1.5
		}
		switch variant {
		case 0, 1:
			filters := []pdf.Filter{pdf.FilterCryptIdentity{}}
			if variant == 1 {
				filters = append(filters, Pick(r, []pdf.Filter{pdf.FilterFlate{}, pdf.FilterASCIIHex{}}))
			} else {
				d.visible = append(d.visible, body)
			}
			sw, err := w.OpenStream(ref, dict, filters...)
			if err != nil {
				return fmt.Errorf("OpenStream(Crypt) %v: %w", ref, err)
			}
			if _, err := sw.Write(body); err != nil {
				return err
			}
			if err := sw.Close(); err != nil {
				return err
			}
		default:
			// a stream as the Copier hands it over: encoded data, /Filter in the dictionary
			data := body
			if variant == 3 {
				dict["Filter"] = pdf.Array{pdf.Name("Crypt"), pdf.Name("ASCIIHexDecode")}
				data = []byte(fmt.Sprintf("%x>", body))
			} else {
				dict["Filter"] = pdf.Name("Crypt")
				d.visible = append(d.visible, body)
			}
			given := pdf.Dict{}
			for k, v := range dict {
				given[k] = v
			}
			if err := w.Put(ref, pdf.NewStream(given, data)); err != nil {
				return fmt.Errorf("Put(Crypt stream) %v: %w", ref, err)
			}
		}
		d.written = append(d.written, secWritten{ref: ref, obj: dict, isStream: true, body: body, cryptIdent: true})
		nSkip++
		return nil
	}

	for i := 0; i < d.nItems; i++ {
		switch r.Intn(8) {
		case 5:
			if err := cryptSkip(); err != nil {
				if d.encV() < 4 {
					d.skipRefused++ // no crypt filters in a /V 1 or 2 file: refusing is right
					break
				}
				return err
			}
		case 6: // Put while a stream is open: written after the stream, with its own key
			ref := newRef()
			dict := dictStrings()
			body := r.Bytes(r.Intn(1500))
			sw, err := w.OpenStream(ref, dict)
			if err != nil {
				return err
			}
			ref2 := newRef()
			obj2 := dictStrings()
			if err := w.Put(ref2, obj2); err != nil {
				return fmt.Errorf("deferred Put %v: %w", ref2, err)
			}
			if _, err := sw.Write(body); err != nil {
				return err
			}
			if err := sw.Close(); err != nil {
				return err
			}
			d.written = append(d.written, secWritten{ref: ref, obj: dict, isStream: true, body: body},
				secWritten{ref: ref2, obj: obj2})
		case 7: // an object stream directly followed by a stream and an object
			refs := []pdf.Reference{w.Alloc(), w.Alloc()}
			objs := []pdf.Object{dictStrings(), dictStrings()}
			if err := w.WriteCompressed(refs, objs...); err != nil {
				return err
			}
			inStm := d.version >= pdf.V1_5 && !d.human
			for j := range refs {
				d.written = append(d.written, secWritten{ref: refs[j], obj: objs[j], inObjStm: inStm})
			}
			ref := newRef()
			dict := dictStrings()
			body := newNeedle(r, 30)
			d.needles = append(d.needles, body)
			if err := w.Put(ref, pdf.NewStream(copyDict(dict), body)); err != nil {
				return err
			}
			d.written = append(d.written, secWritten{ref: ref, obj: dict, isStream: true, body: body})
		case 0, 1: // direct object
			ref := newRef()
			obj := d.genSecObj(r, 3, shared)
			if _, isRef := obj.(pdf.Reference); isRef {
				obj = pdf.Array{obj}
			}
			if err := w.Put(ref, obj); err != nil {
				return fmt.Errorf("Put %v: %w", ref, err)
			}
			d.written = append(d.written, secWritten{ref: ref, obj: obj})
		case 2, 3: // stream
			ref := newRef()
			dict := d.genSecDict(r, 1, shared)
			delete(dict, "Type")
			delete(dict, "Subtype")
			var body []byte
			switch r.Intn(4) {
			case 0:
				body = nil
			case 1:
				body = r.Bytes(16 * (1 + r.Intn(4)))
			case 2: // longer than the streamWriter's 1024 byte buffer
				body = bytes.Repeat(newNeedle(r, 40), 30+r.Intn(20))
			default:
				body = newNeedle(r, 20+r.Intn(100))
			}
			var filters []pdf.Filter
			cryptIdent := false
			switch r.Intn(6) {
			case 0:
				if d.version >= pdf.V1_2 {
					filters = []pdf.Filter{pdf.FilterFlate{}}
				}
			case 1:
				filters = []pdf.Filter{pdf.FilterASCIIHex{}}
			case 2:
				if d.version >= pdf.V1_5 {
					filters = []pdf.Filter{pdf.FilterCryptIdentity{}}
					cryptIdent = true
				}
			}
			sw, err := w.OpenStream(ref, dict, filters...)
			if err != nil {
				return fmt.Errorf("OpenStream %v: %w", ref, err)
			}
			// write in pieces
			rest := body
			for len(rest) > 0 {
				k := 1 + r.Intn(200)
				if k > len(rest) {
					k = len(rest)
				}
				if _, err := sw.Write(rest[:k]); err != nil {
					return err
				}
				rest = rest[k:]
			}
			if err := sw.Close(); err != nil {
				return fmt.Errorf("stream Close %v: %w", ref, err)
			}
			d.written = append(d.written, secWritten{ref: ref, obj: dict, isStream: true, body: body, cryptIdent: cryptIdent})
			if len(body) >= 12 && bytes.HasPrefix(body, []byte("NEEDLE")) {
				nd := body
				if len(nd) > 40 {
					nd = nd[:40]
				}
				if cryptIdent {
					d.visible = append(d.visible, nd)
				} else {
					d.needles = append(d.needles, nd)
				}
			}
		default: // object stream
			n := 1 + r.Intn(4)
			refs := make([]pdf.Reference, n)
			objs := make([]pdf.Object, n)
			for j := range refs {
				refs[j] = w.Alloc()
				objs[j] = d.genSecDict(r, 2, shared)
				if r.P(1, 3) {
					objs[j] = d.genSecString(r, shared)
				}
			}
			if err := w.WriteCompressed(refs, objs...); err != nil {
				return fmt.Errorf("WriteCompressed: %w", err)
			}
			inStm := d.version >= pdf.V1_5 && !d.human
			for j := range refs {
				d.written = append(d.written, secWritten{ref: refs[j], obj: objs[j], inObjStm: inStm})
			}
		}
	}
	if nSkip == 0 {
		if err := cryptSkip(); err != nil {
			if d.encV() >= 4 {
				return err
			}
			d.skipRefused++
		}
	}
	if err := d.sweep(r, w, newRef); err != nil {
		return err
	}
	if err := w.Close(); err != nil {
		return fmt.Errorf("Close: %w", err)
	}
	d.data = out.Bytes()
	return nil
}

func copyDict(d pdf.Dict) pdf.Dict {
	res := pdf.Dict{}
	for k, v := range d {
		res[k] = v
	}
	return res
}

func (d *secDoc) open(pw string) (*pdf.Reader, error) {
	return pdf.NewReader(bytes.NewReader(d.data), int64(len(d.data)), &pdf.ReaderOptions{Password: pw, ErrorHandling: pdf.ErrorHandlingStop})
}

// checkContent compares every written object with what the Reader returns.
// It returns a description of the first difference ("" = all equal).
func (d *secDoc) checkContent(rd *pdf.Reader) string {
	for _, wo := range d.written {
		got, err := rd.Get(wo.ref, true)
		if err != nil {
			return fmt.Sprintf("Get(%v): %v", wo.ref, err)
		}
		if wo.isStream {
			stm, ok := got.(*pdf.Stream)
			if !ok {
				return fmt.Sprintf("Get(%v): %T instead of a stream", wo.ref, got)
			}
			for k, v := range wo.obj.(pdf.Dict) {
				if wireNorm(stm.Dict[k]) != wireNorm(v) {
					return fmt.Sprintf("stream %v dict entry %s: got %s want %s", wo.ref, k, wireNorm(stm.Dict[k]), wireNorm(v))
				}
			}
			body, err := pdf.ReadAll(rd, nil, stm, 1<<24)
			if err != nil {
				return fmt.Sprintf("stream %v body: %v", wo.ref, err)
			}
			if !bytes.Equal(body, wo.body) {
				return fmt.Sprintf("stream %v body differs: got %d bytes %.40x want %d bytes %.40x", wo.ref, len(body), body, len(wo.body), wo.body)
			}
			continue
		}
		if wireNorm(got) != wireNorm(wo.obj) {
			return fmt.Sprintf("object %v: got %s want %s", wo.ref, wireNorm(got), wireNorm(wo.obj))
		}
	}
	info := rd.GetMeta().Info
	if info == nil || string(info.Title) != d.infoTitle {
		return fmt.Sprintf("Info.Title not recovered: %v", info)
	}
	if d.hasMeta {
		m := rd.GetMeta().Catalog.Metadata
		if m == nil || m.Data == nil {
			return "document metadata not recovered"
		}
		var dc xmp.DublinCore
		m.Data.Get(&dc)
		if got := dc.Title.Best(language.Und); got != d.metaTitle {
			return fmt.Sprintf("metadata title: got %q want %q", got, d.metaTitle)
		}
	}
	return ""
}

// expected outcome of opening with password pw, from the property's text:
// "" is always tried first; owner before user.
type secExpect struct {
	ok    bool
	owner bool
	known bool // false: the password cannot be prepared for this revision (outside the quantifier)
}

func (d *secDoc) expect(pw string) secExpect {
	R := d.sec.R
	owner := d.owner
	if owner == "" {
		owner = d.user
	}
	pu, _ := prepKey(R, d.user)
	po, _ := prepKey(R, owner)
	try := func(p string) (hit, isOwner, prepared bool) {
		k, ok := prepKey(R, p)
		if !ok {
			return false, false, false
		}
		if k == po {
			return true, true, true
		}
		if k == pu {
			return true, false, true
		}
		return false, false, true
	}
	if hit, isOwner, _ := try(""); hit {
		return secExpect{ok: true, owner: isOwner, known: true}
	}
	if pw == "" {
		return secExpect{ok: false, known: true}
	}
	hit, isOwner, prepared := try(pw)
	return secExpect{ok: hit, owner: isOwner, known: prepared}
}

// strPair is one string of the document: where, plaintext, stored bytes.
type strPair struct {
	ref    pdf.Reference
	plain  []byte
	stored []byte
}

// collectPairs walks the expected and the raw (undecrypted) value in parallel.
func collectPairs(ref pdf.Reference, plain, raw pdf.Object, out *[]strPair) error {
	switch p := plain.(type) {
	case pdf.String:
		q, ok := raw.(pdf.String)
		if !ok {
			return fmt.Errorf("%v: raw %T for a string", ref, raw)
		}
		*out = append(*out, strPair{ref, []byte(p), []byte(q)})
	case pdf.Array:
		q, ok := raw.(pdf.Array)
		if !ok || len(q) != len(p) {
			return fmt.Errorf("%v: raw array shape differs", ref)
		}
		for i := range p {
			if err := collectPairs(ref, p[i], q[i], out); err != nil {
				return err
			}
		}
	case pdf.Dict:
		var q pdf.Dict
		switch x := raw.(type) {
		case pdf.Dict:
			q = x
		case *pdf.Stream:
			q = x.Dict
		default:
			return fmt.Errorf("%v: raw %T for a dict", ref, raw)
		}
		keys := make([]string, 0, len(p))
		for k := range p {
			keys = append(keys, string(k))
		}
		sort.Strings(keys)
		for _, k := range keys {
			if err := collectPairs(ref, p[pdf.Name(k)], q[pdf.Name(k)], out); err != nil {
				return err
			}
		}
	}
	return nil
}

// allStrings collects every string below an object.
func allStrings(o pdf.Object, out *[][]byte) {
	switch x := o.(type) {
	case pdf.String:
		*out = append(*out, []byte(x))
	case pdf.Array:
		for _, e := range x {
			allStrings(e, out)
		}
	case pdf.Dict:
		keys := make([]string, 0, len(x))
		for k := range x {
			keys = append(keys, string(k))
		}
		sort.Strings(keys)
		for _, k := range keys {
			allStrings(x[pdf.Name(k)], out)
		}
	case *pdf.Stream:
		allStrings(x.Dict, out)
	}
}

func cipherOfCF(cf string) (string, int) {
	// "aes-128" -> ("aes", 16)
	parts := strings.SplitN(cf, "-", 2)
	if len(parts) != 2 {
		return "none", 0
	}
	var bits int
	fmt.Sscan(parts[1], &bits)
	return parts[0], bits / 8
}

// ---- container sizes and string lengths ----

var secArrayLens = []int{0, 1, 2, 15, 16, 31, 32, 33, 64, 100, 300}
var secDictSizes = []int{1, 8, 40}
var secStringLens = []int{0, 1, 15, 16, 17, 31, 32, 33, 255, 256, 1000}

// sweepString makes a string of exactly n bytes; from 12 bytes on it is a
// needle (distinctive plaintext that must not be visible in the file).
func (d *secDoc) sweepString(r *Rand, n int) pdf.String {
	if n < 12 {
		return pdf.String(r.Bytes(n))
	}
	nd := newNeedle(r, n)
	probe := nd
	if len(probe) > 48 {
		probe = probe[:48]
	}
	d.needles = append(d.needles, probe)
	return pdf.String(nd)
}

// sweepFiller is an array/dict element that is not a string.
func sweepFiller(r *Rand) pdf.Object {
	switch r.Intn(4) {
	case 0:
		return pdf.Name("N")
	case 1:
		return pdf.Boolean(true)
	default:
		return pdf.Integer(r.Intn(100000))
	}
}

// wrap puts obj below depth enclosing containers.
func sweepWrap(r *Rand, obj pdf.Object, depth int) pdf.Object {
	for k := 0; k < depth; k++ {
		if r.Bool() {
			obj = pdf.Array{pdf.Integer(k), obj}
		} else {
			obj = pdf.Dict{"W": obj, "D": pdf.Integer(k)}
		}
	}
	return obj
}

// sweep writes, in every document, one object per container size: arrays of
// every length of secArrayLens and dictionaries of every size of secDictSizes
// holding strings (all elements, or the first/middle/last and a random one,
// or inside nested arrays), below 0-3 enclosing containers, as direct objects,
// stream dictionary entries and object-stream members; and one array with a
// string of every length of secStringLens (AES block boundaries).
func (d *secDoc) sweep(r *Rand, w *pdf.Writer, newRef func() pdf.Reference) error {
	var objs []pdf.Object
	full := r.Intn(len(secArrayLens)) // this one consists of strings only
	for j, n := range secArrayLens {
		arr := make(pdf.Array, n)
		marks := map[int]bool{}
		if n > 0 {
			marks[0], marks[n/2], marks[n-1], marks[r.Intn(n)] = true, true, true, true
		}
		for i := range arr {
			switch {
			case j == full || marks[i]:
				arr[i] = d.sweepString(r, Pick(r, []int{12, 14, 16, 20, 5}))
			case n >= 32 && i%29 == 7:
				// nested arrays inside the long one, one of them long itself
				inner := pdf.Array{sweepFiller(r), d.sweepString(r, 13)}
				if i == 7 {
					for len(inner) < 40 {
						inner = append(inner, sweepFiller(r))
					}
					inner = append(inner, d.sweepString(r, 15))
				}
				arr[i] = inner
			default:
				arr[i] = sweepFiller(r)
			}
		}
		objs = append(objs, sweepWrap(r, arr, (j+r.Intn(4))%4))
	}
	for j, n := range secDictSizes {
		dict := pdf.Dict{}
		all := r.P(1, 3)
		for i := 0; i < n; i++ {
			key := pdf.Name(fmt.Sprintf("K%03d", i))
			switch {
			case all || i == 0 || i == n-1 || i == n/2:
				dict[key] = d.sweepString(r, Pick(r, []int{12, 16, 18, 3}))
			case i%11 == 5:
				// a name-tree like leaf: 16+ key/value pairs in one array
				leaf := pdf.Array{}
				for k := 0; k < 17+r.Intn(4); k++ {
					leaf = append(leaf, d.sweepString(r, 12), pdf.Integer(k))
				}
				dict[key] = pdf.Dict{"Names": leaf}
			default:
				dict[key] = sweepFiller(r)
			}
		}
		objs = append(objs, sweepWrap(r, dict, (j+r.Intn(4))%4))
	}
	lens := pdf.Array{}
	for _, n := range secStringLens {
		lens = append(lens, d.sweepString(r, n))
	}
	objs = append(objs, lens, pdf.Dict{"Lens": lens[len(lens)/2:], "Again": lens[3]})

	// spread over the three ways an object reaches the file
	var crefs []pdf.Reference
	var cobjs []pdf.Object
	for j, obj := range objs {
		switch (j + int(d.version)) % 4 {
		case 0: // value in a stream dictionary
			ref := newRef()
			dict := pdf.Dict{"V": obj, "J": pdf.Integer(j)}
			body := r.Bytes(r.Intn(40))
			if err := w.Put(ref, pdf.NewStream(copyDict(dict), body)); err != nil {
				return fmt.Errorf("sweep stream %v: %w", ref, err)
			}
			d.written = append(d.written, secWritten{ref: ref, obj: dict, isStream: true, body: body})
		case 1: // member of an object stream (written as a plain object where there are none)
			if _, isRef := obj.(pdf.Reference); !isRef {
				crefs = append(crefs, w.Alloc())
				cobjs = append(cobjs, obj)
				break
			}
			fallthrough
		default:
			ref := newRef()
			if err := w.Put(ref, obj); err != nil {
				return fmt.Errorf("sweep Put %v: %w", ref, err)
			}
			d.written = append(d.written, secWritten{ref: ref, obj: obj})
		}
	}
	if len(crefs) > 0 {
		if err := w.WriteCompressed(crefs, cobjs...); err != nil {
			return fmt.Errorf("sweep WriteCompressed: %w", err)
		}
		inStm := d.version >= pdf.V1_5 && !d.human
		for j := range crefs {
			d.written = append(d.written, secWritten{ref: crefs[j], obj: cobjs[j], inObjStm: inStm})
		}
	}
	return nil
}

// encV is the /V of the written encryption dictionary.
func (d *secDoc) encV() int {
	v, _ := d.encDict["V"].(pdf.Integer)
	return int(v)
}

package main

import (
	"os"
	"path/filepath"
	"regexp"

	"bytes"
	"cmp"
	"encoding/hex"
	"errors"
	"fmt"
	"iter"
	"math"
	"sort"
	"strconv"
	"strings"

	"seehuhn.de/go/pdf"
	"seehuhn.de/go/pdf/nametree"
	"seehuhn.de/go/pdf/numtree"
)

// C17 — name and number trees are faithful, ordered dictionaries.

func init() {
	addRun("C17", "key sets for name trees (random bytes, shared prefixes, prefix chains, empty key, non-ASCII, long keys) and number trees (dense, sparse, negative, int64 extremes) of sizes 0..10000 crossing 64 and 4096 (quick: up to 4097 once, mostly <= 600), written with Write/WriteMap, values of nine kinds incl. the null object and a nil Array / nil Dict (written as null) for a third of the keys of every second tree — Lookup is compared as the pair (found, value): present with a null value is not absent, for both readers, All() and Size count the key; probes: present keys (incl. leaf boundaries), absent keys between neighbours, below the minimum, above the maximum; plus unsorted/duplicate sequences; every size class also written while a stream is open on the pdf.Writer (all Puts queued until the stream closes, with and without other queued objects), then every present key looked up; a fixed corpus of keys a text decoder would alter (byte-order marks FE FF / FF FE / EF BB BF, UTF-16 text together with the text it spells, NUL, PDFDocEncoding specials 18-1F 7F-9F AD, parentheses, backslash, line ends, every single byte) and a generator mode for them; on every tree one FromFile object serves Lookups and a nested All() while its All() is suspended, and two of its iterators advance alternately. A case is non-trivial when it has at least two keys; distinct by kind, key sequence and probes.", runC17)
	addReplay("C17", "tree", replayC17)
	addRun("C17", "histories on ONE in-memory tree value (InMemory.Data is exported and mutable): random sequences of insert, replace, delete, delete-one-insert-another (same size), clear (in place / new map), All(), Lookup and Embed-then-extract over a small key pool (sometimes 60..200 keys); every seventh value is a null value (nil, nil Array, nil Dict); after every step All() and Lookup must show exactly the current map (a key with a null value is present), the written tree likewise. Non-trivial from four steps; distinct by the step string.", runC17History)
	addReplay("C17", "history", replayC17History)
}

// trsTreeReader is what both FromFile and InMemory offer.
type trsTreeReader[K cmp.Ordered] interface {
	Lookup(K) (pdf.Object, error)
	All() iter.Seq2[K, pdf.Object]
}

type trsTreeAPI[K cmp.Ordered] struct {
	kind     string
	leafKey  pdf.Name
	write    func(w *pdf.Writer, seq iter.Seq2[K, pdf.Object]) (pdf.Reference, error)
	writeMap func(w *pdf.Writer, m map[K]pdf.Object) (pdf.Reference, error) // may be nil
	fromFile func(r pdf.Getter, root pdf.Object) (trsTreeReader[K], error)
	inMemory func(r pdf.Getter, root pdf.Object) (trsTreeReader[K], error)
	// embedMem: InMemory{Data: m}.Embed; embedFile: ExtractFromFile(r, root).Embed (a tree copied
	// from another file by the streaming reader)
	embedMem  func(rm *pdf.ResourceManager, m map[K]pdf.Object) (pdf.Native, error)
	embedFile func(rm *pdf.ResourceManager, r pdf.Getter, root pdf.Object) (pdf.Native, error)
	newMem    func() *trsMemHandle[K] // a fresh, empty in-memory tree value
	size      func(r pdf.Getter, root pdf.Object) (int, error)
	decode    func(o pdf.Object) (K, bool)
	tok       func(K) string
	untok     func(string) (K, error)
	hash      func(K) uint64
}

var trsNameAPI = trsTreeAPI[pdf.Name]{
	kind:    "name",
	leafKey: "Names",
	write:   nametree.Write,
	writeMap: func(w *pdf.Writer, m map[pdf.Name]pdf.Object) (pdf.Reference, error) {
		return nametree.WriteMap(w, m)
	},
	fromFile: func(r pdf.Getter, root pdf.Object) (trsTreeReader[pdf.Name], error) {
		return nametree.ExtractFromFile(r, root)
	},
	inMemory: func(r pdf.Getter, root pdf.Object) (trsTreeReader[pdf.Name], error) {
		return nametree.ExtractInMemory(r, root)
	},
	embedMem: func(rm *pdf.ResourceManager, m map[pdf.Name]pdf.Object) (pdf.Native, error) {
		return rm.Embed(&nametree.InMemory{Data: m})
	},
	embedFile: func(rm *pdf.ResourceManager, r pdf.Getter, root pdf.Object) (pdf.Native, error) {
		t, err := nametree.ExtractFromFile(r, root)
		if err != nil {
			return nil, err
		}
		return rm.Embed(t)
	},
	newMem: func() *trsMemHandle[pdf.Name] {
		t := &nametree.InMemory{Data: map[pdf.Name]pdf.Object{}}
		return &trsMemHandle[pdf.Name]{
			reader: t,
			data:   func() map[pdf.Name]pdf.Object { return t.Data },
			reset:  func(m map[pdf.Name]pdf.Object) { t.Data = m },
			embed:  func(rm *pdf.ResourceManager) (pdf.Native, error) { return rm.Embed(t) },
		}
	},
	size: nametree.Size,
	decode: func(o pdf.Object) (pdf.Name, bool) {
		s, ok := o.(pdf.String)
		return pdf.Name(s), ok
	},
	tok: func(k pdf.Name) string { return hexWire([]byte(k)) },
	untok: func(s string) (pdf.Name, error) {
		if s == "-" {
			return "", nil
		}
		b, err := hex.DecodeString(s)
		return pdf.Name(b), err
	},
	hash: func(k pdf.Name) uint64 {
		h := uint64(7)
		for i := 0; i < len(k); i++ {
			h = (h*131 + uint64(k[i]) + 1) % (1 << 32)
		}
		return h
	},
}

var trsNumAPI = trsTreeAPI[pdf.Integer]{
	kind:    "num",
	leafKey: "Nums",
	write:   numtree.Write,
	fromFile: func(r pdf.Getter, root pdf.Object) (trsTreeReader[pdf.Integer], error) {
		return numtree.ExtractFromFile(r, root)
	},
	inMemory: func(r pdf.Getter, root pdf.Object) (trsTreeReader[pdf.Integer], error) {
		return numtree.ExtractInMemory(r, root)
	},
	embedMem: func(rm *pdf.ResourceManager, m map[pdf.Integer]pdf.Object) (pdf.Native, error) {
		return rm.Embed(&numtree.InMemory{Data: m})
	},
	embedFile: func(rm *pdf.ResourceManager, r pdf.Getter, root pdf.Object) (pdf.Native, error) {
		t, err := numtree.ExtractFromFile(r, root)
		if err != nil {
			return nil, err
		}
		return rm.Embed(t)
	},
	newMem: func() *trsMemHandle[pdf.Integer] {
		t := &numtree.InMemory{Data: map[pdf.Integer]pdf.Object{}}
		return &trsMemHandle[pdf.Integer]{
			reader: t,
			data:   func() map[pdf.Integer]pdf.Object { return t.Data },
			reset:  func(m map[pdf.Integer]pdf.Object) { t.Data = m },
			embed:  func(rm *pdf.ResourceManager) (pdf.Native, error) { return rm.Embed(t) },
		}
	},
	size: numtree.Size,
	decode: func(o pdf.Object) (pdf.Integer, bool) {
		i, ok := o.(pdf.Integer)
		return i, ok
	},
	tok: func(k pdf.Integer) string { return strconv.FormatInt(int64(k), 10) },
	untok: func(s string) (pdf.Integer, error) {
		i, err := strconv.ParseInt(s, 10, 64)
		return pdf.Integer(i), err
	},
	hash: func(k pdf.Integer) uint64 { return uint64(uint32(uint64(k))) },
}

// trsMemHandle gives the harness the exported, mutable parts of an in-memory tree value.
type trsMemHandle[K cmp.Ordered] struct {
	reader trsTreeReader[K]
	data   func() map[K]pdf.Object
	reset  func(map[K]pdf.Object)
	embed  func(rm *pdf.ResourceManager) (pdf.Native, error)
}

// ---- values: the i-th entry stores an object from which i can be recovered ----

func trsVal(i, style int) pdf.Object {
	k := 0
	switch style {
	case 1:
		k = i % 9
	case 2: // no bare references (they mean nothing in another file)
		k = i % 8
		if k >= 5 {
			k++
		}
	}
	switch k {
	case 1:
		return pdf.String(strconv.Itoa(i))
	case 2:
		return pdf.Array{pdf.Integer(i), pdf.Name("x")}
	case 3:
		return pdf.Dict{"I": pdf.Integer(i)}
	case 4:
		return pdf.Name("v" + strconv.Itoa(i))
	case 5:
		return pdf.NewReference(uint32(i+1), 0)
	case 6: // the null object: the key is present, its value is null
		return nil
	case 7: // a nil Array / nil Dict is written as null
		return pdf.Array(nil)
	case 8:
		return pdf.Dict(nil)
	}
	return pdf.Integer(i)
}

// trsIsNull: the null object, in any of the forms Go code can hand it over.
func trsIsNull(o pdf.Object) bool {
	switch x := o.(type) {
	case nil:
		return true
	case pdf.Array:
		return x == nil
	case pdf.Dict:
		return x == nil
	}
	return false
}

// trsSame: the value read is the value stored.
func trsSame(got, want pdf.Object) bool {
	if trsIsNull(want) {
		return trsIsNull(got)
	}
	return !trsIsNull(got) && pdf.Equal(got, want)
}

// trsValIdxAt recovers the entry number from a value; a null value carries none, it counts as
// entry `exp` when that entry was stored as null (exp < 0: the key is not in the map).
func trsValIdxAt(o pdf.Object, exp, style int) (int, bool) {
	if trsIsNull(o) {
		if exp >= 0 && trsIsNull(trsVal(exp, style)) {
			return exp, true
		}
		return 0, false
	}
	return trsValIdx(o)
}

func trsValIdx(o pdf.Object) (int, bool) {
	switch x := o.(type) {
	case pdf.Integer:
		return int(x), true
	case pdf.String:
		i, err := strconv.Atoi(string(x))
		return i, err == nil
	case pdf.Array:
		if len(x) == 2 {
			if i, ok := x[0].(pdf.Integer); ok && x[1] == pdf.Name("x") {
				return int(i), true
			}
		}
	case pdf.Dict:
		if i, ok := x["I"].(pdf.Integer); ok && len(x) == 1 {
			return int(i), true
		}
	case pdf.Name:
		if strings.HasPrefix(string(x), "v") {
			i, err := strconv.Atoi(string(x[1:]))
			return i, err == nil
		}
	case pdf.Reference:
		return int(x.Number()) - 1, x.Generation() == 0
	}
	return 0, false
}

// ---- one case ----

// vstyle is the value style in effect: a tree that is copied to another file (via 3) stores no
// bare reference values -- a reference is translated on the way, and the harness' references
// point nowhere (values that are references to real objects: see trs_c17x.go).
func (tc *trsTreeCase[K]) vstyle() int {
	if tc.via == 3 && tc.style == 1 {
		return 2
	}
	return tc.style
}

type trsTreeCase[K cmp.Ordered] struct {
	keys   []K // in the order handed to Write
	probes []K
	style  int
	useMap bool
	stream int // 0: plain; 1: the tree is written while a stream is open on the pdf.Writer (every Put is queued until the stream closes); 2: same, with other objects queued before and after
	via    int // 0: Write/WriteMap; 2: InMemory{Data}.Embed; 3: FromFile.Embed of a tree first written to another file
}

// trsOther is an object the harness itself wrote next to the tree (to see that
// queued objects do not disturb each other).
type trsOther struct {
	ref  pdf.Reference
	want pdf.Object
}

func trsEncodeCase[K cmp.Ordered](api *trsTreeAPI[K], tc *trsTreeCase[K]) string {
	return fmt.Sprintf("%s|%d|%v|%s|%s|%d|%d", api.kind, tc.style, tc.useMap, trsToks(api, tc.keys), trsToks(api, tc.probes), tc.stream, tc.via)
}

func trsToks[K cmp.Ordered](api *trsTreeAPI[K], ks []K) string {
	if len(ks) == 0 {
		return "~"
	}
	parts := make([]string, len(ks))
	for i, k := range ks {
		parts[i] = api.tok(k)
	}
	return strings.Join(parts, ",")
}

func trsUntoks[K cmp.Ordered](api *trsTreeAPI[K], s string) ([]K, error) {
	if s == "~" {
		return nil, nil
	}
	var out []K
	for _, p := range strings.Split(s, ",") {
		k, err := api.untok(p)
		if err != nil {
			return nil, err
		}
		out = append(out, k)
	}
	return out, nil
}

type trsFail struct{ key, desc string }

// trsWriteFile writes the tree and closes the file around it.
func trsWriteFile[K cmp.Ordered](api *trsTreeAPI[K], tc *trsTreeCase[K]) (data []byte, root pdf.Reference, others []trsOther, streamRef pdf.Reference, werr error) {
	buf := &bytes.Buffer{}
	w, err := pdf.NewWriter(buf, pdf.V1_7, nil)
	if err != nil {
		panic(err)
	}
	put := func(o pdf.Object) {
		ref := w.Alloc()
		if err := w.Put(ref, o); err != nil {
			panic(err)
		}
		others = append(others, trsOther{ref, o})
	}
	var sw interface {
		Write([]byte) (int, error)
		Close() error
	}
	if tc.stream > 0 {
		if tc.stream == 2 {
			put(pdf.Array{pdf.Integer(1), pdf.Name("before-stream")})
		}
		streamRef = w.Alloc()
		sw, err = w.OpenStream(streamRef, pdf.Dict{})
		if err != nil {
			panic(err)
		}
		if _, err := sw.Write([]byte("BT ")); err != nil {
			panic(err)
		}
		if tc.stream == 2 {
			put(pdf.Dict{"Queued": pdf.Integer(1), "A": pdf.Array{pdf.Name("x"), pdf.String("y")}})
			put(pdf.Array{pdf.String("queued before the tree")})
		}
	}
	asRef := func(n pdf.Native, err error) (pdf.Reference, error) {
		if err != nil || n == nil {
			return 0, err
		}
		ref, ok := n.(pdf.Reference)
		if !ok {
			return 0, fmt.Errorf("Embed returned %T", n)
		}
		return ref, nil
	}
	if tc.via == 2 {
		m := make(map[K]pdf.Object, len(tc.keys))
		for i, k := range tc.keys {
			m[k] = trsVal(i, tc.vstyle())
		}
		rm := pdf.NewResourceManager(w)
		root, werr = asRef(api.embedMem(rm, m))
		if err := rm.Close(); err != nil && werr == nil {
			werr = err
		}
	} else if tc.via == 3 {
		// write the tree to a first file, then let the streaming reader copy it
		src := *tc
		src.via, src.stream, src.style = 0, 0, tc.vstyle()
		data1, root1, _, _, err1 := trsWriteFile(api, &src)
		if err1 != nil || root1 == 0 {
			werr = err1
		} else {
			rd1, err := pdf.NewReader(bytes.NewReader(data1), int64(len(data1)), nil)
			if err != nil {
				panic(err)
			}
			rm := pdf.NewResourceManager(w)
			root, werr = asRef(api.embedFile(rm, rd1, root1))
			if err := rm.Close(); err != nil && werr == nil {
				werr = err
			}
			rd1.Close()
		}
	} else if tc.useMap && api.writeMap != nil {
		m := make(map[K]pdf.Object, len(tc.keys))
		for i, k := range tc.keys {
			m[k] = trsVal(i, tc.vstyle())
		}
		root, werr = api.writeMap(w, m)
	} else {
		seq := func(yield func(K, pdf.Object) bool) {
			for i, k := range tc.keys {
				if !yield(k, trsVal(i, tc.vstyle())) {
					return
				}
			}
		}
		root, werr = api.write(w, seq)
	}
	if tc.stream > 0 {
		if tc.stream == 2 {
			put(pdf.Dict{"Queued": pdf.Integer(2)})
		}
		if _, err := sw.Write([]byte("ET")); err != nil {
			panic(err)
		}
		if err := sw.Close(); err != nil {
			panic(err)
		}
		if tc.stream == 2 {
			put(pdf.Array{pdf.Integer(3), pdf.Name("after-stream")})
		}
	}
	pages := w.Alloc()
	if err := w.Put(pages, pdf.Dict{"Type": pdf.Name("Pages"), "Kids": pdf.Array{}, "Count": pdf.Integer(0)}); err != nil {
		panic(err)
	}
	w.GetMeta().Catalog.Pages = pages
	if err := w.Close(); err != nil {
		panic(err)
	}
	return buf.Bytes(), root, others, streamRef, werr
}

// trsLookupTok prints Lookup's result as the PAIR (found, value): a present key whose value is
// null is `f<entry>`, an absent key for which (nil, nil) came back is `fnull`.
func trsLookupTok(o pdf.Object, err error, exp, style int) string {
	switch {
	case err == nil:
		if i, ok := trsValIdxAt(o, exp, style); ok {
			return "f" + strconv.Itoa(i)
		}
		if trsIsNull(o) {
			return "fnull"
		}
		return "f?"
	case errors.Is(err, nametree.ErrKeyNotFound):
		return "n"
	case pdf.IsMalformed(err):
		return "d"
	}
	return "e"
}

// trsShape prints the written tree (shared format with the Lean driver) and
// checks the structural part of the property on the raw node dictionaries.
type trsShapeWalker[K cmp.Ordered] struct {
	api   *trsTreeAPI[K]
	rd    *pdf.Reader
	fails []trsFail
	keys  []K // all keys in tree order
	seen  map[pdf.Reference]bool
}

func (sw *trsShapeWalker[K]) fail(key, format string, a ...any) {
	if len(sw.fails) < 5 {
		sw.fails = append(sw.fails, trsFail{key, fmt.Sprintf(format, a...)})
	}
}

func (sw *trsShapeWalker[K]) limitsStr(d pdf.Dict) (string, bool, K, K) {
	var lo, hi K
	lim, ok := d["Limits"]
	if !ok {
		return "[-]", false, lo, hi
	}
	arr, ok := lim.(pdf.Array)
	if !ok || len(arr) != 2 {
		return "[?]", false, lo, hi
	}
	lo, ok1 := sw.api.decode(arr[0])
	hi, ok2 := sw.api.decode(arr[1])
	if !ok1 || !ok2 {
		return "[?]", false, lo, hi
	}
	return "[" + sw.api.tok(lo) + ";" + sw.api.tok(hi) + "]", true, lo, hi
}

// walk returns the shape string and the first and last key below the node.
func (sw *trsShapeWalker[K]) walk(ref pdf.Reference, isRoot bool, depth int, sb *strings.Builder) (first, last K, n int) {
	if depth > 40 {
		sw.fail("shape", "tree deeper than 40")
		return
	}
	if sw.seen == nil {
		sw.seen = map[pdf.Reference]bool{}
	}
	if sw.seen[ref] {
		// a node listed twice: not a tree (and walking it again could take exponential time)
		sw.fail("shape", "node %v is reachable twice", ref)
		return
	}
	sw.seen[ref] = true
	obj, err := sw.rd.Get(ref, true)
	if err != nil {
		sw.fail("shape", "reading node %v: %v", ref, err)
		return
	}
	d, ok := obj.(pdf.Dict)
	if !ok {
		sw.fail("shape", "node %v is %T", ref, obj)
		return
	}
	ls, hasLim, lo, hi := sw.limitsStr(d)
	_, hasLeaf := d[sw.api.leafKey]
	_, hasKids := d["Kids"]
	if hasLeaf == hasKids {
		sw.fail("shape", "node %v has leaf array: %v, Kids: %v", ref, hasLeaf, hasKids)
	}
	if hasLeaf {
		arr, _ := d[sw.api.leafKey].(pdf.Array)
		if len(arr)%2 != 0 {
			sw.fail("shape", "odd leaf array")
		}
		n = len(arr) / 2
		fmt.Fprintf(sb, "L%d%s", n, ls)
		if n == 0 {
			sw.fail("shape", "empty leaf")
		}
		if n > 64 {
			sw.fail("fanout", "leaf with %d entries", n)
		}
		for i := 0; i+1 < len(arr); i += 2 {
			k, ok := sw.api.decode(arr[i])
			if !ok {
				sw.fail("shape", "undecodable key %v", arr[i])
				continue
			}
			if i == 0 {
				first = k
			} else if !(last < k) {
				sw.fail("node-sorted", "keys %s, %s not ascending in a leaf", sw.api.tok(last), sw.api.tok(k))
			}
			last = k
			sw.keys = append(sw.keys, k)
		}
	} else {
		kids, _ := d["Kids"].(pdf.Array)
		if len(kids) == 0 {
			sw.fail("shape", "node without kids")
		}
		if len(kids) > 64 {
			sw.fail("fanout", "node with %d kids", len(kids))
		}
		sb.WriteString("N(")
		for i, kid := range kids {
			kr, ok := kid.(pdf.Reference)
			if !ok {
				sw.fail("shape", "kid is %T", kid)
				continue
			}
			f, l, m := sw.walk(kr, false, depth+1, sb)
			if m == 0 {
				continue
			}
			if n == 0 {
				first = f
			} else if !(last < f) {
				sw.fail("node-sorted", "kid %d starts at %s, previous ends at %s", i, sw.api.tok(f), sw.api.tok(last))
			}
			last = l
			n += m
		}
		sb.WriteString(")" + ls)
	}
	if isRoot {
		if _, has := d["Limits"]; has {
			sw.fail("root-limits", "root node has /Limits")
		}
	} else if !hasLim {
		sw.fail("limits", "non-root node %v without valid /Limits", ref)
	} else if n > 0 && (lo != first || hi != last) {
		sw.fail("limits", "node %v has Limits %s but holds %s..%s", ref, ls, sw.api.tok(first), sw.api.tok(last))
	}
	return
}

// trsRunCase evaluates the property on the implementation and returns the
// correspondence result line.
func trsRunCase[K cmp.Ordered](api *trsTreeAPI[K], tc *trsTreeCase[K]) (implLine string, fails []trsFail) {
	defer func() {
		if r := recover(); r != nil {
			fails = append(fails, trsFail{"panic", fmt.Sprintf("panic: %v", r)})
			implLine = "panic"
		}
	}()
	fail := func(key, format string, a ...any) {
		if len(fails) < 8 {
			fails = append(fails, trsFail{key, fmt.Sprintf(format, a...)})
		}
	}

	sortedInput := true
	for i := 1; i < len(tc.keys); i++ {
		if !(tc.keys[i-1] < tc.keys[i]) {
			sortedInput = false
		}
	}
	data, root, others, streamRef, werr := trsWriteFile(api, tc)

	// the map being stored (for WriteMap a later duplicate would overwrite; the
	// generator only uses WriteMap with distinct keys)
	want := append([]K(nil), tc.keys...)
	if (tc.useMap && api.writeMap != nil) || tc.via == 2 {
		sort.Slice(want, func(i, j int) bool { return want[i] < want[j] })
		sortedInput = true
		for i := 1; i < len(want); i++ {
			if want[i-1] == want[i] {
				return "skip", nil
			}
		}
	}
	idx := make(map[K]int, len(tc.keys))
	for i, k := range tc.keys {
		idx[k] = i
	}

	if !sortedInput {
		if werr == nil {
			fail("unsorted-accepted", "Write accepted a key sequence that is not strictly ascending")
			return "ok ?", fails
		}
		return "err unsorted", fails
	}
	if werr != nil {
		fail("write-error", "Write failed on sorted distinct keys: %v", werr)
		return "err " + werr.Error(), fails
	}

	rd, err := pdf.NewReader(bytes.NewReader(data), int64(len(data)), nil)
	if err != nil {
		fail("write-error", "file with tree cannot be opened: %v", err)
		return "err reader", fails
	}
	defer rd.Close()

	// the objects written next to the tree and the stream that was open meanwhile
	for _, o := range others {
		got, err := rd.Get(o.ref, true)
		if err != nil || !pdf.Equal(got, o.want) {
			fail("stream-other", "object %v written next to the tree reads back as %v, %v; want %v", o.ref, got, err, o.want)
		}
	}
	if streamRef != 0 {
		got, err := rd.Get(streamRef, false)
		stm, ok := got.(*pdf.Stream)
		if err != nil || !ok {
			fail("stream-other", "the stream that was open while the tree was written reads back as %T, %v", got, err)
		} else if body, err := pdf.ReadAll(rd, nil, stm, 1<<20); err != nil || string(body) != "BT ET" {
			fail("stream-other", "the stream that was open while the tree was written holds %q, %v", body, err)
		}
	}

	var rootObj pdf.Object
	shape := "none"
	if len(want) == 0 {
		if root != 0 {
			fail("empty-tree", "empty map gave root %v", root)
		}
	} else {
		if root == 0 {
			fail("write-error", "non-empty map gave no root")
			return "ok none", fails
		}
		rootObj = root
		sw := &trsShapeWalker[K]{api: api, rd: rd}
		var sb strings.Builder
		sw.walk(root, true, 0, &sb)
		shape = sb.String()
		fails = append(fails, sw.fails...)
		if len(sw.keys) != len(want) {
			fail("all-order", "tree holds %d keys, want %d", len(sw.keys), len(want))
		} else {
			for i := range want {
				if sw.keys[i] != want[i] {
					fail("all-order", "key %d in tree order is %s, want %s", i, api.tok(sw.keys[i]), api.tok(want[i]))
					break
				}
			}
		}
	}

	stream, err := api.fromFile(rd, rootObj)
	if err != nil {
		fail("write-error", "ExtractFromFile: %v", err)
		return "err extract", fails
	}
	mem, err := api.inMemory(rd, rootObj)
	if err != nil {
		fail("write-error", "ExtractInMemory: %v", err)
		return "err extract", fails
	}

	// enumeration: sorted, complete, values intact; both readers
	enum := func(name string, t trsTreeReader[K]) string {
		i := 0
		h := uint64(1)
		bad := false
		for k, v := range t.All() {
			exp := -1
			if e, present := idx[k]; present {
				exp = e
			}
			vi, ok := trsValIdxAt(v, exp, tc.vstyle())
			if !ok {
				vi = -1
			}
			if !bad {
				if i >= len(want) || k != want[i] {
					fail("all-order", "%s.All() entry %d has key %s", name, i, api.tok(k))
					bad = true
				} else if !ok || vi != idx[k] || !trsSame(v, trsVal(idx[k], tc.vstyle())) {
					fail("all-value", "%s.All() key %s has value %v, want %v", name, api.tok(k), v, trsVal(idx[k], tc.vstyle()))
					bad = true
				}
			}
			h = (h*31 + api.hash(k) + 7*uint64(vi)) % (1 << 32)
			i++
		}
		if i != len(want) && !bad {
			fail("all-order", "%s.All() gave %d entries, want %d", name, i, len(want))
		}
		return fmt.Sprintf("%d:%d", i, h)
	}
	as := enum("FromFile", stream)
	am := enum("InMemory", mem)
	trsInterleave(api, stream, mem, want, idx, tc, fail)
	// and once more plainly: the interleaved calls must not have left anything behind
	if as2 := enum("FromFile (after interleaved calls)", stream); as2 != as {
		fail("interleave-all", "All() after interleaved calls: %s, before: %s", as2, as)
	}
	if rootObj != nil {
		n, err := api.size(rd, rootObj)
		if err != nil || n != len(want) {
			fail("size", "Size = %d, %v; want %d", n, err, len(want))
		}
	}

	// lookups
	var ss, ms []string
	for _, p := range tc.probes {
		vs, es := stream.Lookup(p)
		vm, em := mem.Lookup(p)
		exp := -1
		if e, present := idx[p]; present {
			exp = e
		}
		ts, tm := trsLookupTok(vs, es, exp, tc.vstyle()), trsLookupTok(vm, em, exp, tc.vstyle())
		ss = append(ss, ts)
		ms = append(ms, tm)
		if i, present := idx[p]; present {
			wantV := trsVal(i, tc.vstyle())
			if es != nil || !trsSame(vs, wantV) {
				fail("lookup-present", "FromFile.Lookup(%s) = %v, %v; want %v", api.tok(p), vs, es, wantV)
			}
			if em != nil || !trsSame(vm, wantV) {
				fail("lookup-present", "InMemory.Lookup(%s) = %v, %v; want %v", api.tok(p), vm, em, wantV)
			}
		} else {
			if !errors.Is(es, nametree.ErrKeyNotFound) {
				fail("lookup-absent", "FromFile.Lookup(%s) of an absent key = %v, %v", api.tok(p), vs, es)
			}
			if !errors.Is(em, nametree.ErrKeyNotFound) {
				fail("lookup-absent", "InMemory.Lookup(%s) of an absent key = %v, %v", api.tok(p), vm, em)
			}
		}
		if ts != tm {
			fail("readers-disagree", "Lookup(%s): FromFile %s, InMemory %s", api.tok(p), ts, tm)
		}
	}
	if as != am {
		fail("readers-disagree", "All(): FromFile %s, InMemory %s", as, am)
	}
	return "ok " + shape + " S:" + strings.Join(ss, ",") + " M:" + strings.Join(ms, ",") + " AS:" + as + " AM:" + am, fails
}

func replayC17(input string) (bool, string) {
	parts := strings.Split(input, "|")
	if len(parts) < 5 || len(parts) > 7 {
		return true, "bad replay input"
	}
	via := 0
	if len(parts) == 7 {
		via, _ = strconv.Atoi(parts[6])
	}
	style, _ := strconv.Atoi(parts[1])
	useMap := parts[2] == "true"
	stream := 0
	if len(parts) == 6 {
		stream, _ = strconv.Atoi(parts[5])
	}
	var fails []trsFail
	var line string
	if parts[0] == "name" {
		keys, e1 := trsUntoks(&trsNameAPI, parts[3])
		probes, e2 := trsUntoks(&trsNameAPI, parts[4])
		if e1 != nil || e2 != nil {
			return true, "bad replay input"
		}
		line, fails = trsRunCase(&trsNameAPI, &trsTreeCase[pdf.Name]{keys, probes, style, useMap, stream, via})
	} else {
		keys, e1 := trsUntoks(&trsNumAPI, parts[3])
		probes, e2 := trsUntoks(&trsNumAPI, parts[4])
		if e1 != nil || e2 != nil {
			return true, "bad replay input"
		}
		line, fails = trsRunCase(&trsNumAPI, &trsTreeCase[pdf.Integer]{keys, probes, style, useMap, stream, via})
	}
	if len(fails) > 0 {
		return false, fmt.Sprintf("%s: %s (impl line %s)", fails[0].key, fails[0].desc, truncate(line))
	}
	return true, "tree written and read back: " + truncate(line)
}

// trsBigLine drops the in-memory reader's part of a result line (the `ntb` operation of the
// driver does not run the quadratic in-memory model on big trees; the oracle still checks the
// real in-memory reader).
func trsBigLine(line string) string {
	i := strings.Index(line, " M:")
	j := strings.Index(line, " AS:")
	k := strings.Index(line, " AM:")
	if i < 0 || j < 0 || k < 0 {
		return line
	}
	return line[:i] + line[j:k]
}

// trsStructIdx: positions worth looking up in a big tree: the whole last leaf and the leaf
// before it, the first and last key of every leaf (the ends of every /Limits interval), the
// keys around every multiple of F*F (first/last leaf of every intermediate node), some random.
func trsStructIdx(r *Rand, n, F int) []int {
	seen := map[int]bool{}
	var out []int
	add := func(i int) {
		if i >= 0 && i < n && !seen[i] {
			seen[i] = true
			out = append(out, i)
		}
	}
	lastLeaf := (n - 1) / F * F
	for i := lastLeaf - 3; i < n; i++ { // the whole last leaf, the end of the one before
		add(i)
	}
	lastNode := (n - 1) / (F * F) * (F * F) // first key below the last intermediate node of depth 1
	for i := 0; i < n; i += F {
		if i >= lastNode || (i/F)%8 == 0 { // ends of every leaf of the last node, of every 8th leaf elsewhere
			add(i)
			add(i - 1)
		}
	}
	for i := 0; i <= n; i += F * F {
		for _, d := range []int{-F - 1, -F, -F + 1, -2, -1, 0, 1, 2, F - 1, F, F + 1} {
			add(i + d)
		}
	}
	for i := 0; i < 20; i++ {
		add(r.Intn(n))
	}
	return out
}

// trsFanout reads pdftree.maxChildren from the facts that tools/extract regenerates from the
// source on every check (lean/PdfVerif/Generated/FactsTRS.lean, found relative to the harness
// binary in <verif>/.build); if the file cannot be found it measures the fan-out on a written
// tree (size of the first leaf).
func trsFanout() int {
	if exe, err := os.Executable(); err == nil {
		root := filepath.Dir(filepath.Dir(exe))
		if raw, err := os.ReadFile(filepath.Join(root, "lean", "PdfVerif", "Generated", "FactsTRS.lean")); err == nil {
			if m := regexp.MustCompile(`def pdftree_maxChildren : Nat := (\d+)`).FindSubmatch(raw); m != nil {
				if v, err := strconv.Atoi(string(m[1])); err == nil && v >= 2 && v <= 1024 {
					return v
				}
			}
		}
	}
	keys := make([]pdf.Integer, 3000)
	for i := range keys {
		keys[i] = pdf.Integer(i)
	}
	tc := &trsTreeCase[pdf.Integer]{keys: keys}
	line, _ := trsRunCase(&trsNumAPI, tc)
	if i := strings.Index(line, "L"); i >= 0 {
		j := i + 1
		for j < len(line) && line[j] >= '0' && line[j] <= '9' {
			j++
		}
		if v, err := strconv.Atoi(line[i+1 : j]); err == nil && v >= 2 {
			return v
		}
	}
	return 64
}

// ---- keys that a text-string decoder would not leave alone ----

// trsCodecBytes: NUL, the PDFDocEncoding code points without a plain Latin-1 meaning,
// soft hyphen, string delimiters, line ends.
var trsCodecBytes = func() []byte {
	b := []byte{0x00, 0xad, '(', ')', '\\', '\r', '\n', 0xfe, 0xff, 0xef}
	for c := 0x18; c <= 0x1f; c++ {
		b = append(b, byte(c))
	}
	for c := 0x7f; c <= 0x9f; c++ {
		b = append(b, byte(c))
	}
	return b
}()

func trsUTF16(s string, bigEndian bool) string {
	var b []byte
	for i := 0; i < len(s); i++ {
		if bigEndian {
			b = append(b, 0, s[i])
		} else {
			b = append(b, s[i], 0)
		}
	}
	return string(b)
}

var trsCodecKeys = []string{
	"\xfe\xff", "\xff\xfe", "\xef\xbb\xbf", "\xfe", "\xff", "\xef\xbb",
	"\xfe\xff\x00A", "\xff\xfeA\x00", "\xef\xbb\xbfA", "A",
	"\xfe\xff\x00A\x00B", "\xff\xfeA\x00B\x00", "\xef\xbb\xbfAB", "AB",
	"\xfe\xff\x00", "\xfe\xff\xd8\x00", "\xfe\xff\xd8\x00\xdc\x00", "\xfe\xff\x00\x1b\x00e\x00n\x00\x1b\x00A",
	"\xfe\xff\xfe\xff", "\xfe\xff\xfe\xff\x00A", "\xef\xbb\xbf\xef\xbb\xbf",
	"\x00", "\x00\x00", "A\x00", "\x00A", "\x00A\x00B", "A\x00B",
	"(", ")", "\\", "()", "(()", "())", "\\(", "\\)", "a(b", "a)b", "a\\b", "\\\\", "\\n", "\\053",
	"\r", "\n", "\r\n", "a\rb", "a\nb", "a\r\nb", "\t", " ", "a b",
	"\xad", "A\xad", "\xc3\xa9", "\xe9", "\x80", "\xa0",
}

// trsCodecVariants: other byte strings that a decoder treating keys as text would identify
// with k (or that k would be identified with).
func trsCodecVariants(k pdf.Name) []pdf.Name {
	s := string(k)
	out := []pdf.Name{pdf.Name("\xef\xbb\xbf" + s)}
	ascii := true
	for i := 0; i < len(s); i++ {
		if s[i] >= 0x80 {
			ascii = false
		}
	}
	if ascii {
		out = append(out, pdf.Name("\xfe\xff"+trsUTF16(s, true)), pdf.Name("\xff\xfe"+trsUTF16(s, false)))
	}
	dec16 := func(b string, bigEndian bool) (string, bool) {
		if len(b)%2 != 0 {
			return "", false
		}
		var o []byte
		for i := 0; i+1 < len(b); i += 2 {
			hi, lo := b[i], b[i+1]
			if !bigEndian {
				hi, lo = lo, hi
			}
			if hi != 0 {
				return "", false
			}
			o = append(o, lo)
		}
		return string(o), true
	}
	switch {
	case strings.HasPrefix(s, "\xfe\xff"):
		if d, ok := dec16(s[2:], true); ok {
			out = append(out, pdf.Name(d))
		}
		out = append(out, pdf.Name(s[2:]))
	case strings.HasPrefix(s, "\xff\xfe"):
		if d, ok := dec16(s[2:], false); ok {
			out = append(out, pdf.Name(d))
		}
		out = append(out, pdf.Name(s[2:]))
	case strings.HasPrefix(s, "\xef\xbb\xbf"):
		out = append(out, pdf.Name(s[3:]))
	}
	return out
}

func trsSortedNames(ss []string) []pdf.Name {
	set := map[string]bool{}
	for _, x := range ss {
		set[x] = true
	}
	var u []string
	for x := range set {
		u = append(u, x)
	}
	sort.Strings(u)
	out := make([]pdf.Name, len(u))
	for i, x := range u {
		out[i] = pdf.Name(x)
	}
	return out
}

// trsCodecCorpus: key sets of the fixed corpus.  (0) every special key together with the
// keys it could be confused with; (1) only the marked/encoded forms (the plain forms are
// probed and must be absent); (2) only the plain forms (the encoded ones are probed);
// (3) one key per byte value and per special byte as first/last byte.
func trsCodecCorpus() (sets [][]pdf.Name, probes [][]pdf.Name) {
	all := append([]string(nil), trsCodecKeys...)
	for _, c := range trsCodecBytes {
		all = append(all, string([]byte{c}), "k"+string([]byte{c}), string([]byte{c})+"k")
	}
	var enc, plain []string
	for _, w := range []string{"A", "AB", "key1", "", "(", "x\\y", "Name One"} {
		plain = append(plain, w)
		enc = append(enc, "\xfe\xff"+trsUTF16(w, true), "\xff\xfe"+trsUTF16(w, false), "\xef\xbb\xbf"+w)
	}
	var bytesAll []string
	for c := 0; c < 256; c++ {
		bytesAll = append(bytesAll, string([]byte{byte(c)}))
	}
	raw := [][]string{append(append(append([]string(nil), all...), enc...), plain...), enc, plain, bytesAll}
	for _, ss := range raw {
		keys := trsSortedNames(ss)
		var pr []pdf.Name
		pr = append(pr, keys...)
		for _, k := range keys {
			pr = append(pr, trsCodecVariants(k)...)
		}
		for _, x := range all {
			pr = append(pr, pdf.Name(x))
		}
		sets = append(sets, keys)
		probes = append(probes, pr)
	}
	return
}

// ---- one reader object used by interleaved calls ----

// trsInterleave: while an All() enumeration of the streaming reader is suspended inside its
// yield, the same object serves Lookups (keys in earlier, the current and later leaves, absent
// keys) and a nested All(); two iterators over the same object advance alternately.  The outer
// enumeration must still yield every entry once, in order.
func trsInterleave[K cmp.Ordered](api *trsTreeAPI[K], stream, mem trsTreeReader[K], want []K, idx map[K]int, tc *trsTreeCase[K], fail func(key, format string, a ...any)) {
	n := len(want)
	if n == 0 {
		return
	}
	at := map[int]bool{0: true, n - 1: true, n / 2: true, n / 3: true}
	for _, p := range []int{1, 62, 63, 64, 65, 127, 128, 4095, 4096, 4097, n - 2, n - 64, n - 65} {
		if p >= 0 && p < n {
			at[p] = true
		}
	}
	var absent []K
	for _, p := range tc.probes {
		if _, ok := idx[p]; !ok && len(absent) < 4 {
			absent = append(absent, p)
		}
	}
	checkLookup := func(where string, k K) {
		v, err := stream.Lookup(k)
		if i, present := idx[k]; present {
			if err != nil || !trsSame(v, trsVal(i, tc.vstyle())) {
				fail("interleave-lookup", "Lookup(%s) %s = %v, %v; want %v", api.tok(k), where, v, err, trsVal(i, tc.vstyle()))
			}
		} else if !errors.Is(err, nametree.ErrKeyNotFound) {
			fail("interleave-lookup", "Lookup(%s) of an absent key %s = %v, %v", api.tok(k), where, v, err)
		}
	}
	i := 0
	bad := false
	for k, v := range stream.All() {
		if !bad && (i >= n || k != want[i] || !trsSame(v, trsVal(idx[k], tc.vstyle()))) {
			fail("interleave-all", "All() with interleaved calls: entry %d is %s = %v (want key %s)", i, api.tok(k), v, api.tok(want[min(i, n-1)]))
			bad = true
		}
		if at[i] && i < n {
			where := fmt.Sprintf("during All() at entry %d of %d", i, n)
			for _, j := range []int{i, 0, i / 2, i - 64, i - 1, i + 1, i + 64, i + 70, n - 1, (i + n) / 2} {
				if j >= 0 && j < n {
					checkLookup(where, want[j])
				}
			}
			for _, a := range absent {
				checkLookup(where, a)
			}
			// a nested enumeration on the same object, complete or abandoned half-way
			stop := -1
			if i%3 == 1 {
				stop = n / 2
			}
			j := 0
			for k2 := range stream.All() {
				if j >= n || k2 != want[j] {
					fail("interleave-nested", "nested All() %s: entry %d is %s", where, j, api.tok(k2))
					break
				}
				j++
				if j == stop {
					break
				}
			}
			if stop < 0 && j != n || stop >= 0 && j != max(stop, 1) && j != n {
				fail("interleave-nested", "nested All() %s gave %d entries, want %d", where, j, n)
			}
		}
		i++
	}
	if i != n && !bad {
		fail("interleave-all", "All() with interleaved calls gave %d entries, want %d", i, n)
	}

	// two (three) iterators over one object, advanced alternately; the in-memory reader alongside
	next1, stop1 := iter.Pull2(stream.All())
	next2, stop2 := iter.Pull2(stream.All())
	next3, stop3 := iter.Pull2(mem.All())
	defer stop1()
	defer stop2()
	defer stop3()
	i1, i2 := 0, 0
	step := func(name string, next func() (K, pdf.Object, bool), pos *int) {
		k, v, ok := next()
		if !ok {
			if *pos != n {
				fail("interleave-all", "iterator %s ended after %d of %d entries", name, *pos, n)
				*pos = n
			}
			return
		}
		if *pos >= n || k != want[*pos] || !trsSame(v, trsVal(idx[k], tc.vstyle())) {
			fail("interleave-all", "iterator %s: entry %d is %s = %v", name, *pos, api.tok(k), v)
		}
		*pos++
	}
	i3 := 0
	for round := 0; (i1 < n || i2 < n) && round < 3*n+10; round++ {
		switch round % 5 {
		case 0, 3:
			if i1 < n {
				step("A", next1, &i1)
			}
		case 1:
			if i2 < n {
				step("B", next2, &i2)
			}
			if i3 < n {
				step("InMemory", next3, &i3)
			}
		case 2:
			if i2 < n {
				step("B", next2, &i2)
				if i2 < n {
					step("B", next2, &i2)
				}
			}
		default:
			if i1 < n && round%7 == 4 {
				checkLookup("between two iterators", want[i1])
			}
			if i1 < n {
				step("A", next1, &i1)
			}
		}
	}
	if _, _, ok := next1(); ok || i1 != n {
		fail("interleave-all", "iterator A: %d entries, then more=%v; want %d", i1, ok, n)
	}
	if _, _, ok := next2(); ok || i2 != n {
		fail("interleave-all", "iterator B: %d entries, then more=%v; want %d", i2, ok, n)
	}
}

// ---- histories on one in-memory tree value ----

// trsRunHistory performs the operations on ONE InMemory value: `s<key>=<v>` Data[key]=v,
// `d<key>` delete, `c` clear, `a` All(), `l<key>` Lookup, `w` Embed into a fresh file and read
// back with both readers.  After every operation All() and a Lookup of the key just touched
// must show exactly the current content of the map; nothing may depend on what the value
// was asked before.
// trsHistVal: the object that value number v of a history stands for: every seventh number is a
// null value (nil, a nil Array, a nil Dict in turn); the key is present all the same.
func trsHistVal(v int) pdf.Object {
	if v%7 == 3 {
		switch v % 21 {
		case 3:
			return nil
		case 10:
			return pdf.Array(nil)
		default:
			return pdf.Dict(nil)
		}
	}
	return pdf.Integer(v)
}

// trsHistNum: the value number an object read back stands for, given the number the map holds
// for the key (exp < 0: the key is not in the map).
func trsHistNum(o pdf.Object, exp int) (int, bool) {
	if trsIsNull(o) {
		if exp >= 0 && trsIsNull(trsHistVal(exp)) {
			return exp, true
		}
		return 0, false
	}
	vi, ok := o.(pdf.Integer)
	return int(vi), ok
}

func trsRunHistory[K cmp.Ordered](api *trsTreeAPI[K], ops []string) (implLine string, fails []trsFail) {
	defer func() {
		if r := recover(); r != nil {
			fails = append(fails, trsFail{"panic", fmt.Sprintf("panic: %v", r)})
			implLine = "panic"
		}
	}()
	fail := func(key, format string, a ...any) {
		if len(fails) < 6 {
			fails = append(fails, trsFail{key, fmt.Sprintf(format, a...)})
		}
	}
	mh := api.newMem()
	cur := map[K]int{}
	nClear := 0
	sorted := func() []K {
		ks := make([]K, 0, len(cur))
		for k := range cur {
			ks = append(ks, k)
		}
		sort.Slice(ks, func(i, j int) bool { return ks[i] < ks[j] })
		return ks
	}
	// enumerate a reader and compare with the map's current content
	enum := func(where string, t trsTreeReader[K], key string) string {
		want := sorted()
		i := 0
		h := uint64(1)
		bad := false
		for k, v := range t.All() {
			exp := -1
			if e, present := cur[k]; present {
				exp = e
			}
			vi, ok := trsHistNum(v, exp)
			if !bad && (i >= len(want) || k != want[i] || !ok || vi != cur[k]) {
				fail(key, "%s: entry %d is %s = %v; the map holds %d entries", where, i, api.tok(k), v, len(want))
				bad = true
			}
			h = (h*31 + api.hash(k) + 7*uint64(vi)) % (1 << 32)
			i++
		}
		if i != len(want) && !bad {
			fail(key, "%s gave %d entries, the map holds %d", where, i, len(want))
		}
		return fmt.Sprintf("%d:%d", i, h)
	}
	lookup := func(where string, k K) string {
		v, err := mh.reader.Lookup(k)
		exp := -1
		if want, present := cur[k]; present {
			exp = want
			if vi, ok := trsHistNum(v, want); err != nil || !ok || vi != want {
				fail("history-lookup", "%s: Lookup(%s) = %v, %v; the map holds value number %d (%v)", where, api.tok(k), v, err, want, trsHistVal(want))
			}
		} else if !errors.Is(err, nametree.ErrKeyNotFound) {
			fail("history-lookup", "%s: Lookup(%s) of a key that is not in the map = %v, %v", where, api.tok(k), v, err)
		}
		switch {
		case err == nil:
			if vi, ok := trsHistNum(v, exp); ok {
				return "f" + strconv.Itoa(vi)
			}
			if trsIsNull(v) {
				return "fnull"
			}
			return "f?"
		case errors.Is(err, nametree.ErrKeyNotFound):
			return "n"
		case pdf.IsMalformed(err):
			return "d"
		}
		return "e"
	}
	var out []string
	quiet := false // `q` as first operation: look at the value only where the history says so
	for step, op := range ops {
		where := fmt.Sprintf("after step %d (%s)", step, op)
		switch op[0] {
		case 'q':
			quiet = true
			out = append(out, ".")
			continue
		case 'x': // exchange: delete one key and insert another in one step (the size stays)
			i := strings.Index(op, ",")
			j := strings.LastIndex(op, "=")
			kd, err := api.untok(op[1:i])
			ki, err1 := api.untok(op[i+1 : j])
			v, err2 := strconv.Atoi(op[j+1:])
			if err != nil || err1 != nil || err2 != nil {
				panic("harness: bad history op " + op)
			}
			delete(mh.data(), kd)
			delete(cur, kd)
			mh.data()[ki] = trsHistVal(v)
			cur[ki] = v
			out = append(out, ".")
			if !quiet {
				lookup(where, kd)
				lookup(where, ki)
			}
		case 's':
			i := strings.LastIndex(op, "=")
			k, err := api.untok(op[1:i])
			v, err2 := strconv.Atoi(op[i+1:])
			if err != nil || err2 != nil {
				panic("harness: bad history op " + op)
			}
			mh.data()[k] = trsHistVal(v)
			cur[k] = v
			out = append(out, ".")
			if !quiet {
				lookup(where, k)
			}
		case 'd':
			k, err := api.untok(op[1:])
			if err != nil {
				panic("harness: bad history op " + op)
			}
			delete(mh.data(), k)
			delete(cur, k)
			out = append(out, ".")
			if !quiet {
				lookup(where, k)
			}
		case 'c':
			if nClear%2 == 0 {
				for k := range mh.data() {
					delete(mh.data(), k)
				}
			} else {
				mh.reset(map[K]pdf.Object{})
			}
			nClear++
			cur = map[K]int{}
			out = append(out, ".")
		case 'a':
			out = append(out, enum(where+" All()", mh.reader, "history-all"))
			continue
		case 'l':
			k, err := api.untok(op[1:])
			if err != nil {
				panic("harness: bad history op " + op)
			}
			out = append(out, lookup(where, k))
			continue
		case 'w':
			buf := &bytes.Buffer{}
			w, err := pdf.NewWriter(buf, pdf.V1_7, nil)
			if err != nil {
				panic(err)
			}
			rm := pdf.NewResourceManager(w)
			n, werr := mh.embed(rm)
			if err := rm.Close(); err != nil && werr == nil {
				werr = err
			}
			pages := w.Alloc()
			w.Put(pages, pdf.Dict{"Type": pdf.Name("Pages"), "Kids": pdf.Array{}, "Count": pdf.Integer(0)})
			w.GetMeta().Catalog.Pages = pages
			if err := w.Close(); err != nil {
				panic(err)
			}
			if werr != nil {
				fail("history-write", "%s: Embed: %v", where, werr)
				out = append(out, "err")
				continue
			}
			data := buf.Bytes()
			rd, err := pdf.NewReader(bytes.NewReader(data), int64(len(data)), nil)
			if err != nil {
				fail("history-write", "%s: the file cannot be opened: %v", where, err)
				out = append(out, "err")
				continue
			}
			shape := "none"
			var rootObj pdf.Object
			if ref, ok := n.(pdf.Reference); ok && ref != 0 {
				rootObj = ref
				sw := &trsShapeWalker[K]{api: api, rd: rd}
				var sb strings.Builder
				sw.walk(ref, true, 0, &sb)
				shape = sb.String()
				for _, f := range sw.fails {
					fail("history-write", "%s: written tree: %s", where, f.desc)
				}
			} else if len(cur) != 0 {
				fail("history-write", "%s: Embed of a non-empty tree returned %v", where, n)
			}
			ff, _ := api.fromFile(rd, rootObj)
			fm, _ := api.inMemory(rd, rootObj)
			hs := enum(where+" written, FromFile.All()", ff, "history-write")
			enum(where+" written, ExtractInMemory.All()", fm, "history-write")
			rd.Close()
			out = append(out, shape+" "+hs)
			continue
		default:
			panic("harness: bad history op " + op)
		}
		// after every change: the enumeration shows the current content, nothing else
		if !quiet {
			enum(where+" All()", mh.reader, "history-all")
		}
	}
	return strings.Join(out, "|"), fails
}

func replayC17History(input string) (bool, string) {
	parts := strings.SplitN(input, " ", 2)
	if len(parts) != 2 {
		return true, "bad replay input"
	}
	ops := strings.Split(parts[1], ";")
	var line string
	var fails []trsFail
	if parts[0] == "name" {
		line, fails = trsRunHistory(&trsNameAPI, ops)
	} else {
		line, fails = trsRunHistory(&trsNumAPI, ops)
	}
	if len(fails) > 0 {
		return false, fmt.Sprintf("%s: %s", fails[0].key, fails[0].desc)
	}
	return true, "history ran: " + truncate(line)
}

// trsGenHistory: a random history over a small pool of keys (so that deletions, replacements
// and re-insertions hit), with same-size exchanges (delete one, insert another) and clears.
func trsGenHistory[K cmp.Ordered](r *Rand, api *trsTreeAPI[K], pool []K, steps int) []string {
	var ops []string
	present := map[K]bool{}
	val := 0
	pickPresent := func() (K, bool) {
		var ks []K
		for k := range present {
			ks = append(ks, k)
		}
		if len(ks) == 0 {
			var z K
			return z, false
		}
		sort.Slice(ks, func(i, j int) bool { return ks[i] < ks[j] })
		return ks[r.Intn(len(ks))], true
	}
	set := func(k K) {
		val++
		ops = append(ops, fmt.Sprintf("s%s=%d", api.tok(k), val))
		present[k] = true
	}
	if r.Bool() {
		ops = append(ops, "q") // no checks between the steps except those of the history itself
	}
	// start with some content, most of the time
	for i := r.Intn(len(pool) + 1); i > 0 && r.P(5, 6); i-- {
		set(Pick(r, pool))
	}
	for len(ops) < steps {
		switch k := r.Intn(20); {
		case k < 4:
			ops = append(ops, "a")
		case k < 6:
			ops = append(ops, "l"+api.tok(Pick(r, pool)))
		case k < 9:
			set(Pick(r, pool)) // insert or replace
		case k < 11:
			if p, ok := pickPresent(); ok { // replace the value of a present key
				set(p)
			}
		case k < 13:
			if p, ok := pickPresent(); ok {
				ops = append(ops, "d"+api.tok(p))
				delete(present, p)
			}
		case k < 17:
			// exchange: delete one key, insert another: the size stays the same
			if p, ok := pickPresent(); ok {
				q := Pick(r, pool)
				if !present[q] {
					if r.Bool() {
						val++
						ops = append(ops, fmt.Sprintf("x%s,%s=%d", api.tok(p), api.tok(q), val))
						delete(present, p)
						present[q] = true
					} else {
						ops = append(ops, "d"+api.tok(p))
						delete(present, p)
						set(q)
					}
					if r.Bool() {
						ops = append(ops, "a")
					}
				}
			}
		case k < 18:
			ops = append(ops, "c")
			present = map[K]bool{}
		default:
			ops = append(ops, "w")
		}
	}
	ops = append(ops, "a", "w")
	return ops
}

func runC17History(c *Ctx) {
	r := c.R
	n := 300
	if c.Thorough {
		n = 3000
	}
	for i := 0; i < n; i++ {
		poolSize := 2 + r.Intn(12)
		if r.P(1, 6) {
			poolSize = 60 + r.Intn(140) // across the leaf size
		}
		steps := 8 + r.Intn(30)
		if poolSize > 50 {
			steps = 80 + r.Intn(200)
		}
		var ops []string
		var line, kind string
		var fails []trsFail
		if r.Bool() {
			kind = "name"
			pool := trsGenNames(r.Fork(), poolSize)
			ops = trsGenHistory(r.Fork(), &trsNameAPI, pool, steps)
			line, fails = trsRunHistory(&trsNameAPI, ops)
		} else {
			kind = "num"
			pool := trsGenNums(r.Fork(), poolSize)
			ops = trsGenHistory(r.Fork(), &trsNumAPI, pool, steps)
			line, fails = trsRunHistory(&trsNumAPI, ops)
		}
		enc := kind + " " + strings.Join(ops, ";")
		c.Case("h:"+enc, len(ops) >= 4)
		c.Stat("history_" + kind)
		c.StatN("history_steps", len(ops))
		for _, f := range fails {
			c.Violate("history", f.key, f.desc, enc)
		}
		c.Emit("TRS nth "+kind+" "+strings.Join(ops, ";"), line)
		if i < 2 {
			c.Sample("TRS nth " + kind + " " + strings.Join(ops, ";") + " => " + line)
		}
	}
}

// ---- generators ----

func trsGenNames(r *Rand, n int) []pdf.Name {
	set := make(map[string]struct{}, n)
	mode := r.Intn(7)
	prefix := string(genBytes(r, 6))
	small := []byte{0x00, 0xff, 0x7f, 0x80, 'a', 'b'}
	tries := 0
	for len(set) < n {
		tries++
		var b []byte
		m := mode
		if tries > 50*n+1000 {
			m = 0 // the chosen mode cannot produce that many distinct keys
		}
		switch m {
		case 0: // arbitrary bytes
			b = r.Bytes(r.Intn(5))
			if n > 3000 {
				b = r.Bytes(1 + r.Intn(4))
			}
		case 1: // common prefix
			b = append([]byte(prefix), r.Bytes(r.Intn(4))...)
		case 2: // decimal names
			b = []byte(fmt.Sprintf("key%05d", r.Intn(20*n+10)))
		case 3: // tiny alphabet: many keys are prefixes of others
			l := r.Intn(8)
			if n > 1000 {
				l = r.Intn(12)
			}
			for i := 0; i < l; i++ {
				b = append(b, Pick(r, small))
			}
		case 4: // long keys with a long shared prefix
			b = append(bytes.Repeat([]byte{'P'}, 20+r.Intn(3)), r.Bytes(1+r.Intn(3))...)
		case 5: // keys a text-string decoder would change: byte-order marks, UTF-16 text next to
			// the text it spells, NUL, PDFDocEncoding specials, string delimiters
			word := Pick(r, []string{"A", "B", "AB", "a", "key", "", "Z9", "(", "\\"}) + strconv.Itoa(r.Intn(n+3))
			switch r.Intn(8) {
			case 0:
				b = []byte(word)
			case 1:
				b = []byte("\xfe\xff" + trsUTF16(word, true))
			case 2:
				b = []byte("\xff\xfe" + trsUTF16(word, false))
			case 3:
				b = []byte("\xef\xbb\xbf" + word)
			case 4:
				b = append([]byte(Pick(r, trsCodecKeys)), r.Bytes(r.Intn(3))...)
			case 5:
				b = []byte(trsUTF16(word, true)) // NUL bytes, no BOM
			case 6:
				b = append([]byte(word), Pick(r, trsCodecBytes))
			default:
				b = append([]byte{Pick(r, trsCodecBytes)}, []byte(word)...)
			}
		default: // mixture
			if r.Bool() {
				b = r.Bytes(r.Intn(3))
			} else {
				b = []byte(strconv.Itoa(r.Intn(10 * (n + 1))))
			}
		}
		set[string(b)] = struct{}{}
	}
	if n > 0 && r.P(1, 3) { // make sure the empty key occurs often
		if _, ok := set[""]; !ok {
			for k := range set {
				delete(set, k)
				break
			}
			set[""] = struct{}{}
		}
	}
	ks := make([]string, 0, n)
	for k := range set {
		ks = append(ks, k)
	}
	sort.Strings(ks)
	out := make([]pdf.Name, len(ks))
	for i, k := range ks {
		out[i] = pdf.Name(k)
	}
	return out
}

func trsGenNums(r *Rand, n int) []pdf.Integer {
	set := make(map[int64]struct{}, n)
	mode := r.Intn(5)
	base := int64(r.U64()) >> uint(1+r.Intn(62))
	ext := []int64{math.MinInt64, math.MinInt64 + 1, math.MaxInt64, math.MaxInt64 - 1, -1, 0, 1, math.MaxInt32, math.MinInt32, 1 << 32, -(1 << 32)}
	for len(set) < n {
		var k int64
		switch mode {
		case 0: // dense around zero
			k = int64(r.Intn(3*n+3)) - int64(n)
		case 1: // whole int64 range
			k = int64(r.U64())
		case 2: // consecutive block somewhere
			k = base + int64(r.Intn(n+n/2+1))
		case 3: // near the extremes
			if r.Bool() {
				k = math.MinInt64 + int64(r.Intn(2*n+2))
			} else {
				k = math.MaxInt64 - int64(r.Intn(2*n+2))
			}
		default:
			if r.P(1, 4) {
				k = Pick(r, ext)
			} else {
				k = int64(r.U64()) >> uint(r.Intn(64))
			}
		}
		set[k] = struct{}{}
	}
	ks := make([]int64, 0, n)
	for k := range set {
		ks = append(ks, k)
	}
	sort.Slice(ks, func(i, j int) bool { return ks[i] < ks[j] })
	out := make([]pdf.Integer, len(ks))
	for i, k := range ks {
		out[i] = pdf.Integer(k)
	}
	return out
}

// trsProbeIdx picks positions worth probing: ends, leaf and node boundaries, random.
func trsProbeIdx(r *Rand, n, nRandom int) []int {
	if n == 0 {
		return nil
	}
	seen := map[int]bool{}
	var out []int
	add := func(i int) {
		if i >= 0 && i < n && !seen[i] {
			seen[i] = true
			out = append(out, i)
		}
	}
	add(0)
	add(n - 1)
	for _, b := range []int{63, 64, 65, 127, 128, 4095, 4096, 4097, n - 2, n - 64, n - 65} {
		add(b)
	}
	if n%64 != 0 {
		add(n - n%64)     // first entry of the last, partial leaf
		add(n - n%64 - 1) // last entry of the last full leaf
	}
	for i := 0; i < nRandom; i++ {
		add(r.Intn(n))
	}
	return out
}

func trsNameProbes(r *Rand, keys []pdf.Name, nRandom int) []pdf.Name {
	var out []pdf.Name
	for _, i := range trsProbeIdx(r, len(keys), nRandom) {
		k := keys[i]
		out = append(out, k)
		if r.P(1, 2) {
			out = append(out, k+"\x00") // immediate successor: between k and the next key
		}
		if len(k) > 0 && r.P(1, 2) {
			out = append(out, k[:len(k)-1]) // a prefix (smaller)
		}
		if len(k) > 0 && r.P(1, 3) {
			b := []byte(k)
			b[len(b)-1]++
			out = append(out, pdf.Name(b))
		}
		if r.P(1, 3) {
			out = append(out, trsCodecVariants(k)...)
		}
	}
	if len(keys) > 0 {
		hi := keys[len(keys)-1]
		out = append(out, hi+"\xff", hi+"\x00", pdf.Name("\xff\xff\xff\xff\xff\xff"))
		lo := keys[0]
		if len(lo) > 0 {
			out = append(out, "", lo[:len(lo)-1])
		}
	} else {
		out = append(out, "", "a")
	}
	for i := 0; i < 6; i++ {
		out = append(out, pdf.Name(genBytes(r, 5)))
	}
	return out
}

func trsNumProbes(r *Rand, keys []pdf.Integer, nRandom int) []pdf.Integer {
	var out []pdf.Integer
	for _, i := range trsProbeIdx(r, len(keys), nRandom) {
		k := keys[i]
		out = append(out, k)
		if k < math.MaxInt64 && r.P(1, 2) {
			out = append(out, k+1)
		}
		if k > math.MinInt64 && r.P(1, 2) {
			out = append(out, k-1)
		}
	}
	out = append(out, math.MinInt64, math.MaxInt64, 0, -1)
	for i := 0; i < 6; i++ {
		out = append(out, pdf.Integer(int64(r.U64())>>uint(r.Intn(64))))
	}
	return out
}

func trsUnsort[K cmp.Ordered](r *Rand, keys []K) []K {
	out := append([]K(nil), keys...)
	n := len(out)
	if n < 2 {
		if n == 1 {
			out = append(out, out[0]) // duplicate
		}
		return out
	}
	i := r.Intn(n - 1)
	switch r.Intn(4) {
	case 0: // swap neighbours
		out[i], out[i+1] = out[i+1], out[i]
	case 1: // duplicate
		out[i+1] = out[i]
	case 2: // smallest key last
		out = append(out[1:], out[0])
	default: // swap two far apart
		j := r.Intn(n)
		if j == i {
			j = i + 1
		}
		out[i], out[j] = out[j], out[i]
	}
	return out
}

func runC17(c *Ctx) {
	r := c.R
	F := trsFanout() // pdftree.maxChildren as regenerated from the source
	sizes := []int{0, 1, 2, 3, 5, F - 1, F, F + 1, 100, 2*F - 1, 2 * F, 2*F + 1, 3 * F, 500, 1000, F*F - 1, F * F, F*F + 1}
	nRandom := 120
	maxRandom := 600
	nProbe := 12
	if c.Thorough {
		sizes = append(sizes, F*F+F, 2*F*F-1, 2*F*F, 2*F*F+1, 10000, F*(F+1), F*F+F-1)
		nRandom = 700
		maxRandom = 1500
		nProbe = 30
	}

	record := func(n int, tag string, useMap bool, stream int, enc, opLine, line string, fails []trsFail) {
		if line == "skip" {
			return
		}
		c.Case(enc, n >= 2)
		c.Stat("kind_" + tag)
		switch {
		case n == 0:
			c.Stat("size_0")
		case n < 64:
			c.Stat("size_1..63")
		case n <= 4096:
			c.Stat("size_64..4096")
		default:
			c.Stat("size_>4096")
		}
		if useMap {
			c.Stat("WriteMap")
		}
		switch stream {
		case 1:
			c.Stat("written_while_stream_open")
		case 2:
			c.Stat("written_while_stream_open_with_other_queued_objects")
		}
		for _, f := range fails {
			c.Violate("tree", f.key, f.desc, enc)
		}
		c.Emit(opLine, line)
		if n > 0 && n < 6 {
			c.Sample(opLine + " => " + line)
		}
	}

	// kind: 0 name tree, 1 number tree, <0 random; stream: see trsTreeCase, <0 mostly plain;
	// allKeys: probe every present key
	var via int       // writer used by the next oneK call (see trsTreeCase.via)
	structProbes := 0 // >0: fan-out F; probe trsStructIdx instead of all keys, emit the `ntb` line (no in-memory model)
	oneK := func(n int, tag string, kind, stream int, allKeys bool) {
		if kind < 0 {
			kind = r.Intn(2)
		}
		if stream < 0 {
			stream = 0
			if r.P(1, 5) {
				stream = 1 + r.Intn(2)
			}
		}
		style := r.Intn(2)
		useMap := r.P(1, 4)
		unsort := tag == "unsorted"
		if unsort {
			via = 0
		}
		switch via {
		case 2:
			c.Stat("writer_InMemory.Embed")
		case 3:
			c.Stat("writer_FromFile.Embed")
		}
		var line, opLine, enc string
		var fails []trsFail
		if kind == 0 {
			keys := trsGenNames(r.Fork(), n)
			probes := trsNameProbes(r.Fork(), keys, nProbe)
			if structProbes > 0 {
				var sel []pdf.Name
				for _, i := range trsStructIdx(r.Fork(), len(keys), structProbes) {
					sel = append(sel, keys[i])
				}
				probes = append(sel, probes...)
			} else if allKeys {
				probes = append(append([]pdf.Name(nil), keys...), probes...)
			}
			if unsort {
				keys = trsUnsort(r, keys)
				useMap = false
			}
			tc := &trsTreeCase[pdf.Name]{keys, probes, style, useMap, stream, via}
			enc = trsEncodeCase(&trsNameAPI, tc)
			line, fails = trsRunCase(&trsNameAPI, tc)
			opLine = "TRS nt name " + trsToks(&trsNameAPI, keys) + " " + trsToks(&trsNameAPI, probes)
			if structProbes > 0 {
				opLine = "TRS ntb name " + trsToks(&trsNameAPI, keys) + " " + trsToks(&trsNameAPI, probes)
				line = trsBigLine(line)
			}
			c.Stat("nametree")
		} else {
			keys := trsGenNums(r.Fork(), n)
			probes := trsNumProbes(r.Fork(), keys, nProbe)
			if structProbes > 0 {
				var sel []pdf.Integer
				for _, i := range trsStructIdx(r.Fork(), len(keys), structProbes) {
					sel = append(sel, keys[i])
				}
				probes = append(sel, probes...)
			} else if allKeys {
				probes = append(append([]pdf.Integer(nil), keys...), probes...)
			}
			if unsort {
				keys = trsUnsort(r, keys)
			}
			tc := &trsTreeCase[pdf.Integer]{keys, probes, style, false, stream, via}
			enc = trsEncodeCase(&trsNumAPI, tc)
			line, fails = trsRunCase(&trsNumAPI, tc)
			opLine = "TRS nt num " + trsToks(&trsNumAPI, keys) + " " + trsToks(&trsNumAPI, probes)
			if structProbes > 0 {
				opLine = "TRS ntb num " + trsToks(&trsNumAPI, keys) + " " + trsToks(&trsNumAPI, probes)
				line = trsBigLine(line)
			}
			c.Stat("numtree")
		}
		record(n, tag, useMap, stream, enc, opLine, line, fails)
	}

	one := func(n int, tag string) {
		via = 0
		if r.P(1, 4) {
			via = 2 + r.Intn(2)
		}
		oneK(n, tag, -1, -1, false)
		via = 0
	}

	// sizes around every power of the fan-out (read from the regenerated facts, so that they
	// follow the source): the first sizes with one, two and three node levels below the root,
	// with last leaves of 1, 2, 3 and F-1 entries and last intermediate nodes of several kids.
	// All four writers in turn (Write, WriteMap, InMemory.Embed, FromFile.Embed); every key is
	// looked up, /Limits of every node at every level is compared with its subtree.
	c.Sample(fmt.Sprintf("fan-out from the extracted facts: %d", F))
	bsizes := []int{F*F + 1, F*F + 2, F*F + F + 2,
		F*F + 3*F + 1, F*F + 3*F + F - 1, F*F + (F-1)*F, F*F + (F-1)*F + 2, 2*F*F - 1, 2*F*F + 2}
	if c.Thorough {
		bsizes = append(bsizes, F-1, F, F+1, F*F-1, F*F, F*F+F-1, F*F+F, F*F+F+1, F*F+2*F-1, 2*F*F-2, 2*F*F, 2*F*F+1, 3*F*F+1, 3*F*F+F+2)
		for _, k := range []int{5, 17, F / 2, F - 2, F + 1} {
			for _, d := range []int{0, 1, 2, F - 1} {
				bsizes = append(bsizes, F*F+k*F+d)
			}
		}
	}
	nBig := 2
	if c.Thorough {
		nBig = 12
	}
	for i := 0; i < nBig; i++ {
		bsizes = append(bsizes, F*F+1+r.Intn(20000-F*F))
	}
	for i, n := range bsizes {
		if n < 0 || n > 40000 {
			continue
		}
		for kind := 0; kind < 2; kind++ {
			via = []int{0, 2, 3}[(i+kind)%3]
			if n > F*F/2 {
				structProbes = F
			}
			oneK(n, "fanout-boundary", kind, 0, true)
			structProbes = 0
		}
	}
	via = 0

	// fixed corpus: keys that a decoder treating keys as text strings would change or identify
	// with each other (byte-order marks, UTF-16 text next to the text it spells, NUL,
	// PDFDocEncoding specials, delimiters); every key is looked up, the variants are probed
	cSets, cProbes := trsCodecCorpus()
	for i, keys := range cSets {
		for stream := 0; stream < 2; stream++ {
			tc := &trsTreeCase[pdf.Name]{keys, cProbes[i], i % 2, stream == 0 && i%2 == 1, stream, 0}
			enc := trsEncodeCase(&trsNameAPI, tc)
			line, fails := trsRunCase(&trsNameAPI, tc)
			opLine := "TRS nt name " + trsToks(&trsNameAPI, keys) + " " + trsToks(&trsNameAPI, cProbes[i])
			c.Stat("nametree")
			record(len(keys), "codec-corpus", tc.useMap, stream, enc, opLine, line, fails)
		}
	}

	// special key VALUES at special POSITIONS: the zero value of the key type, ±1, the int64
	// extremes, 2^31, 2^32, 2^53 (names: "", NUL, FF, a byte-order mark, 127/128 bytes) as the only
	// key of the last leaf, as the least key, as first and as last key of a leaf, and at the leaf
	// boundary between two intermediate nodes.  All writer paths in turn; every key is looked up
	// with both readers; neighbours of the special value are probed as absent keys.
	{
		caseNo := 0
		writers := []struct {
			via    int
			useMap bool
		}{{0, false}, {2, false}, {3, false}, {0, true}}
		runNum := func(keys []pdf.Integer, v pdf.Integer, big bool) {
			var probes []pdf.Integer
			if !big {
				probes = append(probes, keys...)
			} else {
				for _, i := range trsStructIdx(r.Fork(), len(keys), F) {
					probes = append(probes, keys[i])
				}
				probes = append(probes, v)
			}
			for _, d := range []int64{-2, -1, 1, 2} {
				q := int64(v) + d
				if (d > 0) == (q > int64(v)) { // no overflow
					probes = append(probes, pdf.Integer(q))
				}
			}
			probes = append(probes, 0, -1, 1, math.MinInt64, math.MaxInt64, 1<<53, -(1 << 53), 1<<53+1)
			wr := writers[caseNo%3]
			caseNo++
			tc := &trsTreeCase[pdf.Integer]{keys, probes, caseNo % 2, false, 0, wr.via}
			enc := trsEncodeCase(&trsNumAPI, tc)
			line, fails := trsRunCase(&trsNumAPI, tc)
			op := "nt"
			if big {
				op = "ntb"
				line = trsBigLine(line)
			}
			opLine := "TRS " + op + " num " + trsToks(&trsNumAPI, keys) + " " + trsToks(&trsNumAPI, probes)
			c.Stat("numtree")
			c.Stat(fmt.Sprintf("special_writer_via%d", wr.via))
			record(len(keys), "special-position", false, 0, enc, opLine, line, fails)
		}
		// keys lo..hi around v (consecutive integers or with gaps), if they fit into int64
		around := func(v int64, below, above int, gap int64) ([]pdf.Integer, bool) {
			var keys []pdf.Integer
			for i := below; i >= 1; i-- {
				d := int64(i) * gap
				if v < math.MinInt64+d {
					return nil, false
				}
				keys = append(keys, pdf.Integer(v-d))
			}
			keys = append(keys, pdf.Integer(v))
			for i := 1; i <= above; i++ {
				d := int64(i) * gap
				if v > math.MaxInt64-d {
					return nil, false
				}
				keys = append(keys, pdf.Integer(v+d))
			}
			return keys, true
		}
		specialInts := []int64{0, -1, 1, math.MinInt64, math.MinInt64 + 1, math.MaxInt64, math.MaxInt64 - 1,
			1 << 53, -(1 << 53), 1<<53 + 1, -(1<<53 + 1), 1 << 31, -(1 << 31), 1 << 32, -(1 << 32)}
		for vi, v := range specialInts {
			gap := int64(1)
			if vi%3 == 1 {
				gap = 1000003
			}
			shapes := []struct{ below, above int }{
				{0, 0},         // the only key
				{F, 0},         // only key of the last leaf, the greatest key
				{2 * F, 0},     // the same with an intermediate node of three leaves
				{0, F},         // least key; the last leaf holds one other key
				{0, 2*F - 1},   // first key of the first leaf
				{F, F - 1},     // first key of the second leaf
				{F - 1, F + 1}, // last key of the first leaf
				{2*F - 1, 1},   // last key of the second leaf, one leaf after it
				{F - 1, 0},     // last key of a root that holds the entries itself
				{F - 2, 0},     // the same, one entry fewer
			}
			for _, sh := range shapes {
				if keys, ok := around(v, sh.below, sh.above, gap); ok {
					runNum(keys, pdf.Integer(v), false)
				}
			}
		}
		// the boundary between two intermediate nodes (first/last key below a node of depth 1)
		for _, v := range []int64{0, math.MaxInt64, math.MinInt64, 1 << 53} {
			for _, sh := range []struct{ below, above int }{{F * F, F}, {F*F - 1, F + 1}, {F*F + F, 0}, {0, F*F + 1}} {
				if !c.Thorough && (v != 0 || sh.below == F*F-1) && !(v == math.MaxInt64 && sh.above == 0) && !(v == math.MinInt64 && sh.below == 0) {
					continue
				}
				if keys, ok := around(v, sh.below, sh.above, 1); ok {
					runNum(keys, pdf.Integer(v), true)
				}
			}
		}

		// names: lower keys start with 'a' (below every special value used here that has one),
		// upper keys are extensions of the special value
		lower := func(n int) []string {
			out := make([]string, n)
			for i := range out {
				out[i] = fmt.Sprintf("a%05d", i)
			}
			return out
		}
		upper := func(v string, n int) []string {
			out := make([]string, 0, n)
			for i := 0; len(out) < n; i++ {
				out = append(out, v+string([]byte{byte(i % 256)})+strings.Repeat("\x00", i/256))
			}
			sort.Strings(out)
			return out
		}
		specialNames := []string{"", "\x00", "\xff", "\xfe\xff", "\xfe\xff\x00A", "\xff\xfe", "\xef\xbb\xbf",
			strings.Repeat("k", 127), strings.Repeat("k", 128), strings.Repeat("\xff", 128)}
		for _, v := range specialNames {
			canBelow := len(v) > 0 && v[0] > 'a'
			shapes := []struct{ below, above int }{{0, 0}, {F, 0}, {2 * F, 0}, {0, F}, {0, 2*F - 1}, {F, F - 1}, {F - 1, F + 1}, {2*F - 1, 1}, {F - 1, 0}}
			for _, sh := range shapes {
				var ks []string
				switch {
				case sh.below == 0:
				case canBelow:
					ks = append(ks, lower(sh.below)...)
				case v == "\x00" && sh.below == F:
					// only "" is below NUL: make NUL the second key instead
					ks = append(ks, "")
				default:
					continue
				}
				ks = append(ks, v)
				ks = append(ks, upper(v, sh.above)...)
				keys := trsSortedNames(ks)
				probes := append([]pdf.Name(nil), keys...)
				probes = append(probes, trsCodecVariants(pdf.Name(v))...)
				probes = append(probes, pdf.Name(v+"\x00\x00\x00"), pdf.Name(v+"\xff\xff"), "", "\x00", "a", "\xff")
				if len(v) > 0 {
					probes = append(probes, pdf.Name(v[:len(v)-1]))
				}
				wr := writers[caseNo%4]
				caseNo++
				tc := &trsTreeCase[pdf.Name]{keys, probes, caseNo % 2, wr.useMap, 0, wr.via}
				enc := trsEncodeCase(&trsNameAPI, tc)
				line, fails := trsRunCase(&trsNameAPI, tc)
				opLine := "TRS nt name " + trsToks(&trsNameAPI, keys) + " " + trsToks(&trsNameAPI, probes)
				c.Stat("nametree")
				record(len(keys), "special-position", wr.useMap, 0, enc, opLine, line, fails)
			}
		}
	}

	// the tree written plainly and while a stream is open on the pdf.Writer: every Put of a
	// node is then only queued and serialised when the stream closes, so anything the tree
	// writer reuses between nodes would show up in all queued nodes.  Every present key is
	// looked up with both readers.
	streamSizes := []int{1, 2, F - 1, F, F + 1, 2*F + 1, 200, 700}
	if c.Thorough {
		streamSizes = append(streamSizes, F*F+1)
	}
	for _, n := range streamSizes {
		for kind := 0; kind < 2; kind++ {
			for stream := 0; stream < 3; stream++ {
				oneK(n, "stream", kind, stream, true)
			}
		}
	}
	if !c.Thorough {
		// two intermediate nodes are queued only from 4097 entries on (mergeTail's node of 64
		// leaves, then collapse's nodes)
		structProbes = F
		oneK(F*F+1, "stream", 0, 1, true)
		oneK(F*F+1, "stream", 1, 2, true)
		structProbes = 0
	}

	for _, n := range sizes {
		one(n, "boundary")
		if n <= 200 || c.Thorough {
			one(n, "boundary")
		}
	}
	for i := 0; i < nRandom; i++ {
		n := r.Intn(maxRandom + 1)
		if r.P(1, 3) {
			n = r.Intn(70)
		}
		if c.Thorough && r.P(1, 10) {
			n = r.Intn(3000)
		}
		one(n, "random")
	}
	for i := 0; i < nRandom/4; i++ {
		n := 1 + r.Intn(200)
		one(n, "unsorted")
	}
}

package main

// Work package FA: the byte-oriented stream codecs ASCIIHex, ASCII85,
// RunLength and LZW behind the public pdf.Filter API (properties C06, C07,
// C08, part A).  Shared helpers: codec table, chunked encode/decode through
// the real filters, input generators, an LZW code-stream packer for
// hand-built streams, reference codecs written from the specification, and a
// pipe to the compiled Lean driver for the Spec codecs.

import (
	"bytes"
	"encoding/hex"
	"fmt"
	"io"
	"os"
	"os/exec"
	"path/filepath"
	"strings"
	"sync/atomic"
	"time"

	"seehuhn.de/go/membudget"
	"seehuhn.de/go/pdf"
)

type faCodec struct {
	name   string // driver codec key
	filter pdf.Filter
}

var faCodecs = []faCodec{
	{"ahex", pdf.FilterASCIIHex{}},
	{"a85", pdf.FilterASCII85{}},
	{"rl", pdf.FilterRunLength{}},
	{"lzw0", pdf.FilterLZW{}},
	{"lzw1", pdf.FilterLZW{OffByOne: true}},
}

func faCodecByName(name string) (faCodec, bool) {
	for _, c := range faCodecs {
		if c.name == name {
			return c, true
		}
	}
	return faCodec{}, false
}

type faSink struct {
	bytes.Buffer
	closed int
	writes int
}

func (s *faSink) Write(p []byte) (int, error) { s.writes++; return s.Buffer.Write(p) }
func (s *faSink) Close() error                { s.closed++; return nil }

// faEncode writes data through f.Encode in pieces of the given sizes
// (cycled; nil = one Write) and closes the writer.
func faEncode(f pdf.Filter, data []byte, chunks []int) (out []byte, err error) {
	defer func() {
		if p := recover(); p != nil {
			err = fmt.Errorf("PANIC in Encode: %v", p)
		}
	}()
	sink := &faSink{}
	w, err := f.Encode(pdf.V1_7, sink)
	if err != nil {
		return nil, err
	}
	rest := data
	i := 0
	for len(rest) > 0 {
		n := len(rest)
		if len(chunks) > 0 {
			n = chunks[i%len(chunks)]
			i++
			if n > len(rest) {
				n = len(rest)
			}
		}
		k, err := w.Write(rest[:n])
		if err != nil {
			return nil, err
		}
		if k != n {
			return nil, fmt.Errorf("short write %d of %d without error", k, n)
		}
		rest = rest[n:]
	}
	if len(chunks) > 0 && chunks[0] == 0 {
		// also exercise an empty Write
		if _, err := w.Write(nil); err != nil {
			return nil, err
		}
	}
	if err := w.Close(); err != nil {
		return nil, err
	}
	if sink.closed != 1 {
		return nil, fmt.Errorf("underlying writer closed %d times", sink.closed)
	}
	return sink.Bytes(), nil
}

type faDecoded struct {
	data     []byte
	class    string // eof | malformed | other | … (errClass of the final error)
	err      error
	panicked bool
}

// faDecode reads enc through f.Decode.  chunks gives the sizes of the
// successive Read buffers (cycled); nil means "reference read": every Read
// gets a buffer larger than anything the decoder can still produce, so that
// the caller's buffer is never the limiting factor.  limit caps the output
// (a decoder producing more is cut off and reported by the caller).
func faDecode(f pdf.Filter, enc []byte, chunks []int, limit int) faDecoded {
	// watchdog: a decoder that does not come back is reported as class
	// "hang" (the goroutine cannot be stopped and keeps one core busy; after
	// three hangs the patience drops so that the run still ends)
	timeout := 20 * time.Second
	if atomic.LoadInt32(&faHangs) >= 3 {
		timeout = time.Second
	}
	done := make(chan faDecoded, 1)
	go func() { done <- faDecodeInner(f, enc, chunks, limit) }()
	select {
	case r := <-done:
		return r
	case <-time.After(timeout):
		atomic.AddInt32(&faHangs, 1)
		return faDecoded{class: "hang", err: fmt.Errorf("decoder did not return within %v", timeout)}
	}
}

var faHangs int32

func faDecodeInner(f pdf.Filter, enc []byte, chunks []int, limit int) (res faDecoded) {
	defer func() {
		if p := recover(); p != nil {
			res.panicked = true
			res.class = "panic"
			res.err = fmt.Errorf("PANIC in Decode/Read: %v", p)
		}
	}()
	r, err := f.Decode(pdf.V1_7, bytes.NewReader(enc), membudget.New(1<<30))
	if err != nil {
		res.class = errClass(err)
		res.err = err
		return res
	}
	defer r.Close()
	var big []byte
	if chunks == nil {
		big = make([]byte, limit+64)
	}
	i := 0
	zeroReads := 0
	for {
		var p []byte
		if chunks == nil {
			p = big
		} else {
			p = make([]byte, chunks[i%len(chunks)])
			i++
		}
		n, err := r.Read(p)
		res.data = append(res.data, p[:n]...)
		if err != nil {
			res.class = errClass(err)
			res.err = err
			return res
		}
		if len(res.data) > limit {
			res.class = "overlong"
			return res
		}
		if n == 0 {
			zeroReads++
			if zeroReads > 1000 {
				res.class = "stuck"
				res.err = fmt.Errorf("1000 consecutive Read calls returned (0, nil)")
				return res
			}
		} else {
			zeroReads = 0
		}
	}
}

// faRebuilt returns the filter rebuilt from f.Info's name and dictionary.
func faRebuilt(f pdf.Filter) (pdf.Filter, error) {
	name, dict, err := f.Info(pdf.V1_7)
	if err != nil {
		return nil, err
	}
	return pdf.MakeFilter(name, dict)
}

// faOutBound is the output-size bound of C08 for an input of n bytes.
func faOutBound(codec string, n int) int {
	switch codec {
	case "ahex":
		return n/2 + 1
	case "a85":
		return 4 * n
	case "rl":
		return 128 * n
	default: // lzw: at most 8n/9 codes, each expanding to fewer than 4096 bytes
		return 4096 * (8*n/9 + 1)
	}
}

func faShowRes(d faDecoded) string {
	if d.class == "eof" {
		return "ok " + hexWire(d.data)
	}
	return "err " + d.class + " " + hexWire(d.data)
}

// faDigest is the digest the driver prints for "decsum" (length and a
// 32-bit polynomial hash), used instead of the full hex for long outputs.
func faDigest(d []byte) string {
	h := uint64(7)
	for _, b := range d {
		h = (h*31 + uint64(b)) % 4294967296
	}
	return fmt.Sprintf("len=%d h=%d", len(d), h)
}

func faShowResSum(d faDecoded) string {
	if d.class == "eof" {
		return "ok " + faDigest(d.data)
	}
	return "err " + d.class + " " + faDigest(d.data)
}

// faEmitDec emits the decoder correspondence line for body, in full or as a
// digest when the output is long.
func faEmitDec(c *Ctx, codec string, body []byte, ref faDecoded) {
	if len(ref.data) > 20000 {
		c.Emit("FA decsum "+codec+" "+hexWire(body), faShowResSum(ref))
		c.Stat("dec_lines_digest")
		return
	}
	c.Emit("FA dec "+codec+" "+hexWire(body), faShowRes(ref))
}

// ---- generators ----

var faBoundaryLens = []int{0, 1, 2, 3, 4, 5, 6, 7, 8, 9, 38, 39, 40, 41, 77, 78, 79, 80, 81, 124, 125, 126, 127, 128, 129, 130, 131, 132, 255, 256, 257, 258, 259, 260, 383, 384, 385, 511, 512, 513}

// faGenData produces one input: random, runs, all-equal, text-like,
// few-symbol, zeros (ASCII85 'z'), ramps.
func faGenData(r *Rand, n int) ([]byte, string) {
	b := make([]byte, n)
	kind := r.Intn(9)
	name := ""
	switch kind {
	case 0:
		name = "random"
		for i := range b {
			b[i] = byte(r.U64())
		}
	case 1:
		name = "runs"
		for i := 0; i < n; {
			l := 1 + r.Intn(6)
			if r.P(1, 4) {
				l = 120 + r.Intn(20)
			}
			if r.P(1, 3) {
				l = 1 + r.Intn(3)
			}
			v := byte(r.U64())
			if r.P(1, 3) {
				v = byte(r.Intn(3))
			}
			for j := 0; j < l && i < n; j++ {
				b[i] = v
				i++
			}
		}
	case 2:
		name = "equal"
		v := byte(r.U64())
		if r.P(1, 3) {
			v = 0
		}
		for i := range b {
			b[i] = v
		}
	case 3:
		name = "text"
		words := []string{"the ", "quick ", "brown ", "fox ", "0 0 m ", "1 0 0 1 ", "q Q ", "BT ET ", "\n"}
		i := 0
		for i < n {
			i += copy(b[i:], Pick(r, words))
		}
	case 4:
		name = "few"
		k := 2 + r.Intn(3)
		for i := range b {
			b[i] = byte(r.Intn(k))
		}
	case 5:
		name = "zeros+"
		for i := range b {
			if r.P(1, 16) {
				b[i] = byte(r.U64())
			}
		}
	case 6:
		name = "ramp"
		s := byte(r.U64())
		for i := range b {
			b[i] = s + byte(i)
		}
	case 7:
		name = "pairs"
		for i := range b {
			b[i] = byte(i/2*7) ^ byte(r.Intn(2))
		}
	default:
		name = "high"
		for i := range b {
			b[i] = 0xf0 | byte(r.Intn(16))
			if r.P(1, 5) {
				b[i] = 0xff
			}
		}
	}
	return b, name
}

// faGenChunks produces a chunking: 1-byte pieces, small primes, around block
// sizes, or nil (everything at once).
func faGenChunks(r *Rand) []int {
	switch r.Intn(7) {
	case 0:
		return nil
	case 1:
		return []int{1}
	case 2:
		return []int{Pick(r, []int{2, 3, 5, 7, 11, 13})}
	case 3:
		return []int{Pick(r, []int{3, 4, 5, 127, 128, 129, 511, 512, 513, 4095, 4096, 4097})}
	case 4:
		n := 1 + r.Intn(5)
		c := make([]int, n)
		for i := range c {
			c[i] = 1 + r.Intn(9)
		}
		return c
	case 5:
		return []int{1 + r.Intn(300), 1 + r.Intn(3)}
	default:
		return []int{1 + r.Intn(2000)}
	}
}

func faChunksStr(c []int) string {
	if c == nil {
		return "all"
	}
	s := make([]string, len(c))
	for i, x := range c {
		s[i] = fmt.Sprint(x)
	}
	return strings.Join(s, ",")
}

func faParseChunks(s string) []int {
	if s == "all" || s == "" {
		return nil
	}
	var out []int
	for _, p := range strings.Split(s, ",") {
		var n int
		fmt.Sscan(p, &n)
		if n <= 0 {
			n = 1
		}
		out = append(out, n)
	}
	return out
}

// ---- LZW code streams built by hand (MSB first) ----

type faBitWriter struct {
	out   []byte
	acc   uint64
	nbits uint
}

func (w *faBitWriter) put(code, width uint) {
	w.acc = w.acc<<width | uint64(code)&(1<<width-1)
	w.nbits += width
	for w.nbits >= 8 {
		w.out = append(w.out, byte(w.acc>>(w.nbits-8)))
		w.nbits -= 8
	}
}

func (w *faBitWriter) finish() []byte {
	if w.nbits > 0 {
		w.out = append(w.out, byte(w.acc<<(8-w.nbits)))
		w.nbits = 0
	}
	return w.out
}

// faPackCodes packs codes the way a conforming LZW encoder with the given
// EarlyChange would: the code length follows the number of codes since the
// last clear code (top table entry 257+m), capped at 12 bits.
func faPackCodes(codes []int, early int) []byte {
	w := &faBitWriter{}
	m := 0
	for _, c := range codes {
		width := uint(9)
		for width < 12 && 257+m+early >= 1<<width {
			width++
		}
		w.put(uint(c), width)
		if c == 256 {
			m = 0
		} else {
			m++
		}
	}
	return w.finish()
}

// ---- reference codecs written from ISO 32000-1 §7.4.5 (RunLength) ----

func refRunLengthDecode(in []byte) ([]byte, bool) {
	var out []byte
	for i := 0; i < len(in); {
		l := int(in[i])
		i++
		switch {
		case l == 128:
			return out, true
		case l < 128:
			if i+l+1 > len(in) {
				return out, false
			}
			out = append(out, in[i:i+l+1]...)
			i += l + 1
		default:
			if i >= len(in) {
				return out, false
			}
			for k := 0; k < 257-l; k++ {
				out = append(out, in[i])
			}
			i++
		}
	}
	return out, false // no EOD
}

// refRunLengthEncode is a valid encoder that is deliberately unlike the
// library's: it only uses literal packets of random length 1..128 and turns a
// run into a repeat packet only when it is at least minRun long.
func refRunLengthEncode(r *Rand, data []byte, minRun int) []byte {
	var out []byte
	i := 0
	for i < len(data) {
		run := 1
		for i+run < len(data) && data[i+run] == data[i] && run < 128 {
			run++
		}
		if run >= minRun && run >= 2 {
			if r.P(1, 4) && run > 2 {
				run = 2 + r.Intn(run-1)
			}
			out = append(out, byte(257-run), data[i])
			i += run
			continue
		}
		n := 1 + r.Intn(128)
		if n > len(data)-i {
			n = len(data) - i
		}
		out = append(out, byte(n-1))
		out = append(out, data[i:i+n]...)
		i += n
	}
	return append(out, 128)
}

// ---- the compiled Lean driver as a service (Spec codecs at run time) ----

func faDriverPath() string {
	if p := os.Getenv("VERIF_DRIVER"); p != "" {
		return p
	}
	exe, err := os.Executable()
	if err != nil {
		return ""
	}
	// .build/harness-xxxx  →  lean/.lake/build/bin/pdfdriver
	return filepath.Join(filepath.Dir(filepath.Dir(exe)), "lean", ".lake", "build", "bin", "pdfdriver")
}

// faAskDriver runs the compiled driver on a batch of protocol lines and
// returns one reply per line (one driver process per batch).
func faAskDriver(lines []string) ([]string, bool) {
	p := faDriverPath()
	if _, err := os.Stat(p); err != nil {
		return nil, false
	}
	cmd := exec.Command(p)
	cmd.Stdin = strings.NewReader(strings.Join(lines, "\n") + "\n")
	out, err := cmd.Output()
	if err != nil {
		return nil, false
	}
	res := strings.Split(strings.TrimRight(string(out), "\n"), "\n")
	if len(res) != len(lines) {
		return nil, false
	}
	return res, true
}

// faSpecEncode asks the Lean Spec encoder for the encodings of the inputs.
func faSpecEncode(codec string, inputs [][]byte) ([][]byte, bool) {
	lines := make([]string, len(inputs))
	for i, d := range inputs {
		lines[i] = "FA senc " + codec + " " + hexWire(d)
	}
	res, ok := faAskDriver(lines)
	if !ok {
		return nil, false
	}
	out := make([][]byte, len(res))
	for i, l := range res {
		if !strings.HasPrefix(l, "ok ") {
			return nil, false
		}
		h := strings.TrimPrefix(l, "ok ")
		if h == "-" {
			out[i] = []byte{}
			continue
		}
		b, err := hex.DecodeString(h)
		if err != nil {
			return nil, false
		}
		out[i] = b
	}
	return out, true
}

var _ = io.EOF

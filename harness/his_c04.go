package main

import (
	"math"
	"bytes"
	"fmt"
	"hash/fnv"
	"io"
	"runtime"
	"sync"
	"sync/atomic"
	"sort"
	"strconv"
	"strings"

	"seehuhn.de/go/pdf"
)

// C04 — the Reader follows the specification for every conforming
// serialisation and revision history.

func init() {
	addRun("C04", "revision histories rendered by an independent serialiser (his_render.go, his_file.go: junk before the header, tables with subsections, xref streams with /Index and any /W incl. zero widths, deflate and PNG-Up via compress/zlib, hybrid /XRefStm files, object streams (also with the index closed by newline, space or NOTHING and the first member - dict, array, string, hex string, name, integer, reference, boolean - 0, 1 or 2 bytes behind it), /Prev chains, generation bumps, full and incremental sections, random white space/comments/EOLs/string and name spellings); exhaustive over {leave,define,free}^objects x {table,stream,hybrid} per revision for small histories, random beyond; every reference n g R (all numbers up to one past the largest, all generations up to one past the largest) is read with the real Reader.Get and compared with the reference semantics (Go copy as oracle, Lean Spec/HISHistory through the driver). A case is non-trivial when it has >=2 revisions or a non-table section; distinct by file bytes.", runC04)
	addReplay("C04", "history", replayC04History)
	addRun("C04", "object spellings: random object trees (all byte values in names and strings, boundary integers, reals, references) written by the independent renderer with every conforming spelling choice and read back by the real scanner, bare and inside brackets, followed by random terminators; distinct by spelling, non-trivial when the spelling differs from the plain one", runC04Lex)
	addReplay("C04", "lexical", replayC04Lex)
	addRun("C04", "stream extents: files with streams whose /Length is correct (any body), indirect, missing, wrong (not pointing at white space + endstream), negative, null, a real, a name, or a reference to a missing/free/non-integer object; bodies for the unusable lengths contain no EOL+endstream (but contain endstream, endobj and EOLs otherwise) and end in any bytes, also LF, CR LF, LF LF, CR CR LF, LF CR - except a bare CR in front of the marker LF; the EOL marker before endstream is LF, CR LF or CR; Reader.Get must return exactly the body. Non-trivial when the length is unusable; distinct by file bytes", runC04Streams)
	addReplay("C04", "stream", replayC04Stream)
	setCanon("C04", canonReals)
}

// ---- plans ----

func hisInfraActions(k int) ([]hisAction, pdf.Dict) {
	cat := k + 1
	pages := k + 2
	acts := []hisAction{
		{Num: 0, Free: true},
		{Num: cat, Val: hisVal{Obj: pdf.Dict{"Type": pdf.Name("Catalog"), "Pages": pdf.NewReference(uint32(pages), 0)}}},
		{Num: pages, Val: hisVal{Obj: pdf.Dict{"Type": pdf.Name("Pages"), "Kids": pdf.Array{}, "Count": pdf.Integer(0)}}},
	}
	return acts, pdf.Dict{"Root": pdf.NewReference(uint32(cat), 0)}
}

func hisTestValue(r *Rand, rev, num int, allowStream bool) hisVal {
	payload := hisGenObj(r, 2, num+4)
	if payload == nil {
		payload = pdf.Integer(7)
	}
	switch k := r.Intn(6); {
	case k == 0 && allowStream:
		body := hisGenBytes(r, 40)
		if r.P(1, 3) {
			body = append(body, []byte("\nendstream\nendobj\n")...)
			body = append(body, hisGenBytes(r, 5)...)
		}
		return hisVal{Stm: &hisStream{Dict: pdf.Dict{"Rev": pdf.Integer(rev), "Obj": pdf.Integer(num), "P": payload}, Data: body}}
	case k == 1:
		return hisVal{Obj: pdf.Array{pdf.Integer(rev), pdf.Integer(num), payload}}
	case k == 2:
		if r.P(1, 4) {
			// the header is the first "%PDF-" of the file, not the last one in its first 1024 bytes
			return hisVal{Obj: pdf.String(fmt.Sprintf("%%PDF-1.%d rev %d obj %d", r.Intn(8), rev, num))}
		}
		return hisVal{Obj: pdf.String(fmt.Sprintf("rev %d obj %d (%s)", rev, num, hisGenBytes(r, 6)))}
	default:
		return hisVal{Obj: pdf.Dict{"Rev": pdf.Integer(rev), "Obj": pdf.Integer(num), "P": payload}}
	}
}

func hisTrailerExtras(r *Rand, rev int, tr pdf.Dict, infoNum int) {
	if infoNum > 0 && r.Bool() {
		tr["Info"] = pdf.NewReference(uint32(infoNum), 0)
	}
	if r.Bool() {
		id := func() pdf.String { return pdf.String(r.Bytes(16)) }
		tr["ID"] = pdf.Array{id(), id()}
	}
	if r.P(1, 3) {
		tr["XX_Rev"] = pdf.Integer(rev)
	}
	if r.P(1, 3) {
		tr["ab_c"] = pdf.String(fmt.Sprintf("r%d", rev))
	}
	if r.P(1, 4) {
		tr["Foo"] = pdf.Integer(rev) // a first-class name the reader does not hand on
	}
}

// hisExhaustivePlan decodes code into a history over objects 1..k with nrev
// revisions: per revision a kind and, per object, leave/define/free.
func hisExhaustivePlan(r *Rand, k, nrev int, code uint64) *hisPlan {
	plan := &hisPlan{Version: "1.7"}
	if r.P(1, 4) {
		plan.Junk = hisJunk(r)
	}
	for ri := 0; ri < nrev; ri++ {
		kind := int(code % 3)
		code /= 3
		rp := hisRevPlan{Kind: kind, Trailer: pdf.Dict{}}
		infra, tr := hisInfraActions(k)
		for key, v := range tr {
			rp.Trailer[key] = v
		}
		if ri == 0 {
			rp.Actions = append(rp.Actions, infra...)
		}
		for n := 1; n <= k; n++ {
			act := code % 3
			code /= 3
			switch act {
			case 1:
				a := hisAction{Num: n, Val: hisTestValue(r, ri, n, true)}
				a.Compressed = r.Bool()
				a.Hidden = r.P(1, 3)
				a.LenMode = r.Intn(2)
				rp.Actions = append(rp.Actions, a)
			case 2:
				rp.Actions = append(rp.Actions, hisAction{Num: n, Free: true})
			}
		}
		rp.Full = r.P(1, 4)
		hisTrailerExtras(r, ri, rp.Trailer, 0)
		plan.Revs = append(plan.Revs, rp)
	}
	return plan
}

func hisJunk(r *Rand) []byte {
	n := r.Intn(1000)
	if r.P(1, 5) {
		n = 1019 // "%PDF-" ends exactly at byte 1024
	}
	j := make([]byte, n)
	for i := range j {
		j[i] = byte(r.U64())
		if j[i] == '%' {
			j[i] = '$'
		}
	}
	return j
}

// hisRandomPlan: longer histories, more objects, random generations of actions.
func hisRandomPlan(r *Rand, thorough bool) *hisPlan {
	plan := &hisPlan{Version: Pick(r, []string{"1.4", "1.5", "1.7", "2.0", "1.0"})}
	if r.P(1, 3) {
		plan.Junk = hisJunk(r)
	}
	k := 1 + r.Intn(8)
	nrev := 1 + r.Intn(5)
	if thorough && r.P(1, 10) {
		nrev = 6 + r.Intn(10)
	}
	infoNum := 0
	for ri := 0; ri < nrev; ri++ {
		rp := hisRevPlan{Kind: r.Intn(3), Trailer: pdf.Dict{}}
		infra, tr := hisInfraActions(k)
		for key, v := range tr {
			rp.Trailer[key] = v
		}
		if ri == 0 {
			rp.Actions = append(rp.Actions, infra...)
			if r.Bool() {
				infoNum = k + 3
				rp.Actions = append(rp.Actions, hisAction{Num: infoNum, Val: hisVal{Obj: pdf.Dict{"Title": pdf.String("t"), "Producer": pdf.String("his")}}})
			}
		}
		for n := 1; n <= k; n++ {
			switch r.Intn(5) {
			case 0, 1:
				a := hisAction{Num: n, Val: hisTestValue(r, ri, n, true)}
				a.Compressed = r.Bool()
				a.Hidden = r.P(1, 3)
				a.LenMode = r.Intn(2)
				rp.Actions = append(rp.Actions, a)
			case 2:
				rp.Actions = append(rp.Actions, hisAction{Num: n, Free: true})
			}
		}
		rp.Full = r.P(1, 4)
		hisTrailerExtras(r, ri, rp.Trailer, infoNum)
		plan.Revs = append(plan.Revs, rp)
	}
	return plan
}

// hisCase regenerates one case from its mode and seed (used by run and replay).
func hisCase(mode string, seed uint64, stat func(string)) *hisFile {
	r := &Rand{s: seed}
	parts := strings.Split(mode, ":")
	switch parts[0] {
	case "ex": // ex:<k>:<nrev>:<code>
		k, _ := strconv.Atoi(parts[1])
		nrev, _ := strconv.Atoi(parts[2])
		code, _ := strconv.ParseUint(parts[3], 10, 64)
		plan := hisExhaustivePlan(r, k, nrev, code)
		return hisBuild(r, plan, false, stat)
	case "explain":
		k, _ := strconv.Atoi(parts[1])
		nrev, _ := strconv.Atoi(parts[2])
		code, _ := strconv.ParseUint(parts[3], 10, 64)
		plan := hisExhaustivePlan(r, k, nrev, code)
		return hisBuild(r, plan, true, stat)
	case "rnd":
		return hisBuild(r, hisRandomPlan(r, false), false, stat)
	case "rndT":
		return hisBuild(r, hisRandomPlan(r, true), false, stat)
	case "stm":
		return hisBuild(r, hisStreamPlan(r), false, stat)
	case "osr", "osrc":
		// an object-stream member whose value is an indirect reference.  "osr": white space of every
		// kind between the tokens, leading zeros (up to six digits), a sign on the object number;
		// "osrc": the spellings which the look-ahead of 444f7d4 (a 64-byte window, six digits)
		// missed and scanner.readReferenceTail (7ec872d) reads like the other reference readers:
		// comments between the tokens, a signed generation, a generation of more than six digits,
		// white space and comments longer than 64 bytes.  A failure of an "osrc" case is reported
		// under its own class key (regression detector; the key is not a known finding).
		wsp := func() string {
			n := 1 + r.Intn(3)
			b := make([]byte, n)
			for i := range b {
				b[i] = Pick(r, hisWS)
			}
			return string(b)
		}
		num := Pick(r, []string{"2", "2", "02", "+2", "0002"})
		gen := Pick(r, []string{"0", "0", "00", "000000", "00000"})
		w1, w2 := wsp(), wsp()
		if parts[0] == "osrc" {
			long := func() string {
				n := 60 + r.Intn(90)
				if r.P(1, 8) {
					n = 1000 + r.Intn(200) // across a refill of the scanner's buffer
				}
				if r.P(1, 2) {
					return strings.Repeat(string([]byte{Pick(r, hisWS)}), n)
				}
				return "%" + strings.Repeat(Pick(r, []string{"c", " ", "R", "0 R "}), n) + Pick(r, []string{"\n", "\r", "\r\n"})
			}
			switch r.Intn(7) {
			case 0:
				w1 = " %c\n" + Pick(r, []string{"", " "})
			case 1:
				w2 = "%x\r"
			case 2:
				gen = "+0"
			case 3:
				gen = "0000000" + Pick(r, []string{"", "000000000000000000"})
			case 4:
				w1 = long()
			case 5:
				w2 = long()
			default:
				w1, w2 = long(), long()
			}
		}
		text := num + w1 + gen + w2 + "R" + Pick(r, []string{"", " ", "\n", "\x00"})
		infra, tr := hisInfraActions(2)
		plan := &hisPlan{Version: "1.7", Revs: []hisRevPlan{{Kind: 1 + r.Intn(2), Trailer: tr, Actions: append(infra,
			hisAction{Num: 1, Val: hisVal{Obj: pdf.NewReference(2, 0), Raw: []byte(text)}, Compressed: true},
			hisAction{Num: 2, Val: hisVal{Obj: pdf.Integer(42)}},
		)}}}
		return hisBuild(r, plan, false, stat)
	}
	if strings.HasPrefix(parts[0], "osd") {
		// osd<sep>_<kind>_<delta>: an object stream whose FIRST member starts `delta` bytes behind
		// the end of the index — sep n/s: a newline/space ends the index (inside /First), x: /First
		// is the offset directly behind the last digit of the index; the remaining delta bytes are
		// white space in front of the member.  delta = 0: the member (which starts with a delimiter)
		// follows the last index digit directly; the library's own Writer never produces that.
		var sep byte
		var kind, delta int
		fmt.Sscanf(parts[0][3:], "%c_%d_%d", &sep, &kind, &delta)
		tail := map[byte]string{'n': "\n", 's': " ", 'x': ""}[sep]
		first := hisOsdFirst[kind]
		lead := delta - len(tail)
		if lead < 0 || (delta == 0 && !first.delim) {
			panic("his: impossible osd case " + parts[0])
		}
		infra, tr := hisInfraActions(4)
		acts := append(infra, hisAction{Num: 2, Val: hisVal{Obj: pdf.Integer(42)}})
		acts = append(acts, hisAction{Num: 1, Compressed: true, Val: hisVal{Obj: first.obj, Raw: []byte(first.text), Tight: true,
			Lead: bytes.Repeat([]byte{Pick(r, []byte(" \n\r\t"))}, lead), IdxTail: &tail}})
		acts = append(acts, hisAction{Num: 3, Compressed: true, Val: hisVal{Obj: pdf.Integer(int64(r.Intn(1000)))}})
		acts = append(acts, hisAction{Num: 4, Compressed: true, Val: hisVal{Obj: pdf.Name("Last")}})
		plan := &hisPlan{Version: "1.7", Revs: []hisRevPlan{{Kind: 1 + r.Intn(2), Trailer: tr, Actions: acts}}}
		return hisBuild(r, plan, false, stat)
	}
	if strings.HasPrefix(parts[0], "osrv") {
		// osrv<k>: the k-th edge case of hisOsrVariants
		k, _ := strconv.Atoi(parts[0][4:])
		v := hisOsrVariants[k]
		infra, tr := hisInfraActions(3)
		acts := append(infra, hisAction{Num: 2, Val: hisVal{Obj: pdf.Integer(42)}})
		for i, m := range v.members {
			acts = append(acts, hisAction{Num: []int{1, 3}[i], Compressed: true,
				Val: hisVal{Obj: m.denotes, Raw: []byte(m.text), Tight: m.tight}})
		}
		plan := &hisPlan{Version: "1.7", Revs: []hisRevPlan{{Kind: 1 + r.Intn(2), Trailer: tr, Actions: acts}}}
		return hisBuild(r, plan, false, stat)
	}
	panic("his: unknown case mode " + mode)
}

// edge cases of the `n g R` look-ahead for object-stream members (scanner.go:readReferenceTail,
// library HEAD 7ec872d).  `denotes` is the value the member has: a conforming member that is
// written as a reference denotes that reference; for the non-conforming texts it is what the
// library documents, and only the byte-level model is compared with the code.
// the first member of the osd documents: one of each kind of object start
var hisOsdFirst = []struct {
	text  string
	obj   pdf.Object
	delim bool
}{
	{"<</A 1/B[2 0 R]>>", pdf.Dict{"A": pdf.Integer(1), "B": pdf.Array{pdf.NewReference(2, 0)}}, true},
	{"[1 /x(y)]", pdf.Array{pdf.Integer(1), pdf.Name("x"), pdf.String("y")}, true},
	{"(str)", pdf.String("str"), true},
	{"<414243>", pdf.String("ABC"), true},
	{"/Name", pdf.Name("Name"), true},
	{"17", pdf.Integer(17), false},
	{"2 0 R", pdf.NewReference(2, 0), false},
	{"true", pdf.Boolean(true), false},
}

type hisOsrMember struct {
	text    string
	denotes pdf.Object
	tight   bool
}

var hisOsrVariants = []struct {
	conforming bool
	members    []hisOsrMember
}{
	{true, []hisOsrMember{{"2 0 R", pdf.NewReference(2, 0), false}}},
	{true, []hisOsrMember{{"2 0 R ", pdf.NewReference(2, 0), false}}},
	{true, []hisOsrMember{{"2  0\nR", pdf.NewReference(2, 0), false}}},
	{true, []hisOsrMember{{"2\t00000 \r\nR\n", pdf.NewReference(2, 0), false}}},
	{false, []hisOsrMember{{"2 0 Rx", pdf.Integer(2), false}}},
	{false, []hisOsrMember{{"2 0", pdf.Integer(2), false}}},
	{true, []hisOsrMember{{"2", pdf.Integer(2), false}}},
	{false, []hisOsrMember{{"2 65536 R", pdf.Integer(2), false}}},
	{true, []hisOsrMember{{"2 0000000 R", pdf.NewReference(2, 0), false}}},
	// "2 0 R" directly followed by the next member (the look-ahead ends at its offset)
	{true, []hisOsrMember{{"2 0 R", pdf.NewReference(2, 0), false}, {"/Next", pdf.Name("Next"), true}}},
	{true, []hisOsrMember{{"2 0 R", pdf.NewReference(2, 0), false}, {"57", pdf.Integer(57), true}}},
	{true, []hisOsrMember{{"2 0 R", pdf.NewReference(2, 0), false}, {"(s)", pdf.String("s"), false}}},
	// an integer member followed by a member that starts with digits: "2" and "0 R…" must not be
	// merged across the offset boundary
	{false, []hisOsrMember{{"2 ", pdf.Integer(2), false}, {"0 R", pdf.Integer(0), true}}},
	{true, []hisOsrMember{{"2 ", pdf.Integer(2), false}, {"0 ", pdf.Integer(0), true}}},
	{true, []hisOsrMember{{"2\n", pdf.Integer(2), false}, {"16 0 R", pdf.NewReference(16, 0), true}}},
	// 15.. : the spellings of 7ec872d
	{true, []hisOsrMember{{"2 %c\n 0 R", pdf.NewReference(2, 0), false}}},
	{true, []hisOsrMember{{"2 0%c\rR", pdf.NewReference(2, 0), false}}},
	{true, []hisOsrMember{{"2 +0 R", pdf.NewReference(2, 0), false}}},
	{false, []hisOsrMember{{"2 -0 R", pdf.NewReference(2, 0), false}}},
	{false, []hisOsrMember{{"2 0R", pdf.NewReference(2, 0), false}}},
	{false, []hisOsrMember{{"2 R", pdf.Integer(2), false}}},
	{false, []hisOsrMember{{"2 -1 R", pdf.Integer(2), false}}},
	{false, []hisOsrMember{{"2 0 %c", pdf.Integer(2), true}}},
	// no window: 70 blanks, comments of more than 64 bytes, white space across a buffer refill
	{true, []hisOsrMember{{"2" + strings.Repeat(" ", 70) + "0" + strings.Repeat(" ", 70) + "R", pdf.NewReference(2, 0), false}}},
	{true, []hisOsrMember{{"2 %" + strings.Repeat("c", 80) + "\n0 %" + strings.Repeat("0 R ", 30) + "\rR", pdf.NewReference(2, 0), false}}},
	{true, []hisOsrMember{{"2" + strings.Repeat("\n", 1100) + "0 R", pdf.NewReference(2, 0), false}}},
	{true, []hisOsrMember{{"2 0" + strings.Repeat(" ", 1100) + "R", pdf.NewReference(2, 0), false}, {"57", pdf.Integer(57), true}}},
	// the `R` lies behind the start of the next member: the long tail belongs to that member
	{false, []hisOsrMember{{"2" + strings.Repeat(" ", 70), pdf.Integer(2), true}, {"0 R", pdf.Integer(0), true}}},
}

// ---- the implementation's answers ----

func hisImplToken(o pdf.Object) (tok string, err error) {
	if s, ok := o.(*pdf.Stream); ok {
		data, err := io.ReadAll(s.NewReader())
		if err != nil {
			return "", err
		}
		return "S" + wireNorm(s.Dict) + "#" + hexWire(data), nil
	}
	return wireNorm(o), nil
}

func hisGet(rd *pdf.Reader, n, g int) (tok string) {
	defer func() {
		if p := recover(); p != nil {
			tok = fmt.Sprintf("panic:%v", p)
		}
	}()
	o, err := rd.Get(pdf.NewReference(uint32(n), uint16(g)), true)
	if err != nil {
		return "err:" + errClass(err)
	}
	tok, err = hisImplToken(o)
	if err != nil {
		return "err:" + errClass(err)
	}
	return tok
}

func hisOpen(data []byte) (rd *pdf.Reader, err error) {
	defer func() {
		if p := recover(); p != nil {
			err = fmt.Errorf("panic: %v", p)
		}
	}()
	return pdf.NewReader(bytes.NewReader(data), int64(len(data)), &pdf.ReaderOptions{ErrorHandling: pdf.ErrorHandlingReport})
}

type hisQuery struct{ n, g int }

func hisQueries(f *hisFile) []hisQuery {
	var qs []hisQuery
	for n := 0; n <= f.MaxNum+1; n++ {
		for g := 0; g <= f.MaxGen+1; g++ {
			qs = append(qs, hisQuery{n, g})
		}
	}
	qs = append(qs, hisQuery{0, 65535})
	return qs
}

// hisOracle evaluates the property on the implementation: every reference
// reads as the reference semantics says, and the trailer is the newest one.
// It returns the answers of the implementation (for the correspondence line).
func hisOracle(f *hisFile) (answers []string, failKey, failDesc string) {
	rd, err := hisOpen(f.Bytes)
	if err != nil {
		return nil, "history-open", fmt.Sprintf("NewReader fails on a conforming file: %v", err)
	}
	for _, q := range hisQueries(f) {
		got := hisGet(rd, q.n, q.g)
		want := specGetGo(f.Revs, q.n, q.g)
		answers = append(answers, got)
		if got != want && failKey == "" {
			failKey = "history-get"
			failDesc = fmt.Sprintf("Get(%d %d R) = %s, the history says %s", q.n, q.g, truncate(got), truncate(want))
		}
	}
	// trailer: the entries the reader hands on are those of the newest revision
	newest := f.Revs[len(f.Revs)-1].Trailer
	got := rd.GetMeta().Trailer
	want := pdf.Dict{}
	for k, v := range newest {
		if k == "Root" || k == "Info" || k == "ID" || strings.ContainsAny(string(k[:min(len(k), 5)]), ":_") || strings.HasPrefix(string(k), "XX") {
			want[k] = v
		}
	}
	if wireNorm(got) != wireNorm(want) && failKey == "" {
		failKey = "history-trailer"
		failDesc = fmt.Sprintf("trailer %s, newest revision has %s", wireNorm(got), wireNorm(want))
	}
	return answers, failKey, failDesc
}

func replayC04History(input string) (bool, string) {
	parts := strings.SplitN(input, " ", 2)
	seed, err := strconv.ParseUint(parts[1], 10, 64)
	if err != nil {
		return true, "bad replay input"
	}
	f := hisCase(parts[0], seed, nil)
	_, key, desc := hisOracle(f)
	if key != "" {
		return false, fmt.Sprintf("%s: %s\nhistory: %s\nfile (%d bytes): %q", key, desc, truncate(f.historyToken()), len(f.Bytes), f.Bytes)
	}
	return true, fmt.Sprintf("history %s read as specified", truncate(f.historyToken()))
}

// ---- run ----

func hisQueryToken(qs []hisQuery) string {
	parts := make([]string, len(qs))
	for i, q := range qs {
		parts[i] = fmt.Sprintf("%d.%d", q.n, q.g)
	}
	return strings.Join(parts, "+")
}

func runC04(c *Ctx) {
	r := c.R
	stat := func(s string) { c.Stat(s) }

	// cases are generated and evaluated by parallel workers and recorded in order
	type job struct {
		mode string
		seed uint64
		emit bool
	}
	type result struct {
		stats      map[string]int
		key        string
		nontrivial bool
		vKey, vDsc string
		op, ans    string
	}
	eval := func(j job) result {
		res := result{stats: map[string]int{}}
		f := hisCase(j.mode, j.seed, func(s string) { res.stats[s]++ })
		res.nontrivial = len(f.Revs) >= 2
		for _, rv := range f.Revs {
			if rv.Kind != hisTable {
				res.nontrivial = true
			}
			res.stats[[]string{"rev_table", "rev_stream", "rev_hybrid"}[rv.Kind]]++
		}
		res.stats[fmt.Sprintf("revisions_%02d", min(len(f.Revs), 10))]++
		if f.Hdr > 0 {
			res.stats["junk_before_header"]++
		}
		h := fnv.New64a()
		h.Write(f.Bytes)
		res.key = fmt.Sprintf("%016x", h.Sum64())
		answers, key, desc := hisOracle(f)
		if key != "" {
			if j.mode == "osrc" && key == "history-get" {
				key = "objstm-reference-unusual-spelling"
			}
			res.vKey, res.vDsc = key, desc+" ["+j.mode+"]"
		}
		if j.emit && answers != nil {
			res.op = "HIS spec " + f.historyToken() + " " + hisQueryToken(hisQueries(f))
			res.ans = strings.Join(answers, " ")
		}
		return res
	}
	var pending []job
	flush := func() {
		results := make([]result, len(pending))
		var wg sync.WaitGroup
		workers := runtime.NumCPU()
		next := int64(-1)
		for w := 0; w < workers; w++ {
			wg.Add(1)
			go func() {
				defer wg.Done()
				for {
					i := int(atomic.AddInt64(&next, 1))
					if i >= len(pending) {
						return
					}
					results[i] = eval(pending[i])
				}
			}()
		}
		wg.Wait()
		for i, res := range results {
			for k, v := range res.stats {
				c.StatN(k, v)
			}
			c.Case(res.key, res.nontrivial)
			if res.vKey != "" {
				c.Violate("history", res.vKey, res.vDsc, fmt.Sprintf("%s %d", pending[i].mode, pending[i].seed))
			}
			if res.op != "" {
				c.Emit(res.op, res.ans)
			}
		}
		pending = pending[:0]
	}
	one := func(mode string, seed uint64, emit bool) {
		pending = append(pending, job{mode, seed, emit})
		if len(pending) >= 20000 {
			flush()
		}
	}
	defer flush()
	_ = stat

	// 1. exhaustive small histories: every action vector and kind per revision
	type space struct{ k, nrev int }
	spaces := []space{{1, 1}, {2, 1}, {3, 1}, {4, 1}, {1, 2}, {2, 2}, {3, 2}, {1, 3}}
	sampled := []space{{2, 3}, {4, 2}, {3, 3}, {4, 3}}
	nSample := 1500
	if c.Thorough {
		spaces = []space{{1, 1}, {2, 1}, {3, 1}, {4, 1}, {1, 2}, {2, 2}, {3, 2}, {4, 2}, {1, 3}, {2, 3}, {3, 3}}
		sampled = []space{{4, 3}}
		nSample = 100000
	}
	pow := func(b uint64, e int) uint64 {
		x := uint64(1)
		for i := 0; i < e; i++ {
			x *= b
		}
		return x
	}
	emitEvery := 3
	if c.Thorough {
		emitEvery = 60
	}
	cnt := 0
	for _, sp := range spaces {
		total := pow(3*pow(3, sp.k), sp.nrev)
		for code := uint64(0); code < total; code++ {
			cnt++
			one(fmt.Sprintf("ex:%d:%d:%d", sp.k, sp.nrev, code), r.U64(), cnt%emitEvery == 0)
		}
		c.StatN("exhaustive_histories", int(total))
		c.Stat(fmt.Sprintf("exhaustive_space_objects%d_revisions%d", sp.k, sp.nrev))
	}
	c.rep.Exhaustive = true
	for _, sp := range sampled {
		total := pow(3*pow(3, sp.k), sp.nrev)
		for i := 0; i < nSample; i++ {
			code := r.U64() % total
			cnt++
			one(fmt.Sprintf("ex:%d:%d:%d", sp.k, sp.nrev, code), r.U64(), cnt%emitEvery == 0)
		}
		c.StatN("sampled_small_histories", nSample)
	}
	// the same codes in the plain (minimal) spelling: separates layout effects from history effects
	for code := uint64(0); code < 81; code++ {
		one(fmt.Sprintf("explain:1:2:%d", code), r.U64(), true)
	}

	// object-stream members that are just `n g R` (repaired by 444f7d4: a recurrence is a violation),
	// in random spelling and in the edge cases of the look-ahead; the conforming ones go through
	// the oracle, all of them through the byte-level correspondence (HIS open)
	for i := 0; i < 40; i++ {
		one("osr", r.U64(), true)
	}
	for i := 0; i < 8; i++ {
		one("osrc", r.U64(), false)
	}
	flush()
	for k, v := range hisOsrVariants {
		for rep := 0; rep < 3; rep++ {
			mode := fmt.Sprintf("osrv%d", k)
			seed := r.U64()
			if v.conforming {
				one(mode, seed, true)
				flush()
			}
			f := hisCase(mode, seed, nil)
			qs := hisQueries(f)
			c.Emit("HIS open "+hexWire(f.Bytes)+" "+hisDecodedToken(f)+" "+hisQueryToken(qs), hisOpenLine(f.Bytes, qs))
			c.Stat("objstm_reference_edge_case")
		}
	}

	// 1c. the first member of an object stream at delta = 0, 1, 2 bytes behind the index:
	// index closed by {newline, space, nothing} x first member {dict, array, string, hex string,
	// name, integer, reference, boolean}; every member must read back as written
	for _, sep := range "nsx" {
		for kind := range hisOsdFirst {
			for delta := 0; delta <= 2; delta++ {
				if (sep != 'x' && delta == 0) || (delta == 0 && !hisOsdFirst[kind].delim) {
					continue
				}
				mode := fmt.Sprintf("osd%c_%d_%d", sep, kind, delta)
				seed := r.U64()
				one(mode, seed, true)
				flush()
				f := hisCase(mode, seed, nil)
				qs := hisQueries(f)
				c.Emit("HIS open "+hexWire(f.Bytes)+" "+hisDecodedToken(f)+" "+hisQueryToken(qs), hisOpenLine(f.Bytes, qs))
				c.Stat(fmt.Sprintf("objstm_first_member_delta_%d", delta))
			}
		}
	}

	// 2. random larger histories
	nRandom := 3000
	mode := "rnd"
	if c.Thorough {
		nRandom = 30000
		mode = "rndT"
	}
	for i := 0; i < nRandom; i++ {
		seed := r.U64()
		if i < 2 {
			flush()
			f := hisCase(mode, seed, nil)
			c.Sample(fmt.Sprintf("history %s as %d bytes: %q", truncate(f.historyToken()), len(f.Bytes), truncate(string(f.Bytes))))
		}
		one(mode, seed, i%emitEvery == 0)
	}
}

var _ = sort.Strings


// ---- run 2: object spellings ----

func hisLexObj(r *Rand, depth int) pdf.Object {
	if r.P(1, 8) {
		return genReal(r)
	}
	if r.P(1, 8) {
		return pdf.String(genBytes(r, 30))
	}
	if r.P(1, 8) {
		n := genName(r)
		b := []byte(n)
		for i := range b {
			if b[i] == 0 {
				b[i] = 1
			}
		}
		return pdf.Name(b)
	}
	o := hisGenObj(r, depth, 20)
	return o
}

var hisTerminators = []string{"", " ", "\n", "\r\n", "%c\n", "]", ">>", "/N", "(s)", "<41>", "[", "\x00", "{", "}x", "\t", "\f"}

// hisLexCase returns the spelling under test and the expected parse result line.
func hisLexCase(seed uint64, stat func(string)) (data []byte, want string, plainSame bool) {
	r := &Rand{s: seed}
	o := hisLexObj(r, 1+r.Intn(3))
	rd := &hisRenderer{r: r.Fork(), stat: stat}
	sp := rd.obj(o)
	plain := (&hisRenderer{r: r.Fork(), plain: true}).obj(o)
	term := Pick(r, hisTerminators)
	_, isRef := o.(pdf.Reference)
	_, isDict := o.(pdf.Dict)
	if isRef || isDict || r.Bool() {
		data = rd.join([]byte("["), sp, []byte("]"))
		data = append(data, term...)
		return data, "ok " + wireNorm(pdf.Array{o}) + " " + fmt.Sprint(len(term)), bytes.Equal(sp, plain)
	}
	if hisEndsRegular(sp) && term != "" && hisIsRegular(term[0]) {
		term = " "
	}
	data = append(append([]byte(nil), sp...), term...)
	return data, "ok " + wireNorm(o) + " " + fmt.Sprint(len(term)), bytes.Equal(sp, plain)
}

// hisParseLine is implParseLine with a panic of the library turned into a result line
func hisParseLine(data []byte) (line string) {
	defer func() {
		if p := recover(); p != nil {
			line = fmt.Sprintf("panic %v", p)
		}
	}()
	return implParseLine(data)
}

func replayC04Lex(input string) (bool, string) {
	seed, err := strconv.ParseUint(input, 10, 64)
	if err != nil {
		return true, "bad replay input"
	}
	data, want, _ := hisLexCase(seed, nil)
	got := hisParseLine(data)
	if got != want {
		return false, fmt.Sprintf("spelling %q parsed as %s, denotes %s", data, truncate(got), truncate(want))
	}
	return true, fmt.Sprintf("spelling %q parsed as written", truncate(string(data)))
}

func runC04Lex(c *Ctx) {
	n := 30000
	if c.Thorough {
		n = 200000
	}
	stat := func(s string) { c.Stat("lex_" + s) }
	for i := 0; i < n; i++ {
		seed := c.R.U64()
		data, want, same := hisLexCase(seed, stat)
		got := hisParseLine(data)
		c.Case("lex:"+string(data), !same)
		if got != want {
			c.Violate("lexical", "lexical-spelling", fmt.Sprintf("spelling %q parsed as %s, denotes %s", truncate(string(data)), truncate(got), truncate(want)), fmt.Sprint(seed))
		}
		if i < 2 {
			c.Sample(fmt.Sprintf("spelling %q denotes %s", truncate(string(data)), truncate(want)))
		}
		c.Emit("HIS parse "+hexWire(data), got)
	}
}

// ---- run 3: stream extents ----

func hisNiceBody(r *Rand) []byte {
	n := 1 + r.Intn(50)
	if r.P(1, 8) {
		n = 1000 + r.Intn(100)
	}
	b := make([]byte, n)
	for i := range b {
		switch r.Intn(4) {
		case 0:
			b[i] = byte(r.U64())
		case 1:
			b[i] = Pick(r, []byte("\r\n \t\x00ab"))
		default:
			b[i] = byte(0x21 + r.Intn(0x5e))
		}
	}
	// sprinkle the keywords, but never directly after an EOL
	for k := r.Intn(3); k > 0; k-- {
		w := Pick(r, []string{"endstream", " endstream ", "xendstream\n", "endobj", "\nendobj\n", "stream\n"})
		p := r.Intn(len(b) + 1)
		b = append(b[:p:p], append([]byte(w), b[p:]...)...)
	}
	for {
		i := bytes.Index(b, []byte("\nendstream"))
		if i < 0 {
			i = bytes.Index(b, []byte("\rendstream"))
		}
		if i < 0 {
			break
		}
		b[i] = '_'
	}
	for len(b) > 0 && (b[len(b)-1] == '\n' || b[len(b)-1] == '\r') {
		b[len(b)-1] = '.'
	}
	return b
}

func hisStreamPlan(r *Rand) *hisPlan {
	plan := &hisPlan{Version: "1.7"}
	if r.P(1, 5) {
		plan.Junk = hisJunk(r)
	}
	k := 1 + r.Intn(4)
	rp := hisRevPlan{Kind: r.Intn(3), Trailer: pdf.Dict{}}
	infra, tr := hisInfraActions(k + 2)
	rp.Actions = append(rp.Actions, infra...)
	for key, v := range tr {
		rp.Trailer[key] = v
	}
	// two helper objects that an indirect /Length may point to
	nameObj := k + 1
	realObj := k + 2
	rp.Actions = append(rp.Actions, hisAction{Num: nameObj, Val: hisVal{Obj: pdf.Name("NotANumber")}})
	rp.Actions = append(rp.Actions, hisAction{Num: realObj, Val: hisVal{Obj: pdf.Array{pdf.Integer(1)}}})
	for n := 1; n <= k; n++ {
		a := hisAction{Num: n}
		mode := r.Intn(9)
		dict := pdf.Dict{"Obj": pdf.Integer(n)}
		switch mode {
		case 0, 1: // correct length, any body
			body := hisGenBytes(r, 60)
			if r.Bool() {
				body = append(body, []byte("\nendstream\nendobj\r\n")...)
			}
			a.Val = hisVal{Stm: &hisStream{Dict: dict, Data: body}}
			a.LenMode = mode
		default:
			body := hisNiceBody(r)
			a.EndEOL = Pick(r, []string{"\n", "\r\n", "\r"})
			if r.P(1, 3) {
				// D-C20-1: the data may end in end-of-line bytes of its own; exactly ONE marker in
				// front of endstream is not data.  Outside: data ending in a bare CR in front of the
				// marker LF (the file shows the one marker CR LF).
				tail := Pick(r, []string{"\n", "\n", "\r\n", "\n\n", "\r\r\n", "\r", "\n\r"})
				if !(strings.HasSuffix(tail, "\r") && a.EndEOL == "\n") {
					body = append(body, tail...)
				}
			}
			a.Val = hisVal{Stm: &hisStream{Dict: dict, Data: body}}
			switch mode {
			case 2:
				a.LenMode = 2
			case 3, 4:
				a.LenMode = 3
				a.WrongLen = Pick(r, []int{len(body) - 1, len(body) + 3, 0, 1, len(body) / 2, len(body) * 2, 1 << 30, -1, -len(body),
					math.MaxInt64, math.MaxInt64 - 1, math.MaxInt64 - 10 - r.Intn(2000), 1 << 62}) // the last four: bfd427f
				if r.Bool() {
					a.WrongLen = r.Intn(len(body) + 40)
				}
			default:
				a.LenMode = 4
				a.LenObj = Pick(r, []pdf.Object{
					pdf.Name("X"), pdf.String("12"), pdf.Array{pdf.Integer(len(body))}, pdf.Boolean(true),
					pdf.NewReference(uint32(nameObj), 0), pdf.NewReference(uint32(realObj), 0),
					pdf.NewReference(uint32(k+30), 0), pdf.NewReference(uint32(n), 0), pdf.NewReference(uint32(nameObj), 1),
					pdf.NewReference(0, 65535),
				})
			}
		}
		rp.Actions = append(rp.Actions, a)
	}
	plan.Revs = append(plan.Revs, rp)
	return plan
}

func hisEndstreamAtGo(file []byte, pos int) bool {
	if pos < 0 || pos > len(file) {
		return false
	}
	for pos < len(file) {
		switch file[pos] {
		case 0, 9, 10, 12, 13, 32:
			pos++
			continue
		}
		break
	}
	return bytes.HasPrefix(file[pos:], []byte("endstream"))
}

// hisStreamExcluded reports whether a wrong length of the case happens to
// point at white space followed by endstream (outside the property's quantifier).
func hisStreamExcluded(seed uint64, f *hisFile) bool {
	plan := hisStreamPlan(&Rand{s: seed})
	for _, a := range plan.Revs[0].Actions {
		if a.Val.Stm == nil || a.LenMode < 3 {
			continue
		}
		at := f.DataAt[a.Num]
		cands := []int{0}
		if a.LenMode == 3 && a.WrongLen >= 0 {
			cands = []int{a.WrongLen}
		}
		for _, d := range cands {
			if hisEndstreamAtGo(f.Bytes, at+d) {
				return true
			}
		}
	}
	return false
}

func replayC04Stream(input string) (bool, string) {
	seed, err := strconv.ParseUint(input, 10, 64)
	if err != nil {
		return true, "bad replay input"
	}
	f := hisCase("stm", seed, nil)
	if hisStreamExcluded(seed, f) {
		return true, "a wrong /Length of this case points at white space + endstream: outside the quantifier"
	}
	_, key, desc := hisOracle(f)
	if key != "" {
		return false, fmt.Sprintf("%s: %s\nfile (%d bytes): %q", key, desc, len(f.Bytes), f.Bytes)
	}
	return true, "every stream read back with its body"
}

func runC04Streams(c *Ctx) {
	n := 5000
	if c.Thorough {
		n = 40000
	}
	stat := func(s string) { c.Stat(s) }
	for i := 0; i < n; i++ {
		seed := c.R.U64()
		f := hisCase("stm", seed, stat)
		if hisStreamExcluded(seed, f) {
			c.Stat("stream_wrong_length_points_at_endstream_skipped")
			continue
		}
		plan := hisStreamPlan(&Rand{s: seed})
		unusable := false
		for _, a := range plan.Revs[0].Actions {
			if a.Val.Stm != nil {
				c.Stat(fmt.Sprintf("stream_length_mode_%d", a.LenMode))
				if a.LenMode >= 2 {
					unusable = true
				}
			}
		}
		c.Case(string(f.Bytes), unusable)
		answers, key, desc := hisOracle(f)
		if key != "" {
			if key == "history-get" {
				key = "stream-extent"
				for _, a := range plan.Revs[0].Actions {
					if st := a.Val.Stm; st != nil && a.LenMode >= 2 && len(st.Data) > 0 && (st.Data[len(st.Data)-1] == '\n' || st.Data[len(st.Data)-1] == '\r') {
						// a stream with an unusable /Length whose data ends in an EOL of its own
						// (regression key of D-C20-1: the EOL was stripped together with the marker)
						key = "stream-extent-trailing-eol"
					}
				}
			}
			c.Violate("stream", key, desc, fmt.Sprint(seed))
			continue // reported under its class key; the spec line would repeat the same difference
		}
		if answers != nil {
			c.Emit("HIS spec "+f.historyToken()+" "+hisQueryToken(hisQueries(f)), strings.Join(answers, " "))
		}
	}
}

package main

import (
	"bytes"
	"fmt"
	"runtime"
	"strconv"
	"strings"
	"time"

	"seehuhn.de/go/pdf"
)

// Property C05, allocation budget of cross-reference streams whose /Index
// array is hostile in its ARITHMETIC: subsection sizes that sum to a multiple
// of 2^32 or 2^31 (so that a 32-bit accumulator wraps to a small total),
// sums just above such a boundary, hundreds of repeated or overlapping
// subsections, single values at the uint32 / int64 boundaries.  The body is
// tiny on disk and expands to millions of all-zero entries (one heap object
// each when decoded).  The documented budget (internal/limits.MaxXRefEntries:
// 8192 + 32 entries per on-disk byte of the stream) must refuse all of them
// before anything is decoded.
//
// Oracle: the growth of runtime.MemStats.TotalAlloc during pdf.NewReader
// (each ErrorHandling mode) stays below
//
//	32 MiB + 128 * (8192 + 32*rawLen) + 1024*rawLen + 64*len(file)
//
// i.e. the documented number of entries at 128 bytes each (measured on the
// unchanged library: about 100 bytes per decoded entry, map included) plus the
// stream decode budget; no panic; returns within the watchdog.  A case is
// non-trivial when the file reaches the cross-reference stream (always, the
// files are built here) — control cases whose /Index is within the budget
// and must be ACCEPTED make sure the family is not rejected for another
// reason.  Replay: the descriptor "<index-spec> <entries-in-body> <size>".

const (
	c05iAllocBase = 32 << 20
	c05iPerEntry  = 128
	c05iWatchdog  = 60 * time.Second
)

// c05iIndex expands an index spec: "16777216x256" = [0 16777216] 256 times;
// "a:b,c:d" = explicit pairs; parts joined by "+".
func c05iIndex(spec string) string {
	var sb strings.Builder
	sb.WriteByte('[')
	for _, part := range strings.Split(spec, "+") {
		if k := strings.IndexByte(part, 'x'); k > 0 {
			n, _ := strconv.Atoi(part[k+1:])
			pair := part[:k]
			start := "0"
			if c := strings.IndexByte(pair, ':'); c >= 0 {
				start, pair = pair[:c], pair[c+1:]
			}
			for i := 0; i < n; i++ {
				sb.WriteString(start + " " + pair + " ")
			}
			continue
		}
		for _, pr := range strings.Split(part, ",") {
			sb.WriteString(strings.Replace(pr, ":", " ", 1) + " ")
		}
	}
	sb.WriteByte(']')
	return sb.String()
}

// c05iFile builds a one-page document whose only cross-reference section is
// an xref stream with the given /Index; the (FlateDecode) body holds the 5
// real entries followed by zeros up to bodyEntries entries of 3 bytes.
func c05iFile(spec string, bodyEntries int, size string) (data []byte, rawLen int) {
	var f bytes.Buffer
	f.WriteString("%PDF-1.7\n%\x80\x80\x80\x80\n")
	offs := make([]int, 5)
	obj := func(n int, body string) {
		offs[n] = f.Len()
		fmt.Fprintf(&f, "%d 0 obj\n%s\nendobj\n", n, body)
	}
	obj(1, "<</Type/Catalog/Pages 2 0 R>>")
	obj(2, "<</Type/Pages/Kids[3 0 R]/Count 1>>")
	obj(3, "<</Type/Page/Parent 2 0 R/MediaBox[0 0 10 10]/Resources<<>>>>")
	xoff := f.Len()
	offs[4] = xoff
	var body bytes.Buffer
	body.Write([]byte{0, 0, 0, 255})
	for n := 1; n <= 4; n++ {
		body.Write([]byte{1, byte(offs[n] >> 8), byte(offs[n]), 0})
	}
	if bodyEntries > 5 {
		body.Write(make([]byte, 4*(bodyEntries-5)))
	}
	raw := c05ZlibFast(body.Bytes())
	index := ""
	if spec != "-" {
		index = "/Index" + c05iIndex(spec)
	}
	fmt.Fprintf(&f, "4 0 obj\n<</Type/XRef/Size %s/W[1 2 1]%s/Root 1 0 R/Filter/FlateDecode/Length %d>>\nstream\n", size, index, len(raw))
	f.Write(raw)
	fmt.Fprintf(&f, "\nendstream\nendobj\nstartxref\n%d\n%%%%EOF\n", xoff)
	return f.Bytes(), len(raw)
}

type c05iCase struct {
	spec    string
	body    int    // entries supplied by the body
	size    string // /Size
	control bool   // within the budget: must open
}

func c05iCases(thorough bool) []c05iCase {
	big := 2000000
	if thorough {
		big = 6000000
	}
	cs := []c05iCase{
		// controls
		{"-", 5, "5", true},
		{"0:5", 5, "5", true},
		{"0:3,3:2", 5, "5", true},
		{"0:2000", 2000, "2000", true},
		// the sum is a multiple of 2^32
		{"16777216x256", big, "16777216", false},
		{"16777216x512", big, "16777216", false},
		{"8388608x512", big, "16777216", false},
		{"1048576x4096", big, "16777216", false},
		{"8388608:8388608x512", big, "16777216", false},
		// ... of 2^31
		{"16777216x128", big, "16777216", false},
		// ... a little more than a multiple of 2^32 / 2^31 (a wrapped total of 5, 8192, 8193)
		{"16777216x256+0:5", big, "16777216", false},
		{"0:5+16777216x256", big, "16777216", false},
		{"16777216x256+0:8192", big, "16777216", false},
		{"16777216x256+0:8193", big, "16777216", false},
		{"16777216x128+0:5", big, "16777216", false},
		{"16777215x256+0:256", big, "16777216", false},
		// far above the budget without any wrap, repeated / overlapping subsections
		{"16777216x2", big, "16777216", false},
		{"16777216x255", big, "16777216", false},
		{"0:16777216,1:16777215,2:16777214,16777215:1", big, "16777216", false},
		{"1000000x16", big, "16777216", false},
		{"0:1000000,500000:1000000,250000:1000000,0:1000000", big, "16777216", false},
		{"1x100000", big, "16777216", false},
		// single values at the boundaries (refused by the range check of each subsection)
		{"0:4294967296", big, "16777216", false},
		{"0:4294967297", big, "16777216", false},
		{"4294967295:2", big, "16777216", false},
		{"4294967296:5", big, "16777216", false},
		{"0:2147483648", big, "16777216", false},
		{"0:9223372036854775807", big, "16777216", false},
		{"9223372036854775807:1", big, "16777216", false},
		{"9223372036854775807:9223372036854775807", big, "16777216", false},
		{"-9223372036854775808:5", big, "16777216", false},
		{"0:-4294967291", big, "16777216", false},
		{"0:16777216", big, "16777216", false},
		{"0:16777217", big, "16777217", false},
		{"-", big, "16777216", false},
	}
	return cs
}

// c05iEval opens the file in one mode and returns the allocation, what
// happened, and whether it returned in time.
func c05iEval(data []byte, mode int) (alloc uint64, opened bool, errText, panicText string, hang bool) {
	var m0, m1 runtime.MemStats
	runtime.GC()
	runtime.ReadMemStats(&m0)
	type res struct {
		opened bool
		err    string
		pan    string
	}
	done := make(chan res, 1)
	go func() {
		var r res
		defer func() {
			if p := recover(); p != nil {
				r.pan = fmt.Sprint(p)
			}
			done <- r
		}()
		rd, err := pdf.NewReader(bytes.NewReader(data), int64(len(data)), &pdf.ReaderOptions{ErrorHandling: c05ModeValue(mode)})
		if err != nil {
			r.err = err.Error()
			return
		}
		r.opened = rd != nil
		if rd != nil {
			rd.Close()
		}
	}()
	select {
	case r := <-done:
		opened, errText, panicText = r.opened, r.err, r.pan
	case <-time.After(c05iWatchdog):
		hang = true
	}
	runtime.ReadMemStats(&m1)
	alloc = m1.TotalAlloc - m0.TotalAlloc
	return
}

func c05iBudget(fileLen, rawLen int) uint64 {
	return c05iAllocBase + c05iPerEntry*uint64(8192+32*rawLen) + 1024*uint64(rawLen) + 64*uint64(fileLen)
}

func c05iJudge(cs c05iCase, mode int) (ok bool, key, detail string) {
	data, rawLen := c05iFile(cs.spec, cs.body, cs.size)
	alloc, opened, errText, panicText, hang := c05iEval(data, mode)
	budget := c05iBudget(len(data), rawLen)
	head := fmt.Sprintf("xref stream /Size %s /Index %s, body of %d entries in %d bytes on disk (documented budget %d entries), mode=%s: ",
		cs.size, truncTo(cs.spec, 60), cs.body, rawLen, 8192+32*rawLen, c05ModeNames[mode])
	switch {
	case hang:
		c05Tainted = true
		return false, "C05-hang", head + fmt.Sprintf("NewReader did not return within %v", c05iWatchdog)
	case panicText != "":
		return false, "C05-panic-NewReader-xref-index", head + "panic: " + panicText
	case alloc > budget:
		return false, "C05-alloc-blowup-xref-index", head + fmt.Sprintf("NewReader allocated %d bytes, budget %d (opened=%v err=%q)", alloc, budget, opened, truncTo(errText, 80))
	case cs.control && !opened:
		return false, "C05-xref-index-control-rejected", head + "a cross-reference stream within the budget was refused: " + errText
	}
	return true, "", head + fmt.Sprintf("alloc=%d budget=%d opened=%v err=%q", alloc, budget, opened, truncTo(errText, 80))
}

func robC05iRun(c *Ctx) {
	for _, cs := range c05iCases(c.Thorough) {
		for mode := 0; mode < 3; mode++ {
			if c05Tainted {
				return
			}
			ok, key, detail := c05iJudge(cs, mode)
			desc := fmt.Sprintf("%s %d %s %d", cs.spec, cs.body, cs.size, mode)
			c.Case("c05i "+desc, true)
			if cs.control {
				c.Stat("c05i_control")
			} else {
				c.Stat("c05i_hostile_index")
			}
			if !ok {
				c.Violate("c05i", key, detail, desc)
			}
		}
	}
}

func replayC05i(input string) (bool, string) {
	f := strings.Fields(input)
	if len(f) != 4 {
		return true, "bad replay input: " + truncate(input)
	}
	body, _ := strconv.Atoi(f[1])
	mode, _ := strconv.Atoi(f[3])
	if mode < 0 || mode > 2 {
		mode = 0
	}
	cs := c05iCase{spec: f[0], body: body, size: f[2]}
	for _, k := range c05iCases(false) {
		if k.spec == cs.spec && k.size == cs.size {
			cs.control = k.control
		}
	}
	ok, key, detail := c05iJudge(cs, mode)
	if ok {
		return true, detail
	}
	return false, key + ": " + detail
}

package main

import (
	"fmt"
	"sort"
	"strconv"

	"seehuhn.de/go/pdf"
)

// Independent serialiser, part 1: object syntax (ISO 32000-2 §7.2, §7.3).
//
// Nothing here calls go-pdf's formatter; the pdf.* value types are only used
// as a convenient tree representation.  Every conforming spelling choice is
// drawn from the Rand: white space and comments between tokens, EOL variants,
// literal strings with every escape form / octal / line continuation / raw
// EOLs / balanced parentheses, hex strings with white space and an odd number
// of digits, #xx escapes in names, signs and leading zeros in numbers.

type hisRenderer struct {
	r *Rand
	// plain switches all optional variation off (minimal canonical spelling)
	plain bool
	// stats
	stat func(string)
}

func (h *hisRenderer) st(s string) {
	if h.stat != nil {
		h.stat(s)
	}
}

var hisWS = []byte{' ', ' ', ' ', '\n', '\r', '\t', '\f', 0}

const hisCommentAlphabet = "abcXYZ 0189 ()<>[]{}/%#\\-+._*'\""

// ws returns optional white space; with need it returns at least one white
// space byte or comment (comments count as white space, §7.2.4).
func (h *hisRenderer) ws(need bool) []byte {
	if h.plain {
		if need {
			return []byte{' '}
		}
		return nil
	}
	var out []byte
	n := 0
	switch h.r.Intn(8) {
	case 0, 1, 2, 3:
		n = 0
	case 4, 5:
		n = 1
	case 6:
		n = 2
	default:
		n = 1 + h.r.Intn(4)
	}
	if need && n == 0 {
		n = 1
	}
	for i := 0; i < n; i++ {
		if h.r.P(1, 7) {
			// comment up to and including an EOL
			out = append(out, '%')
			k := h.r.Intn(6)
			for j := 0; j < k; j++ {
				out = append(out, hisCommentAlphabet[h.r.Intn(len(hisCommentAlphabet))])
			}
			out = append(out, h.eol()...)
			h.st("ws_comment")
		} else {
			out = append(out, Pick(h.r, hisWS))
		}
	}
	return out
}

func (h *hisRenderer) eol() []byte {
	if h.plain {
		return []byte{'\n'}
	}
	switch h.r.Intn(3) {
	case 0:
		return []byte{'\n'}
	case 1:
		return []byte{'\r', '\n'}
	default:
		return []byte{'\r'}
	}
}

func hisIsRegular(b byte) bool {
	switch b {
	case 0, 9, 10, 12, 13, 32, '(', ')', '<', '>', '[', ']', '{', '}', '/', '%':
		return false
	}
	return true
}

func (h *hisRenderer) hexDigit(v byte) byte {
	if v < 10 {
		return '0' + v
	}
	if !h.plain && h.r.Bool() {
		return 'A' + v - 10
	}
	return 'a' + v - 10
}

// name renders /name with #xx escapes: mandatory for non-regular bytes, '#'
// and bytes outside 0x21..0x7e; optional for every other byte.
func (h *hisRenderer) name(n pdf.Name) []byte {
	out := []byte{'/'}
	for i := 0; i < len(n); i++ {
		b := n[i]
		must := !hisIsRegular(b) || b == '#' || b < 0x21 || b > 0x7e
		if must || (!h.plain && h.r.P(1, 6)) {
			out = append(out, '#', h.hexDigit(b>>4), h.hexDigit(b&15))
			h.st("name_escape")
		} else {
			out = append(out, b)
		}
	}
	return out
}

func hisIsOct(b byte) bool { return b >= '0' && b <= '7' }

// litString renders a literal string.  It works from the end of the string
// towards the start, so that the constraints which depend on the following
// byte (a short octal escape must not be followed by an octal digit; a raw
// CR, and a backslash-CR line continuation, must not be followed by a raw LF)
// can be decided locally.
func (h *hisRenderer) litString(s []byte) []byte {
	// which parentheses are balanced (and may therefore stay unescaped)?
	balanced := make([]bool, len(s))
	var stack []int
	for i, b := range s {
		switch b {
		case '(':
			stack = append(stack, i)
		case ')':
			if len(stack) > 0 {
				j := stack[len(stack)-1]
				stack = stack[:len(stack)-1]
				// keep the pair raw only as a pair
				if h.plain || h.r.P(2, 3) {
					balanced[i] = true
					balanced[j] = true
				}
			}
		}
	}
	var rev [][]byte // pieces in reverse order
	next := byte(')') // first byte of what follows in the file
	push := func(p []byte) {
		if len(p) > 0 {
			rev = append(rev, p)
			next = p[0]
		}
	}
	octal := func(b byte) []byte {
		// 1-3 digits; fewer than three only if no octal digit follows
		full := []byte{'\\', '0' + b>>6, '0' + (b>>3)&7, '0' + b&7}
		if hisIsOct(next) || h.r.Bool() {
			return full
		}
		if b < 8 {
			h.st("str_octal_short")
			return []byte{'\\', '0' + b}
		}
		if b < 64 {
			h.st("str_octal_short")
			return []byte{'\\', '0' + b>>3, '0' + b&7}
		}
		return full
	}
	cont := func() {
		// line continuation: backslash + EOL, contributes nothing
		if h.plain || !h.r.P(1, 12) {
			return
		}
		h.st("str_continuation")
		switch h.r.Intn(3) {
		case 0:
			push([]byte{'\\', '\n'})
		case 1:
			push([]byte{'\\', '\r', '\n'})
		default:
			if next != '\n' {
				push([]byte{'\\', '\r'})
			}
		}
	}
	for i := len(s) - 1; i >= 0; i-- {
		cont()
		b := s[i]
		var p []byte
		named := map[byte]byte{'\n': 'n', '\r': 'r', '\t': 't', '\b': 'b', '\f': 'f'}
		switch {
		case b == '(' || b == ')':
			if balanced[i] {
				p = []byte{b}
				h.st("str_balanced_paren")
			} else if h.plain || h.r.P(3, 4) {
				p = []byte{'\\', b}
			} else {
				p = octal(b)
			}
		case b == '\\':
			if h.plain || h.r.P(3, 4) {
				p = []byte{'\\', '\\'}
			} else {
				p = octal(b)
			}
		case b == '\n':
			switch k := h.r.Intn(6); {
			case h.plain || k == 0:
				p = []byte{'\\', 'n'}
			case k == 1:
				p = []byte{'\n'}
				h.st("str_raw_eol")
			case k == 2:
				p = []byte{'\r', '\n'}
				h.st("str_raw_eol")
			case k == 3 && next != '\n':
				p = []byte{'\r'}
				h.st("str_raw_eol")
			default:
				p = octal(b)
			}
		case b == '\r':
			// a raw CR would read back as LF
			if h.plain || h.r.Bool() {
				p = []byte{'\\', 'r'}
			} else {
				p = octal(b)
			}
		case b == '\t' || b == '\b' || b == '\f':
			switch k := h.r.Intn(3); {
			case h.plain || k == 0:
				p = []byte{'\\', named[b]}
			case k == 1:
				p = []byte{b}
			default:
				p = octal(b)
			}
		default:
			switch k := h.r.Intn(12); {
			case h.plain || k < 9:
				p = []byte{b}
			case k == 9 || k == 10:
				p = octal(b)
				h.st("str_octal")
			default:
				// backslash before a character that needs none is ignored (§7.3.4.2)
				if b >= 0x21 && b <= 0x7e && !hisIsOct(b) && b != 'n' && b != 'r' && b != 't' && b != 'b' && b != 'f' {
					p = []byte{'\\', b}
					h.st("str_useless_backslash")
				} else {
					p = []byte{b}
				}
			}
		}
		push(p)
	}
	cont()
	out := []byte{'('}
	for i := len(rev) - 1; i >= 0; i-- {
		out = append(out, rev[i]...)
	}
	return append(out, ')')
}

// hexString renders <...> with white space between digits and, when the last
// digit is 0, possibly an odd number of digits.
func (h *hisRenderer) hexString(s []byte) []byte {
	out := []byte{'<'}
	gap := func() {
		if !h.plain && h.r.P(1, 5) {
			out = append(out, Pick(h.r, hisWS))
			h.st("hex_ws")
		}
	}
	for i, b := range s {
		gap()
		out = append(out, h.hexDigit(b>>4))
		gap()
		if i == len(s)-1 && b&15 == 0 && !h.plain && h.r.Bool() {
			h.st("hex_odd")
			break
		}
		out = append(out, h.hexDigit(b&15))
	}
	gap()
	return append(out, '>')
}

func (h *hisRenderer) str(s []byte) []byte {
	if !h.plain && h.r.P(1, 3) {
		return h.hexString(s)
	}
	return h.litString(s)
}

func (h *hisRenderer) integer(x int64) []byte {
	neg := x < 0
	var digits string
	if neg {
		digits = strconv.FormatUint(uint64(-x), 10) // MinInt64 negates to itself as uint64 correctly
	} else {
		digits = strconv.FormatInt(x, 10)
	}
	var out []byte
	if neg {
		out = append(out, '-')
	} else if !h.plain && h.r.P(1, 6) {
		out = append(out, '+')
		h.st("int_plus")
	}
	if !h.plain && h.r.P(1, 6) {
		for k := 1 + h.r.Intn(3); k > 0; k-- {
			out = append(out, '0')
		}
		h.st("int_leading_zero")
	}
	return append(out, digits...)
}

// real renders a finite real as a decimal token (no exponent), §7.3.3
func (h *hisRenderer) real(x float64) []byte {
	s := strconv.FormatFloat(x, 'f', -1, 64)
	neg := false
	if s[0] == '-' {
		neg = true
		s = s[1:]
	}
	hasDot := false
	for i := 0; i < len(s); i++ {
		if s[i] == '.' {
			hasDot = true
		}
	}
	if !hasDot {
		s += "."
		if h.plain || h.r.Bool() {
			s += "0"
		}
	} else if !h.plain && h.r.P(1, 4) {
		s += "00"
	}
	if !h.plain && len(s) > 2 && s[0] == '0' && s[1] == '.' && h.r.Bool() {
		s = s[1:] // ".5"
	}
	var out []byte
	if neg {
		out = append(out, '-')
	} else if !h.plain && h.r.P(1, 6) {
		out = append(out, '+')
	}
	return append(out, s...)
}

// endsRegular reports whether a rendered token ends in a regular character, so
// that a following token which starts with a regular character needs white space.
func hisEndsRegular(tok []byte) bool {
	if len(tok) > 0 && tok[len(tok)-1] == '/' {
		return true // the empty name: a regular character after it would extend it
	}
	return len(tok) > 0 && hisIsRegular(tok[len(tok)-1])
}

func hisStartsRegular(tok []byte) bool {
	return len(tok) > 0 && hisIsRegular(tok[0])
}

// join concatenates tokens with white space where required (and optionally elsewhere).
func (h *hisRenderer) join(toks ...[]byte) []byte {
	var out []byte
	for i, t := range toks {
		if i > 0 {
			need := hisEndsRegular(out) && hisStartsRegular(t)
			// a comment swallows the rest of the line: after '%' everything is comment,
			// so white space that ends in a comment always ends in an EOL (see ws).
			out = append(out, h.ws(need)...)
		}
		out = append(out, t...)
	}
	return out
}

func (h *hisRenderer) sortedKeys(d pdf.Dict) []pdf.Name {
	keys := make([]pdf.Name, 0, len(d))
	for k := range d {
		keys = append(keys, k)
	}
	sort.Slice(keys, func(i, j int) bool { return keys[i] < keys[j] })
	if !h.plain {
		for i := len(keys) - 1; i > 0; i-- {
			j := h.r.Intn(i + 1)
			keys[i], keys[j] = keys[j], keys[i]
		}
	}
	return keys
}

// obj renders a direct object.
func (h *hisRenderer) obj(o pdf.Object) []byte {
	if isNilObj(o) {
		return []byte("null")
	}
	switch x := o.(type) {
	case pdf.Boolean:
		if x {
			return []byte("true")
		}
		return []byte("false")
	case pdf.Integer:
		return h.integer(int64(x))
	case pdf.Real:
		return h.real(float64(x))
	case pdf.Name:
		return h.name(x)
	case pdf.String:
		return h.str([]byte(x))
	case pdf.Reference:
		return h.join(h.integer(int64(x.Number())), h.integer(int64(x.Generation())), []byte("R"))
	case pdf.Array:
		toks := [][]byte{[]byte("[")}
		for _, e := range x {
			toks = append(toks, h.obj(e))
		}
		toks = append(toks, []byte("]"))
		return h.join(toks...)
	case pdf.Dict:
		toks := [][]byte{[]byte("<<")}
		for _, k := range h.sortedKeys(x) {
			toks = append(toks, h.name(k), h.obj(x[k]))
		}
		toks = append(toks, []byte(">>"))
		return h.join(toks...)
	}
	panic(fmt.Sprintf("hisRenderer: unsupported %T", o))
}

// ---- value generator for histories ----

func hisGenBytes(r *Rand, maxLen int) []byte {
	n := r.Intn(maxLen + 1)
	b := make([]byte, n)
	mode := r.Intn(3)
	for i := range b {
		switch mode {
		case 0:
			b[i] = byte(r.U64())
		case 1:
			b[i] = Pick(r, []byte{'(', ')', '\\', '\n', '\r', '\t', '0', '7', '8', 'n', 'a', ' ', '<', '>', '#', '%', 0, 0xff})
		default:
			b[i] = byte(0x20 + r.Intn(0x5f))
		}
	}
	return b
}

func hisGenName(r *Rand) pdf.Name {
	if r.P(1, 4) {
		return pdf.Name(Pick(r, []string{"Type", "A", "Length", "A#B", "a b", "Kids", "x(y)", "é"}))
	}
	b := hisGenBytes(r, 6)
	for i := range b {
		if b[i] == 0 {
			b[i] = 'z' // NUL is not allowed in names
		}
	}
	return pdf.Name(b)
}

func hisGenObj(r *Rand, depth int, maxNum int) pdf.Object {
	k := r.Intn(11)
	if depth <= 0 && k >= 8 {
		k = r.Intn(8)
	}
	switch k {
	case 0:
		return pdf.Boolean(r.Bool())
	case 1, 2:
		switch r.Intn(3) {
		case 0:
			return pdf.Integer(r.Intn(100))
		case 1:
			return pdf.Integer(int64(r.U64()) >> uint(r.Intn(64)))
		default:
			return pdf.Integer(Pick(r, boundaryInts))
		}
	case 3:
		return hisGenName(r)
	case 4, 5:
		return pdf.String(hisGenBytes(r, 12))
	case 6:
		return pdf.NewReference(uint32(r.Intn(maxNum+3)), uint16(r.Intn(3)))
	case 7:
		return nil
	case 8, 9:
		n := r.Intn(5)
		a := make(pdf.Array, n)
		for i := range a {
			a[i] = hisGenObj(r, depth-1, maxNum)
		}
		return a
	default:
		n := r.Intn(4)
		d := pdf.Dict{}
		for i := 0; i < n; i++ {
			v := hisGenObj(r, depth-1, maxNum)
			if v == nil {
				v = pdf.Integer(i)
			}
			d[hisGenName(r)] = v
		}
		return d
	}
}

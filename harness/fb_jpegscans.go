package main

import "fmt"

// ---- C08: DCT output bounded by the frame: SOF0/SOF1/SOF2 x scan plans ----
//
// Scan plans over all-zero blocks (DC category 0 and end-of-block are one-bit codes):
//   single      one interleaved scan
//   repeated    the complete interleaved scan 2..40 times
//   percomp     one scan per component (non-interleaved)
//   extra       a complete image (interleaved or per component) followed by further scans
// Oracle (child): whenever data is returned, at most width x height x components bytes; the
// retained heap stays within the stream budget (kind dctmem).

type fbScanPlan struct {
	sof        byte
	w, h       int
	ncomp      int
	sub        byte // sampling of component 0: 0x11, 0x21, 0x22, 0x12
	kind       string
	repeat     int
	shortfall  bool // entropy data shorter than the scan needs
	interFirst bool
}

func (p fbScanPlan) String() string {
	return fmt.Sprintf("SOF%d %dx%d ncomp=%d sub=%02x %s x%d short=%v", p.sof&0x0f, p.w, p.h, p.ncomp, p.sub, p.kind, p.repeat, p.shortfall)
}

func (p fbScanPlan) build() fbJPEG {
	j := fbJPEG{sof: p.sof, prec: 8, w: p.w, h: p.h, adobe: -1}
	for i := 0; i < p.ncomp; i++ {
		c := fbJComp{id: byte(i + 1), h: 1, v: 1, tq: byte(min(i, 1))}
		if i == 0 || (p.ncomp == 4 && i == 3) {
			c.h, c.v = p.sub>>4, p.sub&0x0f
		}
		j.comps = append(j.comps, c)
	}
	hmax, vmax := int(j.comps[0].h), int(j.comps[0].v)
	mcux := (p.w + 8*hmax - 1) / (8 * hmax)
	mcuy := (p.h + 8*vmax - 1) / (8 * vmax)
	blocksInter := 0
	for _, c := range j.comps {
		blocksInter += int(c.h) * int(c.v)
	}
	blocksInter *= mcux * mcuy
	zeros := func(blocks int) []byte {
		n := blocks/4 + 3 // two bits per block
		if p.shortfall {
			n = blocks / 9
		}
		return make([]byte, n)
	}
	all := make([]int, p.ncomp)
	for i := range all {
		all[i] = i
	}
	prog := p.sof == 0xc2
	inter := func() []fbScan {
		if prog {
			return []fbScan{{comps: all, ss: 0, se: 0, data: zeros(blocksInter)}}
		}
		return []fbScan{{comps: all, ss: 0, se: 63, data: zeros(blocksInter)}}
	}
	perComp := func() []fbScan {
		var out []fbScan
		for i, c := range j.comps {
			// non-interleaved: the blocks inside the image at the pixel level
			cw := (p.w*int(c.h) + hmax - 1) / hmax
			ch := (p.h*int(c.v) + vmax - 1) / vmax
			blocks := ((cw + 7) / 8) * ((ch + 7) / 8)
			if prog {
				out = append(out, fbScan{comps: []int{i}, ss: 0, se: 0, data: zeros(blocks)},
					fbScan{comps: []int{i}, ss: 1, se: 63, data: zeros(blocks)})
			} else {
				out = append(out, fbScan{comps: []int{i}, ss: 0, se: 63, data: zeros(blocks)})
			}
		}
		return out
	}
	switch p.kind {
	case "single":
		j.plan = inter()
	case "repeated":
		for i := 0; i < p.repeat; i++ {
			j.plan = append(j.plan, inter()...)
		}
	case "percomp":
		j.plan = perComp()
	default: // extra
		if p.interFirst {
			j.plan = inter()
		} else {
			j.plan = perComp()
		}
		for i := 0; i < p.repeat; i++ {
			if i%2 == 0 {
				j.plan = append(j.plan, perComp()...)
			} else {
				j.plan = append(j.plan, inter()...)
			}
		}
	}
	return j
}

func fbScanPlans(r *Rand, thorough bool) []fbScanPlan {
	var out []fbScanPlan
	dims := [][2]int{{8, 8}, {17, 9}, {64, 64}, {100, 33}}
	if thorough {
		dims = append(dims, [2]int{256, 256}, [2]int{33, 200})
	}
	for _, sof := range []byte{0xc0, 0xc1, 0xc2} {
		for _, nc := range []int{1, 3, 4} {
			subs := []byte{0x11}
			if nc == 3 {
				subs = []byte{0x11, 0x22, 0x21, 0x12}
			} else if nc == 4 {
				subs = []byte{0x11, 0x22}
			}
			for _, sub := range subs {
				for _, kind := range []string{"single", "repeated", "percomp", "extra"} {
					reps := []int{1}
					if kind == "repeated" {
						reps = []int{2, 3, 40}
					} else if kind == "extra" {
						reps = []int{1, 2, 7, 40}
					}
					for _, rep := range reps {
						d := dims[r.Intn(len(dims))]
						if !thorough && rep != 40 && r.Intn(2) == 0 && kind != "single" {
							continue
						}
						p := fbScanPlan{sof: sof, w: d[0], h: d[1], ncomp: nc, sub: sub, kind: kind, repeat: rep, interFirst: r.Bool()}
						out = append(out, p)
						if r.P(1, 6) {
							p.shortfall = true
							out = append(out, p)
						}
					}
				}
			}
		}
	}
	// large frames: a few KiB of zeros claim megabytes of pixels (must stay within frame and budget)
	for _, sof := range []byte{0xc0, 0xc1, 0xc2} {
		for _, kind := range []string{"percomp", "extra", "repeated"} {
			out = append(out, fbScanPlan{sof: sof, w: 1024, h: 1024, ncomp: 3, sub: 0x11, kind: kind, repeat: 3, interFirst: kind == "extra"})
		}
	}
	return out
}

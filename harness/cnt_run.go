package main

import (
	"bytes"
	"encoding/hex"
	"errors"
	"fmt"
	"io"
	"strings"

	"seehuhn.de/go/pdf"
	"seehuhn.de/go/pdf/graphics/content"
)

// C15 — content streams: operators written are the operators read.

func init() {
	addRun("C15", "operator sequences over the operator table, odd and random unknown names, comments and inline images (data with EI look-alikes, white space, binary; Length key; ASCII filters), operands as in C01 without references; written with Operators.RawBytes / Operator.Format, re-read with content.NewScanner, whole and split into 2-4 segments joined as page.SegmentsReader does. A case is non-trivial when it has an operand that is a string, name, composite or an inline image; distinct by its wire form.", runCNTRoundTrip)
	addRun("C15", "tokenisation and Scan of all strings over a 22-byte delimiter alphabet up to a tier-dependent length, inside operator/array/dict/inline-image contexts, token soups and mutated writer output (real scanner vs model, token level through the verif hook and operator level through the public API)", runCNTTokens)
	addRun("C15", "operator sequences (valid programs with random deviations) applied with State.ApplyOperator for all content types and strict/lenient versions, then State.ClosingOperators applied: accepted and balanced; Builder call sequences: the emitted stream is accepted by a fresh State, closes balanced, and re-reads as written", runCNTState)
	addReplay("C15", "roundtrip", replayCNTRoundTrip)
	addReplay("C15", "split", replayCNTSplit)
	addReplay("C15", "closing", replayCNTClosing)
	addReplay("C15", "chunking", replayCNTChunking)
	addReplay("C15", "nonnative", replayCNTNonNative)
	setCanon("C15", canonReals)
}

func cntReplayInput(ops []content.Operator) string {
	if len(ops) == 0 {
		return "a]"
	}
	return "a" + cntOpsWire(ops, false) + "]"
}

// oracleCNTRoundTrip: scan(write(ops)) == ops (names equal, operands equal).
func oracleCNTRoundTrip(ops []content.Operator) (bool, string) {
	ok, _, d := oracleCNTRoundTripKey(ops)
	return ok, d
}

// oracleCNTRoundTripKey also names the class of a failure which is not a
// plain difference of names or operands ("" otherwise).
func oracleCNTRoundTripKey(ops []content.Operator) (ok bool, key string, detail string) {
	data, err := cntWrite(ops)
	if err != nil {
		return false, "", "write error: " + err.Error()
	}
	data2, err := cntWriteEach(ops)
	if err != nil || !bytes.Equal(data, data2) {
		return false, "", "Operators.RawBytes and Operator.Format disagree"
	}
	got, err := cntScan(data)
	if err != nil {
		return false, "", "scan error: " + err.Error()
	}
	if ok, d := cntOpsEqual(ops, got); !ok {
		return false, "", d + fmt.Sprintf(" — stream %q", truncate(string(data)))
	}
	// "equal operands" under the library's own equality (pdf.Equal): an empty string
	// which was written non-nil is not re-read as the nil String
	for i := range ops {
		for j := range ops[i].Args {
			if cntEmptyStringNil(ops[i].Args[j], got[i].Args[j]) {
				return false, "empty-string-nil", fmt.Sprintf("operator %d (%s) operand %d: an empty pdf.String{} was re-read as pdf.String(nil); pdf.Equal/Operator.Equal/StreamsEqual tell them apart — stream %q", i, ops[i].Name, j, truncate(string(data)))
			}
		}
	}
	return true, "", ""
}

// oracleCNTNonNative: an inline image dictionary whose numbers are pdf.Number
// values (an Object which is not Native) is written exactly as the dictionary
// of their AsPDF images, and therefore re-read as those.
func oracleCNTNonNative(ops []content.Operator) (bool, string) {
	nn, changed := cntNonNative(ops)
	if !changed {
		return true, ""
	}
	want, err := cntWrite(ops)
	if err != nil {
		return true, ""
	}
	got, err := cntWrite(nn)
	if err != nil {
		return false, "write error with pdf.Number values: " + err.Error()
	}
	if !bytes.Equal(want, got) {
		return false, fmt.Sprintf("inline image dictionary with pdf.Number values is written as %q, with the equal pdf.Integer/pdf.Real values as %q", truncate(string(got)), truncate(string(want)))
	}
	return true, ""
}

func replayCNTNonNative(input string) (bool, string) {
	cntWireSetup()
	ops, err := cntOpsUnwire(input)
	if err != nil {
		return true, "bad replay input: " + err.Error()
	}
	return oracleCNTNonNative(ops)
}

// oracleCNTSplit: reading the segments of a split stream equals reading the whole.
func oracleCNTSplit(ops []content.Operator, cuts []int) (bool, string) {
	var parts [][]content.Operator
	prev := 0
	for _, c := range cuts {
		parts = append(parts, ops[prev:c])
		prev = c
	}
	parts = append(parts, ops[prev:])
	got, err := cntScanSegments(parts)
	if err != nil {
		return false, "scan error: " + err.Error()
	}
	if ok, d := cntOpsEqual(ops, got); !ok {
		return false, fmt.Sprintf("split at %v: %s", cuts, d)
	}
	return true, ""
}

func replayCNTRoundTrip(input string) (bool, string) {
	cntWireSetup()
	ops, err := cntOpsUnwire(input)
	if err != nil {
		return true, "bad replay input: " + err.Error()
	}
	return oracleCNTRoundTrip(ops)
}

func replayCNTSplit(input string) (bool, string) {
	cntWireSetup()
	parts := strings.SplitN(input, " ", 2)
	ops, err := cntOpsUnwire(parts[1])
	if err != nil {
		return true, "bad replay input: " + err.Error()
	}
	var cuts []int
	for _, f := range strings.Split(parts[0], ",") {
		var c int
		fmt.Sscan(f, &c)
		if c >= 0 && c <= len(ops) {
			cuts = append(cuts, c)
		}
	}
	return oracleCNTSplit(ops, cuts)
}

func replayCNTChunking(input string) (bool, string) {
	cntWireSetup()
	data, err := hex.DecodeString(input)
	if err != nil {
		return true, "bad replay input"
	}
	want := cntImplScanLine(data)
	for seed := uint64(1); seed <= 200; seed++ {
		got, err := cntScanChunked(data, NewRand(seed))
		line := "ok " + cntOpsWire(got, true)
		if err != nil {
			line = "err " + err.Error()
		}
		if line != want {
			return false, fmt.Sprintf("chunked (seed %d): %s, in one piece: %s", seed, truncate(line), truncate(want))
		}
	}
	return true, "200 chunkings give the result of the unchunked scan"
}

func cntNontrivial(ops []content.Operator) bool {
	for _, op := range ops {
		if op.Name == content.OpInlineImage {
			return true
		}
		for _, a := range op.Args {
			if isComposite(a) {
				return true
			}
		}
	}
	return false
}

func cntImplScanLine(data []byte) string {
	ops, err := cntScan(data)
	if err != nil {
		return "err " + err.Error()
	}
	return "ok " + cntOpsWire(ops, true)
}

func runCNTRoundTrip(c *Ctx) {
	cntWireSetup()
	r := c.R
	nSeq := 8000
	if c.Thorough {
		nSeq = 120000
	}

	check := func(ops []content.Operator, tag string) {
		inDomain, hazards := cntClassify(ops)
		w := cntOpsWire(ops, false)
		c.Case("rt:"+w, cntNontrivial(ops))
		// correspondence: the writer
		data, err := cntWrite(ops)
		res := "ok " + hexWire(data)
		if err != nil {
			res = "err"
		}
		c.Emit("CNT fmt "+w, res)
		if err != nil {
			falseEI := false
			for _, h := range hazards {
				falseEI = falseEI || h == "inline-image-EI-in-data"
			}
			switch {
			case falseEI:
				// a writer that refuses data it cannot frame makes no round-trip claim
				c.Stat("rt_writer_refused_EI_in_data")
			case inDomain:
				c.Violate("roundtrip", "write-error", "writer failed: "+err.Error(), cntReplayInput(ops))
			}
			return
		}
		// correspondence: the scanner on the writer's bytes
		c.Emit("CNT scan "+hexWire(data), cntImplScanLine(data))
		if len(data) > 300 || r.P(1, 4) {
			cntSameScan(c, data, r.Fork())
		}
		if !inDomain {
			c.Stat("rt_outside_domain")
			return
		}
		c.Stat("rt_in_domain" + tag)
		// pdf.Number values in inline image dictionaries (D-C15-1)
		if ok, d := oracleCNTNonNative(ops); !ok {
			c.Violate("nonnative", "inline-image-nonnative-value", d, cntReplayInput(ops))
		} else if _, changed := cntNonNative(ops); changed {
			c.Stat("rt_nonnative_checked")
		}
		ok, okey, d := oracleCNTRoundTripKey(ops)
		if !ok && okey == "" {
			// attribute the failure to the operator which fails on its own
			okey = cntAttribute(ops, func(one []content.Operator) bool {
				ok1, k1, _ := oracleCNTRoundTripKey(one)
				return !ok1 && k1 == ""
			})
			if okey == "" && len(hazards) > 0 {
				okey = hazards[0]
			}
		}
		switch {
		case !ok && okey != "" && okey != "roundtrip":
			c.Stat("rt_hazard_failed:" + okey)
			c.Violate("roundtrip", okey, d, cntReplayInput(ops))
			return
		case !ok:
			c.Violate("roundtrip", "roundtrip", d, cntReplayInput(ops))
			return
		case len(hazards) > 0:
			c.Stat("rt_hazard_harmless:" + hazards[0])
			for _, h := range hazards {
				if h == "inline-image-EI-in-data" {
					// the predicate of the known finding D11 is meant to be exact
					c.Violate("roundtrip", "inline-image-EI-predicate", "data with EOL+EI+non-regular byte was read back unchanged: the hypothesis of inline_image_rt is not exact", cntReplayInput(ops))
				}
			}
		}
		// split at operator boundaries
		if len(ops) >= 2 {
			k := 1 + r.Intn(3)
			var cuts []int
			for i := 0; i < k; i++ {
				cuts = append(cuts, r.Intn(len(ops)+1))
			}
			sortInts(cuts)
			ok, d := oracleCNTSplit(ops, cuts)
			c.Stat("split_cases")
			if !ok {
				key := "split"
				if len(hazards) > 0 {
					key = hazards[0]
				}
				var cs []string
				for _, x := range cuts {
					cs = append(cs, fmt.Sprint(x))
				}
				c.Violate("split", key, d, strings.Join(cs, ",")+" "+cntReplayInput(ops))
			}
		}
	}

	// 1. fixed corpus of delicate cases
	op := func(name string, args ...pdf.Object) content.Operator {
		return content.Operator{Name: content.OpName(name), Args: args}
	}
	img := func(d pdf.Dict, data string) content.Operator {
		return content.Operator{Name: content.OpInlineImage, Args: []pdf.Object{d, pdf.String(data)}}
	}
	wh := func(extra pdf.Dict) pdf.Dict {
		d := pdf.Dict{"W": pdf.Integer(2), "H": pdf.Integer(3)}
		for k, v := range extra {
			d[k] = v
		}
		return d
	}
	corpus := [][]content.Operator{
		{},
		{op("q")},
		{op("q"), op("Q")},
		{op("re", pdf.Integer(1), pdf.Integer(2), pdf.Real(3.5), pdf.Integer(-4)), op("f*")},
		{op("Tj", pdf.String("")), op("Tj", pdf.String("(")), op("Tj", pdf.String(")")), op("Tj", pdf.String("\\")), op("Tj", pdf.String("a\rb\nc\r\nd"))},
		{op("TJ", pdf.Array{pdf.String("a"), pdf.Integer(-120), pdf.String("(b"), pdf.Real(0.5), pdf.Name("N")})},
		{op("TJ", pdf.Array{})},
		{op("d", pdf.Array{}, pdf.Integer(0)), op("d", pdf.Array{pdf.Integer(1), pdf.Real(2.25)}, pdf.Real(0.5))},
		{op("BDC", pdf.Name("Span"), pdf.Dict{"MCID": pdf.Integer(3), "ActualText": pdf.String("x)y"), "A": pdf.Array{pdf.Name("a b"), nil}}), op("EMC")},
		{op("BDC", pdf.Name(""), pdf.Dict{}), op("EMC")},
		{op("Tf", pdf.Name("F1"), pdf.Integer(12)), op("Tf", pdf.Name("F#1 /"), pdf.Real(9.5))},
		{op("foo", nil, pdf.Boolean(true), pdf.Boolean(false), pdf.Array(nil))},
		// D99: a typed nil Dict is the null object ("N" on the wire), pdf.Dict{} is <<>> ("d>")
		{op("foo", pdf.Dict(nil), pdf.Dict{}, pdf.Array{pdf.Dict(nil), pdf.Dict{}}, pdf.Dict{"K": pdf.Dict(nil), "E": pdf.Dict{}}), img(wh(pdf.Dict{"Nn": pdf.Dict(nil), "Ee": pdf.Dict{}}), "x")},
		{op("x", pdf.Array{nil, pdf.Array{pdf.Dict{"K": pdf.Array{}}}})},
		{op("n1", nest(255, pdf.Integer(1), 0))},
		{op("n2", nest(256, pdf.Integer(1), 3))},
		{op("n3", nest(257, pdf.Integer(1), 0))},
		{op("a63", cntNums(NewRand(5), 63)...)},
		{op("a64", cntNums(NewRand(6), 64)...), op("after")},
		{op("a65", cntNums(NewRand(7), 65)...), op("after")},
		{op("ID"), op("EI"), op("E"), op("I")},
		{op("g", pdf.Real(1e-7)), op("g", pdf.Real(1e21)), op("g", pdf.Real(-0.0)), op("g", pdf.Integer(-9223372036854775808))},
		{op("%raw%", pdf.String("% a comment")), op("q")},
		{op("%raw%", pdf.String("%")), op("%raw%", pdf.String("%%EOF ( [ <<"))},
		{img(wh(nil), "")},
		{img(wh(nil), "abc")},
		{img(wh(nil), "EI"), op("Q")},
		{img(wh(nil), "EI EI\nEIx \nE I"), op("Q")},
		{img(wh(nil), "\n"), img(wh(nil), "\r"), img(wh(nil), "x\n"), op("Q")},
		{img(wh(pdf.Dict{"L": pdf.Integer(8)}), "ab\nEI cd"), op("Q")},
		{img(wh(pdf.Dict{"Length": pdf.Integer(3)}), "\nEI"), op("Q")},
		{img(wh(pdf.Dict{"F": pdf.Name("AHx")}), "4142>"), op("Q")},
		{img(wh(pdf.Dict{"F": pdf.Array{pdf.Name("A85"), pdf.Name("Fl")}, "CS": pdf.Name("RGB"), "BPC": pdf.Integer(8), "D": pdf.Array{pdf.Integer(0), pdf.Integer(1)}, "DP": pdf.Dict{"K": pdf.Integer(-1)}}), "\x00\x01\xff"), op("Q")},
		{img(pdf.Dict{"Width": pdf.Integer(512), "Height": pdf.Integer(512)}, strings.Repeat("z", 4094))},
		{img(pdf.Dict{"Width": pdf.Integer(512), "Height": pdf.Integer(513)}, "z")},
		{img(wh(nil), strings.Repeat("z", 4095)), op("Q")},
		// D-C15-2: the limit is maxInlineImageBytes with and without a Length key
		{op("q"), img(pdf.Dict{"W": pdf.Integer(64), "H": pdf.Integer(64), "BPC": pdf.Integer(8), "CS": pdf.Name("G")}, strings.Repeat("x", 4096)), op("Q")},
		{op("q"), img(pdf.Dict{"W": pdf.Integer(64), "H": pdf.Integer(64), "L": pdf.Integer(4096)}, strings.Repeat("x", 4096)), op("Q")},
		{op("q"), img(pdf.Dict{"W": pdf.Integer(64), "H": pdf.Integer(64), "L": pdf.Integer(4095)}, strings.Repeat("x", 4095)), op("Q")},
		{op("q"), img(wh(nil), strings.Repeat("x", 4097)), op("Q")},
		{op("q"), img(wh(pdf.Dict{"L": pdf.Integer(4097)}), strings.Repeat("x", 4097)), op("Q")},
		{op("q"), img(wh(nil), strings.Repeat("\n", 4096)), op("Q")},
		// D-C15-9: ASCII filter, Length key, data starting with white space or a comment
		{op("q"), img(wh(pdf.Dict{"F": pdf.Name("AHx"), "L": pdf.Integer(14)}), "\n 41 42\n43 44>"), op("Q")},
		{op("q"), img(wh(pdf.Dict{"F": pdf.Name("A85"), "Length": pdf.Integer(9)}), " 87cUR~>\n"), op("Q")},
		{op("q"), img(wh(pdf.Dict{"F": pdf.Array{pdf.Name("Fl"), pdf.Name("AHx")}, "L": pdf.Integer(8)}), "%c\n4142>"), op("Q")},
		// D-C15-7: empty strings
		{op("BT"), op("Tj", pdf.String{}), op("TJ", pdf.Array{pdf.String("a"), pdf.Integer(-50), pdf.String{}}), op("ET")},
		{op("BDC", pdf.Name("P"), pdf.Dict{"E": pdf.String{}}), op("EMC"), img(wh(pdf.Dict{"X": pdf.String{}}), "")},
		// D-C15-8 (known): beyond the reader's nesting limits
		{img(wh(pdf.Dict{"X": nest(10, pdf.Integer(1), 0)}), "x"), op("q")},
		{img(wh(pdf.Dict{"X": nest(11, pdf.Integer(1), 0)}), "x"), op("q")},
		{op("foo", nest(257, pdf.Array{pdf.Integer(1), pdf.Integer(2)}, 0)), op("q")},
		// the known hazard classes
		{img(wh(nil), "a\nEI b"), op("Q")},
		{img(wh(nil), "a\nEI"), op("Q")},
		{img(wh(nil), "\rEI\x00"), op("Q")},
		{img(wh(pdf.Dict{"A B": pdf.Integer(1)}), "x"), op("Q")},
		{img(wh(pdf.Dict{"K#41": pdf.Integer(1)}), "x"), op("Q")},
		{img(wh(pdf.Dict{"Zz": nil}), "x"), op("Q")},
		{img(wh(pdf.Dict{"D": pdf.Array{}}), "x"), op("Q")},
		{img(wh(pdf.Dict{"F": pdf.Name("A85")}), " 87cUR~>"), op("Q")},
	}
	for i, ops := range corpus {
		check(ops, "")
		if i == 8 || i == 29 {
			c.Sample("corpus: " + cntOpsWire(ops, false))
		}
	}

	// 2. random sequences
	for i := 0; i < nSeq; i++ {
		ops := cntGenSeq(r, 8)
		if i < 3 {
			c.Sample("seq " + cntOpsWire(ops, false))
		}
		check(ops, "")
	}
	// 3. sequences with one deliberately hazardous inline image
	for i := 0; i < nSeq/10; i++ {
		ops := cntGenSeq(r, 3)
		ops = append(ops, cntGenImage(r, true))
		ops = append(ops, cntGenSeq(r, 2)...)
		c.Stat("hazard_sequences")
		check(ops, "")
	}
	// 4. long strings / names / many operators (buffer edges of the 512-byte scanner buffer)
	for i := 0; i < nSeq/50; i++ {
		pad := 500 + r.Intn(30)
		ops := []content.Operator{
			op("Tj", pdf.String(bytes.Repeat([]byte{Pick(r, []byte{'a', '(', '\\', '\r', ')'})}, pad))),
			op(string(bytes.Repeat([]byte{'x'}, 1+r.Intn(20))), pdf.Name(bytes.Repeat([]byte{Pick(r, []byte{'a', '#', ' '})}, pad/3))),
			cntGenImage(r, false),
			op("g", genReal(r)),
		}
		c.Stat("buffer_edge")
		check(ops, "")
	}
	for _, n := range []int{4095, 4096, 4097} {
		check([]content.Operator{op(strings.Repeat("x", n)), op("after")}, "")
		check([]content.Operator{op("x", pdf.Name(strings.Repeat("n", n))), op("after")}, "")
	}
}

func sortInts(a []int) {
	for i := 1; i < len(a); i++ {
		for j := i; j > 0 && a[j-1] > a[j]; j-- {
			a[j-1], a[j] = a[j], a[j-1]
		}
	}
}

// ---- tokenisation ----

func cntImplTokLine(data []byte) (line string) {
	defer func() {
		if r := recover(); r != nil {
			line = fmt.Sprintf("panic %v", r)
		}
	}()
	v := content.NewVerifScanner(data)
	toks := pdf.Array{}
	for {
		t, err := v.ScanToken()
		if err != nil {
			var sb strings.Builder
			wireNormTo(&sb, toks)
			if content.VerifIsParseError(err) {
				return fmt.Sprintf("%s perr %d", sb.String(), v.Remaining())
			}
			if errors.Is(err, io.EOF) {
				return sb.String() + " eof"
			}
			return sb.String() + " err " + err.Error()
		}
		toks = append(toks, t)
	}
}

func cntImplOneLine(data []byte) (line string) {
	defer func() {
		if r := recover(); r != nil {
			line = fmt.Sprintf("panic %v", r)
		}
	}()
	v := content.NewVerifScanner(data)
	op, err := v.Scan()
	if err != nil {
		if content.VerifIsParseError(err) {
			return fmt.Sprintf("perr %d", v.Remaining())
		}
		if errors.Is(err, io.EOF) {
			return "eof"
		}
		return "err " + err.Error()
	}
	var sb strings.Builder
	cntOpWire(&sb, op, true)
	return fmt.Sprintf("ok %s %d", sb.String(), v.Remaining())
}

func runCNTTokens(c *Ctx) {
	cntWireSetup()
	r := c.R
	maxStr := 3
	nSoup := 15000
	if c.Thorough {
		maxStr = 4
		nSoup = 300000
	}
	emit := func(data []byte) {
		h := hexWire(data)
		c.Emit("CNT tok "+h, cntImplTokLine(data))
		c.Emit("CNT one "+h, cntImplOneLine(data))
		c.Emit("CNT scan "+h, cntImplScanLine(data))
		if len(data) > 300 || r.P(1, 8) {
			cntSameScan(c, data, r.Fork())
		}
	}
	alpha := []byte{' ', '\n', '\r', 0, '%', '(', ')', '<', '>', '[', ']', '/', '#', '\\', '0', '9', '.', '+', '-', 'E', 'I', 'a'}
	count := 0
	var rec func(prefix []byte, left int)
	rec = func(prefix []byte, left int) {
		emit(prefix)
		c.Case("s:"+string(prefix), len(prefix) >= 2)
		count++
		if left == 0 {
			return
		}
		for _, b := range alpha {
			rec(append(prefix[:len(prefix):len(prefix)], b), left-1)
		}
	}
	rec(nil, maxStr)
	c.StatN("alphabet_strings", count)
	// the same strings in contexts: after an operand, inside an array / dict, as inline image
	// dictionary and as inline image data
	var rec2 func(prefix []byte, left int)
	rec2 = func(prefix []byte, left int) {
		h := func(pre, post string) {
			data := append(append([]byte(pre), prefix...), post...)
			c.Emit("CNT scan "+hexWire(data), cntImplScanLine(data))
		}
		h("1 ", " x\n")
		h("[1 ", "] x\n")
		h("<</A ", ">> x\n")
		h("BI /W 1/H 1 ", " ID ab\nEI Q\n")
		h("BI /W 1/H 1 ID ", "\nEI Q\n")
		h("BI /W 1/H 1/F/AHx ID ", "\nEI Q\n")
		h("BI /W 1/H 1/F/AHx/L 2 ID ", "\nEI Q\n")
		c.Case("c:"+string(prefix), true)
		if left == 0 {
			return
		}
		for _, b := range alpha {
			rec2(append(prefix[:len(prefix):len(prefix)], b), left-1)
		}
	}
	rec2(nil, maxStr-1)

	// token soups
	tokens := []string{" ", "\n", "\r\n", "\x00", "%c\n", "%", "(", ")", "<", ">", "<<", ">>", "[", "]", "{", "}", "/", "/A", "/#41", "/#4", "/#", "#", "\\", "(a\\)b)", "(\\053\\7\\400)", "(a\rb)", "(\\\r\n)", "<41 4>", "<4x1>", "<4", "0", "12", "-3", "+4", ".5", "6.", "-.7", "1.2.3", "--1", "+", "-", ".", "9223372036854775807", "9223372036854775808", "-9223372036854775809", "1" + strings.Repeat("0", 308), "1" + strings.Repeat("0", 309), "17976931348623158" + strings.Repeat("0", 292), "null", "true", "false", "nul", "falsex", "q", "Q", "re", "Tj", "TJ", "BT", "ET", "f*", "'", "\"", "BI", "ID", "EI", "ID ", "\nEI", "\nEI ", "/W 2", "/H 2", "/W 2.5", "/Width 600", "/H 0", "/L 2", "/L 3", "/Length 1", "/F /AHx", "/F [/A85]", "/F/Fl", "/D [0 1]", "/D []", "/X <</A [1 [2]]>>", "BI /W 1 /H 1 ID xy\nEI", "BI/W 1/H 1/L 2 ID x\nEI", "stream", "R", "a"}
	for i := 0; i < nSoup; i++ {
		n := 1 + r.Intn(10)
		var sb []byte
		for j := 0; j < n; j++ {
			sb = append(sb, Pick(r, tokens)...)
			if r.P(1, 2) {
				sb = append(sb, Pick(r, []byte{' ', '\n', ' ', '\r'}))
			}
		}
		if r.P(1, 12) {
			pad := 500 + r.Intn(16)
			sb = append(bytes.Repeat([]byte{' '}, pad), sb...)
			c.Stat("buffer_edge_soup")
		}
		if i < 2 {
			c.Sample("soup " + fmt.Sprintf("%q", sb))
		}
		c.Case("t:"+string(sb), true)
		emit(sb)
	}
	// mutations of writer output
	for i := 0; i < nSoup/4; i++ {
		ops := cntGenSeq(r, 4)
		b, err := cntWrite(ops)
		if err != nil {
			continue
		}
		for k := r.Intn(3) + 1; k > 0 && len(b) > 0; k-- {
			p := r.Intn(len(b))
			switch r.Intn(3) {
			case 0:
				b[p] = Pick(r, alpha)
			case 1:
				b = append(b[:p:p], b[p+1:]...)
			default:
				b = b[:p]
			}
		}
		c.Case("m:"+string(b), true)
		c.Emit("CNT scan "+hexWire(b), cntImplScanLine(b))
	}
	// caps
	for _, n := range []int{4095, 4096, 4097} {
		emit(append(bytes.Repeat([]byte{'a'}, n), " q\n"...))
		emit(append(append([]byte{'/'}, bytes.Repeat([]byte{'a'}, n)...), " q\n"...))
		emit(append(append([]byte{'%'}, bytes.Repeat([]byte{'a'}, n)...), "\nq\n"...))
		emit(append(append([]byte("BI /W 1/H 1 ID "), bytes.Repeat([]byte{'a'}, n-1)...), "\nEI q\n"...))
		c.Case(fmt.Sprintf("cap%d", n), true)
	}
	// the data limit of inline images, with and without a Length key (D-C15-2)
	for n := 4092; n <= 4099; n++ {
		emit(append(append([]byte("BI /W 1/H 1 ID "), bytes.Repeat([]byte{'a'}, n)...), "\nEI q\n"...))
		emit(append(append([]byte(fmt.Sprintf("BI /W 1/H 1/L %d ID ", n)), bytes.Repeat([]byte{'a'}, n)...), "\nEI q\n"...))
		emit(append(append([]byte("BI /W 1/H 1 ID "), bytes.Repeat([]byte{'\n'}, n)...), "EI q\n"...))
		emit(append(append([]byte("BI /W 1/H 1 ID "), bytes.Repeat([]byte{'a'}, n)...), "\n"...))
		c.Case(fmt.Sprintf("imgcap%d", n), true)
	}
	for _, n := range []int{255, 256, 257} {
		emit(append(append(bytes.Repeat([]byte{'['}, n), bytes.Repeat([]byte{']'}, n)...), " q\n"...))
		emit(append(append(bytes.Repeat([]byte("<</A"), n), bytes.Repeat([]byte(">>"), n)...), " q\n"...))
		c.Case(fmt.Sprintf("deep%d", n), true)
	}
	for _, n := range []int{9, 10, 11, 12} {
		emit(append(append(append([]byte("BI /W 1/H 1/X "), bytes.Repeat([]byte{'['}, n)...), bytes.Repeat([]byte{']'}, n)...), " ID x\nEI q\n"...))
	}
	// deep brackets at the very end of the input inside an inline image dictionary
	// (two units of model fuel per byte: Props/C15cntt)
	for n := 1; n <= 14; n++ {
		emit(append([]byte("BI/K"), bytes.Repeat([]byte{'['}, n)...))
		emit(append([]byte("BI/K"), bytes.Repeat([]byte("<</A"), n)...))
		emit(append([]byte("BI /W 1/H 1/K "), bytes.Repeat([]byte("[<</A"), n)...))
	}
	for _, n := range []int{62, 63, 64, 65, 66, 130} {
		emit(append(bytes.Repeat([]byte("1 "), n), "x q\n"...))
	}
}

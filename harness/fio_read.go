package main

import (
	"strconv"
	"errors"
	"math"
	"bytes"
	"fmt"
	"io"
	"strings"

	"seehuhn.de/go/pdf"
)

// FIO work package (C02), part 3: reader side.  ReadIndirectObject with
// ReadStreamData (declared /Length verified by endstreamAt, recovery scan,
// trimTrailingEOL) and getObjStm/getFromObjStm, on objects of files written by
// the real Writer and on damaged variants.

func init() {
	addReplay("C02", "rdobj-extreme", replayFIOLengthExtreme)
	addRun("C02", "reader side: every kind of indirect object of the written files (plain, reference, stream with direct / patched / indirect length) is read by the real scanner (no decryption) and by the model, also after damaging /Length, the endstream keyword, the EOL after stream and the object header; object streams (real ones, and with damaged N, First, index) are indexed and searched by getObjStm/getFromObjStm and the model. Non-trivial: streams and object streams; distinct by bytes.", runFIORead)
	setCanon("C02", canonReals)
}

func fioImplReadObj(data []byte, pos int, lens map[uint32]int64) string {
	getInt := func(o pdf.Object) (pdf.Integer, error) {
		switch x := o.(type) {
		case pdf.Integer:
			return x, nil
		case pdf.Reference:
			if v, ok := lens[x.Number()]; ok {
				if v == fioLenReadError {
					// a read error met while resolving the reference: not a malformed-file error
					return 0, fmt.Errorf("resolving /Length: %w", errInjected)
				}
				if v == fioLenEOF {
					return 0, io.EOF // the length object is cut off by the end of the data
				}
				return pdf.Integer(v), nil
			}
		}
		// what the Reader's getInt reports for a missing or non-integer object
		return 0, &pdf.MalformedFileError{Err: errors.New("not an integer")}
	}
	s := pdf.NewVerifScanner(bytes.NewReader(data), fioOffsetReaderAt{data, 0}, getInt)
	obj, ref, err := s.ReadIndirectObject()
	if err != nil {
		return "err " + fioErrClass(err)
	}
	if stm, ok := obj.(*pdf.Stream); ok {
		start, length := pdf.VerifStreamExtent(stm)
		return fmt.Sprintf("ok S %s %d %d %d %d %d", wireNorm(stm.Dict), start+int64(pos), length, ref.Number(), ref.Generation(), s.Pos())
	}
	return fmt.Sprintf("ok P %s %d %d %d", wireNorm(obj), ref.Number(), ref.Generation(), s.Pos())
}

// fioLenReadError as a value of the lens table: resolving this reference meets a
// read error ("num:!" on the wire).
const fioLenReadError = math.MinInt64

// fioLenEOF: resolving this reference runs into the end of the data ("num:e").
const fioLenEOF = math.MinInt64 + 1

func fioLensArg(lens map[uint32]int64) string {
	if len(lens) == 0 {
		return "-"
	}
	var parts []string
	for k, v := range lens {
		if v == fioLenReadError {
			parts = append(parts, fmt.Sprintf("%d:!", k))
			continue
		}
		if v == fioLenEOF {
			parts = append(parts, fmt.Sprintf("%d:e", k))
			continue
		}
		parts = append(parts, fmt.Sprintf("%d:%d", k, v))
	}
	// order is irrelevant to the model (lookup), but keep lines reproducible
	for i := range parts {
		for j := i + 1; j < len(parts); j++ {
			if parts[j] < parts[i] {
				parts[i], parts[j] = parts[j], parts[i]
			}
		}
	}
	return strings.Join(parts, ",")
}

type fioFakeGetter struct {
	meta pdf.MetaInfo
	objs map[pdf.Reference]pdf.Native
}

func (g *fioFakeGetter) GetMeta() *pdf.MetaInfo { return &g.meta }
func (g *fioFakeGetter) Get(r pdf.Reference, _ bool) (pdf.Native, error) {
	return g.objs[r], nil
}

func fioImplObjStm(dict pdf.Dict, content []byte, number uint32) string {
	d := pdf.Dict{}
	for k, v := range dict {
		d[k] = v
	}
	stm := pdf.NewStream(d, content)
	sRef := pdf.NewReference(5, 0)
	g := &fioFakeGetter{meta: pdf.MetaInfo{Version: pdf.V1_7}, objs: map[pdf.Reference]pdf.Native{sRef: stm}}
	nums, offs, headEnd, err := pdf.VerifObjStmIndex(g, stm)
	if err != nil {
		return "err " + fioErrClass(err)
	}
	var ps [][2]uint32
	for i := range nums {
		ps = append(ps, [2]uint32{nums[i], uint32(offs[i])})
	}
	obj, err := pdf.VerifGetFromObjStm(g, number, sRef)
	res := "absent"
	if err != nil {
		res = "err-" + fioErrClass(err)
	} else if obj != nil {
		res = wireNorm(obj)
	} else {
		// nil object: either "absent" (offset inside the header) or a null member
		res = "absent"
		for i := range nums {
			if nums[i] == number && int64(offs[i]) >= headEnd {
				res = "z"
				break
			}
		}
	}
	return fmt.Sprintf("ok %s %d %s", fioPairs(ps), headEnd, res)
}

// fioEmitGets compares Reader.Get with the model's readerGet on a handful of
// references of one file: written ones, never written ones, another
// generation, the containers.
func fioEmitGets(c *Ctx, r *Rand, res *fioResult, file []byte, lensArg string, damaged bool) {
	opt := &pdf.ReaderOptions{ErrorHandling: pdf.ErrorHandlingReport}
	rd, err := pdf.NewReader(bytes.NewReader(file), int64(len(file)), opt)
	if err != nil {
		return
	}
	xref := pdf.VerifFIOReaderXRef(rd)
	tbl, err := fioInflateTable(res)
	if err != nil {
		return
	}
	var refs []pdf.Reference
	for _, ref := range res.order {
		refs = append(refs, ref)
	}
	for i := len(refs) - 1; i > 0; i-- {
		j := r.Intn(i + 1)
		refs[i], refs[j] = refs[j], refs[i]
	}
	if len(refs) > 4 {
		refs = refs[:4]
	}
	if len(refs) > 0 {
		refs = append(refs, pdf.NewReference(refs[0].Number(), refs[0].Generation()+1))
	}
	refs = append(refs, res.pages, pdf.NewReference(res.nextRef-1, 0), pdf.NewReference(res.nextRef+2, 0), pdf.NewReference(0, 65535))
	for _, e := range xref {
		if e.InStream != 0 {
			refs = append(refs, pdf.NewReference(e.InStream, 0))
			break
		}
	}
	for _, ref := range refs {
		var line string
		func() {
			defer func() {
				if p := recover(); p != nil {
					line = "panic"
					c.Violate("file-roundtrip", "reader-panic", fmt.Sprintf("Get(%v): %v", ref, p), res.prog.String())
				}
			}()
			obj, err := rd.Get(ref, true)
			switch x := obj.(type) {
			case nil:
				line = "ok null"
				if err != nil {
					line = "err " + fioErrClass(err)
				}
			case *pdf.Stream:
				start, length := pdf.VerifStreamExtent(x)
				line = fmt.Sprintf("ok S %s %d %d", wireNorm(x.Dict), start, length)
			default:
				line = "ok P " + wireNorm(obj)
			}
		}()
		if damaged {
			c.Stat("get_on_damaged_file")
		} else {
			c.Stat("get_cases")
		}
		c.Emit(fmt.Sprintf("FIO get %s %s %s %s %d %d", hexWire(file), fioEntries(xref), tbl, lensArg, ref.Number(), ref.Generation()), line)
	}
}

// fioObjStmMemberTexts: members of hand-made object streams around the
// completion of "n g R" (getFromObjStm/referenceTail): the Writer never puts a
// reference into an object stream, other producers do.
var fioObjStmMemberTexts = []string{
	"5 %c\n0 R", "5 0 %c\rR", "5 +0 R", "5 -0 R", "5 00 R", "5 0000065535 R", "5 0 R%x", "5 0 R(", "+5 0 R", "05 0 R",
	"5 9223372036854775808 R", "5 0.0 R", "5 0 R R", "5 -1 R", "5 -65536 R",
	"5 0 R", "5  0\n R", "5\t12\rR", "5 0 R ", "5 0 R/N", "5 0 R]", "5 0 Rx", "5 0 R0", "5 0R", "5 0", "5",
	"5 6 7", "5 123456 R", "5 1234567 R", "5 65535 R", "5 65536 R", "16777215 0 R", "16777216 0 R", "-1 0 R",
	"0 0 R", "5 -0 R", "5 +1 R", "5 0 r", "5 0 R%c", "5 0 obj", "5.0 0 R", "/Name", "[5 0 R]", "<</K 5 0 R>>",
	"5" + "                                                                  " + "0 R", // 66 blanks: outside the 64-byte window
	"5" + "                                                            " + "0 R",       // 60 blanks: R is the 64th byte
	"5 0                                                             R",
}

// fioObjStmHandmade builds object streams from the member texts (one to three
// members, separated by a space, a newline or nothing) and looks every member up.
func fioObjStmHandmade(c *Ctx, r *Rand, n int) {
	for i := 0; i < n; i++ {
		k := 1 + r.Intn(3)
		var texts []string
		for j := 0; j < k; j++ {
			if i < len(fioObjStmMemberTexts) && j == 0 {
				texts = append(texts, fioObjStmMemberTexts[i]) // every text at least once, alone or first
			} else {
				texts = append(texts, Pick(r, fioObjStmMemberTexts))
			}
		}
		if i < len(fioObjStmMemberTexts) && i%2 == 0 {
			texts = texts[:1]
		}
		var body []byte
		var offs []int
		for j, t := range texts {
			offs = append(offs, len(body))
			body = append(body, t...)
			if j+1 < len(texts) {
				body = append(body, Pick(r, []string{" ", "\n", "", "  "})...)
			}
		}
		var head []byte
		for j := range texts {
			head = append(head, fmt.Sprintf("%d %d ", 10+j, offs[j])...)
		}
		content := append(append([]byte(nil), head...), body...)
		dict := pdf.Dict{"N": pdf.Integer(len(texts)), "First": pdf.Integer(len(head))}
		for j := range texts {
			num := uint32(10 + j)
			c.Stat("objstm_handmade_lookups")
			c.Case(fmt.Sprintf("osget %x %d", content, num), true)
			c.Emit(fmt.Sprintf("FIO osget %s %s %d", wire(dict), hexWire(content), num), fioImplObjStm(dict, content, num))
		}
	}
}

// fioLengthExtremes: declared lengths up to MaxInt64.  For the largest ones
// start+declared does not fit into an int64: such a length is a broken length
// (library commit bfd427f, D45) and the extent is recovered by the search for
// endstream, as for lengths which merely point past the end of the data.  A
// read error ("negative offset") instead is a violation.
func fioLengthExtremeCase(n string, indirect bool) (data []byte, lens map[uint32]int64, ok bool) {
	lens = map[uint32]int64{}
	val := n
	if indirect {
		v, err := strconv.ParseInt(n, 10, 64)
		if err != nil {
			return nil, nil, false
		}
		lens[7] = v
		val = "7 0 R"
	}
	return []byte("5 0 obj\n<</Length " + val + ">>\nstream\nabc\nendstream\nendobj\n"), lens, true
}

func fioLengthExtremes(c *Ctx) {
	for _, n := range []string{"3", "4", "99", "2147483648", "9223372036854775000", "9223372036854775700",
		"9223372036854775806", "9223372036854775807", "9223372036854775808", "-1"} {
		for _, indirect := range []bool{false, true} {
			data, lens, ok := fioLengthExtremeCase(n, indirect)
			if !ok {
				continue
			}
			c.Stat("rdobj_length_extremes")
			c.Case(fmt.Sprintf("rdobj-extreme %s %v", n, indirect), true)
			got := fioImplReadObj(data, 0, lens)
			if !strings.HasPrefix(got, "ok S ") {
				c.Violate("rdobj-extreme", "length-overflow-read-error",
					fmt.Sprintf("a stream with /Length %s (indirect: %v) and the data abc is read as %q; expected: the stream, its extent recovered", n, indirect, got),
					fmt.Sprintf("%s %v", n, indirect))
			}
			c.Emit(fmt.Sprintf("FIO rdobj %s %d %s", hexWire(data), 0, fioLensArg(lens)), got)
		}
	}
}

func replayFIOLengthExtreme(input string) (bool, string) {
	var n string
	var indirect bool
	if _, err := fmt.Sscanf(input, "%s %t", &n, &indirect); err != nil {
		return true, "bad replay input"
	}
	data, lens, ok := fioLengthExtremeCase(n, indirect)
	if !ok {
		return true, "bad replay input"
	}
	got := fioImplReadObj(data, 0, lens)
	if !strings.HasPrefix(got, "ok S ") {
		return false, fmt.Sprintf("ReadIndirectObject on %q: %s", data, got)
	}
	return true, got
}

// fioTopLevelRefs: indirect objects whose value is a reference ("a b R" behind
// an integer is completed by ReadIndirectObject itself), around its limits.
func fioTopLevelRefs(c *Ctx) {
	for _, t := range []string{"7 0 R", "7 65535 R", "7 65536 R", "7 -1 R", "7 -0 R", "7 +0 R", "-7 0 R", "16777215 0 R",
		"16777216 0 R", "7 0 Rx", "7 0 R%c\n", "7  0\nR", "7 %c\n0 R", "7 0", "7 0 obj", "7 9223372036854775808 R", "7.0 0 R"} {
		data := []byte("5 0 obj\n" + t + "\nendobj\n")
		c.Stat("rdobj_toplevel_refs")
		c.Case("rdobj-ref "+t, true)
		c.Emit(fmt.Sprintf("FIO rdobj %s %d -", hexWire(data), 0), fioImplReadObj(data, 0, nil))
	}
}

func runFIORead(c *Ctx) {
	wireNilDict = true
	fioObjStmHandmade(c, c.R.Fork(), map[bool]int{false: 120, true: 3000}[c.Thorough])
	fioLengthExtremes(c)
	fioTopLevelRefs(c)
	r := c.R.Fork()
	n := 150
	if c.Thorough {
		n = 6000
	}
	for i := 0; i < n; i++ {
		res := fioGenProg(r.Fork(), false, 0)
		if res.failedAt != -1 || len(res.file) == 0 {
			continue
		}
		file := res.file
		// the integer objects (possible /Length targets)
		lens := map[uint32]int64{}
		disk := &fioDisk{file: file, xref: map[uint32]pdf.VerifFIOEntry{}, cache: map[uint32]pdf.Object{}}
		var inUse []pdf.VerifFIOEntry
		stms := map[uint32]bool{}
		for _, e := range res.xref {
			disk.xref[e.Num] = e
			if e.InStream != 0 {
				stms[e.InStream] = true
			}
			if e.InStream == 0 && e.Pos >= 0 && e.Pos < int64(len(file)) {
				inUse = append(inUse, e)
			}
		}
		for _, e := range inUse {
			if o, err := disk.get(e.Num); err == nil {
				if v, ok := o.(pdf.Integer); ok {
					lens[e.Num] = int64(v)
				}
			}
		}
		lensArg := fioLensArg(lens)
		emit := func(data []byte, pos int) {
			if len(data) > 6000 {
				return
			}
			c.Emit(fmt.Sprintf("FIO rdobj %s %d %s", hexWire(data), pos, lensArg), fioImplReadObj(data, pos, lens))
		}
		picked := 0
		for _, k := range []int{r.Intn(len(inUse) + 1), r.Intn(len(inUse) + 1), r.Intn(len(inUse) + 1), len(inUse) - 1} {
			if k < 0 || k >= len(inUse) {
				continue
			}
			e := inUse[k]
			data := file[e.Pos:]
			c.Case(fmt.Sprintf("rdobj %x", data[:min(len(data), 64)]), bytes.Contains(data[:min(len(data), 400)], []byte("stream")))
			c.Stat("rdobj_cases")
			emit(data, int(e.Pos))
			picked++
			if len(lens) > 0 && bytes.Contains(data[:min(len(data), 400)], []byte(" 0 R")) {
				// the /Length resolver fails: with a read error (must be reported), and with a
				// malformed-file error (length unknown: the extent is recovered)
				failing := map[uint32]int64{}
				for k := range lens {
					failing[k] = fioLenReadError
				}
				c.Stat("rdobj_length_read_error")
				c.Emit(fmt.Sprintf("FIO rdobj %s %d %s", hexWire(data), int(e.Pos), fioLensArg(failing)), fioImplReadObj(data, int(e.Pos), failing))
				cut := map[uint32]int64{}
				for k := range lens {
					cut[k] = fioLenEOF
				}
				c.Stat("rdobj_length_eof")
				c.Emit(fmt.Sprintf("FIO rdobj %s %d %s", hexWire(data), int(e.Pos), fioLensArg(cut)), fioImplReadObj(data, int(e.Pos), cut))
				c.Stat("rdobj_length_malformed")
				c.Emit(fmt.Sprintf("FIO rdobj %s %d -", hexWire(data), int(e.Pos)), fioImplReadObj(data, int(e.Pos), nil))
			}
			// damaged variants
			for m := 0; m < 3; m++ {
				bad := append([]byte(nil), data...)
				switch r.Intn(7) {
				case 0: // wrong direct /Length digits
					if j := bytes.Index(bad, []byte("/Length ")); j >= 0 && j+9 < len(bad) {
						bad[j+8] = Pick(r, []byte("0123456789"))
					}
				case 1: // endstream keyword damaged
					if j := bytes.Index(bad, []byte("endstream")); j >= 0 {
						bad[j+r.Intn(9)] = 'x'
					}
				case 2: // EOL after the stream keyword
					if j := bytes.Index(bad, []byte("stream\n")); j >= 0 {
						bad[j+6] = Pick(r, []byte("\r x"))
					}
				case 3: // truncated
					bad = bad[:r.Intn(len(bad))]
				case 4: // header digits / keyword
					bad[r.Intn(min(len(bad), 10))] = Pick(r, []byte("0 9obj\nR-"))
					// Model/Scan.lean does not model strconv's range error (documented there:
					// "harness tokens stay below 300 digits"): a damaged digit of a real near
					// MaxFloat64 (309 digits) can leave the float64 range
					if fioHugeNumberAt(bad, 0, 24) {
						c.Stat("rdobj_damaged_skipped_hugenum")
						continue
					}
				case 5: // /Length removed
					bad = bytes.Replace(bad, []byte("/Length"), []byte("/Lenght"), 1)
				case 6: // CR before endstream
					bad = bytes.Replace(bad, []byte("\nendstream"), []byte(Pick(r, []string{"\r\nendstream", "\rendstream", "\n\nendstream", "endstream"})), 1)
				}
				c.Stat("rdobj_damaged")
				emit(bad, int(e.Pos))
			}
		}
		// Reader.Get on the whole file (unencrypted files: the library's reader decrypts)
		if !res.prog.encrypt && len(file) <= 6000 {
			fioEmitGets(c, r, res, file, lensArg, false)
			// the same with one object header damaged: "xref corrupted"
			if len(inUse) > 0 {
				e := inUse[r.Intn(len(inUse))]
				bad := append([]byte(nil), file...)
				if bad[e.Pos] >= '0' && bad[e.Pos] < '9' {
					bad[e.Pos]++
					res2 := *res
					res2.file = bad
					// the damaged object can no longer serve as an indirect /Length
					lens2 := map[uint32]int64{}
					for k, v := range lens {
						if k != e.Num {
							lens2[k] = v
						}
					}
					fioEmitGets(c, r, &res2, bad, fioLensArg(lens2), true)
				}
			}
		}
		// object streams of this file
		for sn := range stms {
			d, raw, err := disk.rawStream(sn)
			if err != nil || res.prog.encrypt {
				continue
			}
			content, err := fioInflate(raw)
			if err != nil {
				c.Violate("file-roundtrip", "objstm-not-inflatable", err.Error(), res.prog.String())
				continue
			}
			dict := pdf.Dict{"N": d["N"], "First": d["First"], "Type": d["Type"]}
			var members []uint32
			for _, e := range res.xref {
				if e.InStream == sn {
					members = append(members, e.Num)
				}
			}
			members = append(members, 9999)
			for _, num := range members {
				c.Stat("objstm_lookups")
				c.Case(fmt.Sprintf("osget %x %d", content, num), true)
				c.Emit(fmt.Sprintf("FIO osget %s %s %d", wire(dict), hexWire(content), num), fioImplObjStm(dict, content, num))
			}
			for m := 0; m < 4; m++ {
				bd := pdf.Dict{"N": d["N"], "First": d["First"]}
				bc := append([]byte(nil), content...)
				switch r.Intn(5) {
				case 0:
					bd["N"] = pdf.Integer(Pick(r, []int{-1, 0, 1, 2, 5, 10000, 10001}))
				case 1:
					bd["First"] = pdf.Integer(Pick(r, []int{-1, 0, 1, 3, len(content), len(content) + 5, 100000}))
				case 2:
					if len(bc) > 0 {
						bc[r.Intn(min(len(bc), 12))] = Pick(r, []byte("0 9\n-x"))
					}
				case 3:
					bc = bc[:r.Intn(len(bc)+1)]
				case 4:
					delete(bd, Pick(r, []pdf.Name{"N", "First"}))
				}
				num := Pick(r, members)
				c.Stat("objstm_damaged")
				c.Emit(fmt.Sprintf("FIO osget %s %s %d", wire(bd), hexWire(bc), num), fioImplObjStm(bd, bc, num))
			}
		}
	}
	_ = io.EOF
}

// fioHugeNumberAt reports whether a run of at least 300 digits starts within data[from:to].
func fioHugeNumberAt(data []byte, from, to int) bool {
	for i := from; i < to && i < len(data); i++ {
		if data[i] < '0' || data[i] > '9' {
			continue
		}
		j := i
		for j < len(data) && data[j] >= '0' && data[j] <= '9' {
			j++
		}
		if j-i >= 300 {
			return true
		}
		i = j
	}
	return false
}

package main

import (
	"bytes"
	"fmt"
	"regexp"
	"strconv"
	"strings"
	"unicode/utf16"

	"seehuhn.de/go/pdf"
	"seehuhn.de/go/pdf/font/charcode"
	"seehuhn.de/go/pdf/font/cmap"
	"seehuhn.de/go/postscript/cid"
)

// C13 — the stream TEXT the two writers produce (begin...end blocks, the single-destination bfrange
// form) and ToUnicodeFile.GetMapping over parent chains.
//
// (A1) code spaces of 99...256 ranges which cannot be merged: SetMapping / NewToUnicodeFile, Embed,
//      Extract.  The CMap format allows at most 100 entries per begin...end block and the reader
//      enforces it.  Class key codespace-block-over-100.  The block sizes found in the stream text
//      are compared with the model (`CC blocks`, `CC tublocks`; theorem chunks_spec).
// (A2) runs of codes whose texts are consecutive as runes and cross a multiple of 256: the
//      single-destination form `<first> <last> <dst>` increments the LAST BYTE of the UTF-16BE
//      string (ISO 32000-2, 9.10.3), which must not exceed 255; a reader that follows the
//      standard must recover the texts.  Class key bfrange-last-byte-overflow (theorem
//      compact_bfrange_agrees; Spec/CCToUnicode.lean).
// (A3) 60...140 array-valued bfrange entries of 2...256 strings: entry k of a block with an
//      m-element array needs 3k+3+m operand stack slots in a PostScript reader (500 in
//      seehuhn.de/go/postscript, and in the PLRM's typical limits).  Class key
//      bfrange-array-block-stack-overflow (theorem tuRangeChunks_spec).
// (A5) ToUnicode chains whose levels have different code spaces: GetMapping against Lookup on
//      every entry of every level, both directions, before Embed and after Extract.  Class key
//      tu-getmapping-ignores-parent-codespace (`CC tugetmap`, theorem isCodeOf_tuChain).
// (A4) not a C13 oracle, a model tie only: a stream whose /UseCMap names an unknown CMap is read
//      without a parent (`CC useres name other` = none; the unknown name is a MalformedFileError
//      which Extract tolerates, since 34bbc85; before that the whole extraction failed).

func init() {
	addRun("C13", "the stream text of the CMap and ToUnicode writers: code spaces of 99-256 unmergeable ranges and maps of 100-300 isolated entries (every begin...end block must have at most 100 entries and the declared count, the file must read back), ToUnicode runs whose texts cross a multiple of 256 (BMP, CJK, astral, U+FFFF to U+10000, with and without a common prefix; the single-destination bfrange form must satisfy ISO 32000-2 9.10.3 and a reader incrementing the last byte must recover every text), 60-140 array-valued bfrange entries of up to 256 strings (3k+3+m operand stack slots per entry, at most 500), ToUnicode parent chains with a different code space on every level (GetMapping against Lookup for every entry of every level, both directions, before Embed and after Extract). A case is one map or chain; always non-trivial; distinct by wire form.", runC13Audit)
	for _, o := range []string{"codespace-block-over-100", "bfrange-last-byte-overflow", "bfrange-array-block-stack-overflow", "tu-getmapping-ignores-parent-codespace", "cmap-block-structure"} {
		addReplay("C13", o, replayC13Audit)
	}
}

// ---- the stream text ----

var cmBeginRE = regexp.MustCompile(`^(\d+) begin(codespacerange|cidchar|cidrange|notdefchar|notdefrange|bfchar|bfrange)$`)

type cmBlock struct {
	kind     string
	declared int
	entries  []string
}

// cmParseBlocks finds the begin...end blocks of a CMap stream written by the library (one entry
// per line).
func cmParseBlocks(text string) (blocks []cmBlock, problems []string) {
	var cur *cmBlock
	for _, line := range strings.Split(text, "\n") {
		line = strings.TrimSpace(line)
		if cur == nil {
			if m := cmBeginRE.FindStringSubmatch(line); m != nil {
				n, _ := strconv.Atoi(m[1])
				cur = &cmBlock{kind: m[2], declared: n}
			}
			continue
		}
		if line == "end"+cur.kind {
			if cur.declared != len(cur.entries) {
				problems = append(problems, fmt.Sprintf("block `%d begin%s` has %d entries", cur.declared, cur.kind, len(cur.entries)))
			}
			blocks = append(blocks, *cur)
			cur = nil
			continue
		}
		if line != "" {
			cur.entries = append(cur.entries, line)
		}
	}
	if cur != nil {
		problems = append(problems, "block begin"+cur.kind+" is not closed")
	}
	return
}

func cmBlockSizesWire(blocks []cmBlock, kinds []string) string {
	parts := make([]string, len(kinds))
	for i, k := range kinds {
		var xs []string
		for _, b := range blocks {
			if b.kind == k {
				xs = append(xs, strconv.Itoa(len(b.entries)))
			}
		}
		if len(xs) == 0 {
			parts[i] = "_"
		} else {
			parts[i] = strings.Join(xs, ",")
		}
	}
	return strings.Join(parts, "|")
}

// cmBlockViolations: the rules of the CMap format on the written text: at most 100 entries per
// block, declared count = number of entries, and (bfrange) at most 500 operand stack slots.
func cmBlockViolations(blocks []cmBlock, problems []string) (viol []cmViol) {
	for _, p := range problems {
		viol = append(viol, cmViol{"cmap-block-structure", p})
	}
	for _, b := range blocks {
		if len(b.entries) > 100 || b.declared > 100 {
			key := "cmap-block-structure"
			if b.kind == "codespacerange" {
				key = "codespace-block-over-100"
			}
			viol = append(viol, cmViol{key, fmt.Sprintf("the stream contains `%d begin%s` (%d entries); the CMap format allows at most 100 entries per block", b.declared, b.kind, len(b.entries))})
		}
		if b.kind == "bfrange" {
			for k, e := range b.entries {
				m := 0
				if i := strings.IndexByte(e, '['); i >= 0 {
					m = 1 + strings.Count(e[i:], "<") // the mark and the elements
				}
				if need := 3*k + 2 + m; m > 0 && need > 500 || 3*k+3 > 500 {
					viol = append(viol, cmViol{"bfrange-array-block-stack-overflow", fmt.Sprintf("entry %d of a `%d beginbfrange` block has an array of %d strings: a PostScript reader needs %d operand stack slots (3 per earlier entry, 2 codes, mark, elements), more than 500", k, b.declared, m-1, need)})
					break
				}
			}
		}
	}
	return
}

func cmStreamText(rd *pdf.Reader, obj pdf.Object) (string, error) {
	stm, err := pdf.NewCursor(rd).Stream(obj)
	if err != nil {
		return "", err
	}
	if stm == nil {
		return "", fmt.Errorf("no stream")
	}
	body, err := pdf.ReadAll(rd, nil, stm, 1<<28)
	return string(body), err
}

// ---- (A2) the single-destination bfrange form under ISO 32000-2, 9.10.3 ----

// cmTUSpecCheck: for every range of a file built by NewToUnicodeFile that has ONE destination
// string for several codes, the last byte of the UTF-16BE destination plus the number of further
// codes must not exceed 255, and incrementing that byte must give the text the library itself
// reads (which the tu-lookup oracle compares with the map).
func cmTUSpecCheck(f *cmap.ToUnicodeFile) (descs []string) {
	for _, rg := range f.Ranges {
		n := len(rg.First)
		if len(rg.Values) != 1 || n == 0 || len(rg.Last) != n || !bytes.Equal(rg.First[:n-1], rg.Last[:n-1]) || rg.Last[n-1] <= rg.First[n-1] {
			continue
		}
		more := int(rg.Last[n-1]) - int(rg.First[n-1])
		u := utf16.Encode([]rune(rg.Values[0]))
		if len(u) == 0 {
			descs = append(descs, fmt.Sprintf("bfrange <%x> <%x> has an empty destination string for %d codes", rg.First, rg.Last, more+1))
			continue
		}
		last := int(u[len(u)-1] & 0xff)
		if last+more > 255 {
			descs = append(descs, fmt.Sprintf("bfrange <%x> <%x> <%04x>: last byte 0x%02x + %d exceeds 0xff (ISO 32000-2 9.10.3: result undefined)", rg.First, rg.Last, u, last, more))
			continue
		}
		for j := 0; j <= more; j++ {
			code := append([]byte{}, rg.First...)
			code[n-1] += byte(j)
			v := append([]uint16{}, u...)
			v[len(v)-1] += uint16(j)
			spec := string(utf16.Decode(v))
			own, ok := f.Lookup(code)
			if !ok || own != spec {
				descs = append(descs, fmt.Sprintf("bfrange <%x> <%x> <%04x>: code <%x> is %s for a reader following 9.10.3, the library reads %s", rg.First, rg.Last, u, code, cmTextWire(spec), cmTextWire(own)))
				break
			}
		}
	}
	return
}

// ---- code spaces with many ranges ----

// cmManyRanges: n ranges no two of which can be merged.
func cmManyRanges(r *Rand, n int) charcode.CodeSpaceRange {
	var csr charcode.CodeSpaceRange
	if n <= 128 && r.Bool() {
		// one-byte codes <00>, <02>, ...
		for i := 0; i < n; i++ {
			csr = append(csr, charcode.Range{Low: []byte{byte(2 * i)}, High: []byte{byte(2 * i)}})
		}
		return csr
	}
	// two-byte codes: first byte h, second byte in a range of its own
	perm := make([]int, 256)
	for i := range perm {
		perm[i] = i
	}
	for i := 255; i > 0; i-- {
		j := r.Intn(i + 1)
		perm[i], perm[j] = perm[j], perm[i]
	}
	for i := 0; i < n && i < 256; i++ {
		h := byte(perm[i])
		lo := byte(i % 120)
		hi := lo + byte(1+(i*7)%100)
		csr = append(csr, charcode.Range{Low: []byte{h, lo}, High: []byte{h, hi}})
	}
	return csr
}

var cmManyCounts = []int{99, 100, 101, 102, 128, 150, 199, 200, 201, 256}

func cmAuditOpt(r *Rand) cmWriteOpt { return Pick(r, cmOptsAll) }

// cmCaseBlocksCID: (A1) for File.
func cmCaseBlocksCID(c *Ctx, r *Rand, nRanges int, emit bool) (key string, viol []cmViol) {
	bad := func(o, d string) { viol = append(viol, cmViol{o, d}) }
	defer func() {
		if p := recover(); p != nil {
			bad("c13-no-panic", fmt.Sprintf("panic: %v", p))
		}
	}()
	if nRanges == 0 {
		nRanges = Pick(r, cmManyCounts)
	}
	csr := cmManyRanges(r, nRanges)
	codec, err := charcode.NewCodec(csr)
	if err != nil {
		return "blocks-cid invalid", nil
	}
	// isolated codes (singles) and a few runs (ranges)
	data := map[charcode.Code]cid.CID{}
	var codes [][]byte
	nCodes := Pick(r, []int{3, 40, 101, 250})
	for i := 0; i < nCodes; i++ {
		rg := csr[(i*37+r.Intn(3))%len(csr)]
		b := append([]byte{}, rg.Low...)
		if code, ok := cmCodeOf(codec, b); ok {
			if _, dup := data[code]; !dup {
				data[code] = cid.CID(1 + (i*7919)%60000)
				codes = append(codes, b)
			}
		}
	}
	f := &cmap.File{Name: "Verif-Blocks", ROS: cmROS}
	f.SetMapping(codec, data)
	key = fmt.Sprintf("blocks-cid %s %s", ccCSRWire(csr), cmDataWire(data))
	tag := fmt.Sprintf("%d code space ranges, %d mappings", len(f.CodeSpaceRange), len(data))
	over := "embed-extract"
	if len(f.CodeSpaceRange) > 100 {
		over = "codespace-block-over-100"
	}
	for code, want := range data {
		b := codec.AppendCode(nil, code)
		if got := f.LookupCID(b); got != want {
			bad("lookup-mapped", fmt.Sprintf("%s: LookupCID(%x) = %d, want %d", tag, b, got, want))
			break
		}
	}

	// the text
	var buf bytes.Buffer
	pretty := r.Bool()
	if err := f.WriteTo(&buf, pretty); err != nil {
		bad(over, fmt.Sprintf("%s: WriteTo: %v", tag, err))
	} else {
		blocks, problems := cmParseBlocks(buf.String())
		viol = append(viol, cmBlockViolations(blocks, problems)...)
		if c != nil && emit {
			c.Emit(fmt.Sprintf("CC blocks %d %d %d %d %d", len(f.CodeSpaceRange), len(f.CIDSingles), len(f.CIDRanges), len(f.NotdefSingles), len(f.NotdefRanges)),
				"ok "+cmBlockSizesWire(blocks, []string{"codespacerange", "cidchar", "cidrange", "notdefchar", "notdefrange"}))
		}
	}

	// the file
	o := cmAuditOpt(r)
	rd, obj, err := cmRoundTripFile(o, f)
	if err != nil {
		bad(over, fmt.Sprintf("%s %v: %v", tag, o, err))
		return
	}
	g, err := cmap.Extract(pdf.NewCursor(rd), obj, false)
	if err != nil {
		bad(over, fmt.Sprintf("%s %v: the CMap written by Embed cannot be read back: %v", tag, o, err))
		return
	}
	if !cmCSREq(f.CodeSpaceRange, g.CodeSpaceRange) {
		bad(over, fmt.Sprintf("%s %v: the code space changed in the round trip (%d ranges read)", tag, o, len(g.CodeSpaceRange)))
	}
	if d := cmFileDiff(f, g); d != "" {
		bad("embed-extract", fmt.Sprintf("%s %v: %s", tag, o, d))
	}
	for code, want := range data {
		b := codec.AppendCode(nil, code)
		if got := g.LookupCID(b); got != want {
			bad("embed-extract", fmt.Sprintf("%s %v: after the round trip LookupCID(%x) = %d, want %d", tag, o, b, got, want))
			break
		}
	}
	if c != nil {
		c.Stat("audit_blocks_cid")
		if len(f.CodeSpaceRange) > 100 {
			c.Stat("audit_csr_over_100")
		}
	}
	return
}

// cmCaseBlocksTU: (A1) for ToUnicodeFile.
func cmCaseBlocksTU(c *Ctx, r *Rand, nRanges int, emit bool) (key string, viol []cmViol) {
	bad := func(o, d string) { viol = append(viol, cmViol{o, d}) }
	defer func() {
		if p := recover(); p != nil {
			bad("c13-no-panic", fmt.Sprintf("panic: %v", p))
		}
	}()
	if nRanges == 0 {
		nRanges = Pick(r, cmManyCounts)
	}
	csr := cmManyRanges(r, nRanges)
	codec, err := charcode.NewCodec(csr)
	if err != nil {
		return "blocks-tu invalid", nil
	}
	data := map[charcode.Code]string{}
	nCodes := Pick(r, []int{3, 40, 101, 250})
	for i := 0; i < nCodes; i++ {
		rg := csr[(i*37+r.Intn(3))%len(csr)]
		if code, ok := cmCodeOf(codec, rg.Low); ok {
			data[code] = string(rune(0x4e00 + (i*131)%20000))
		}
	}
	f, err, p := cmNewTU(csr, data)
	if p != nil || err != nil {
		bad("c13-no-panic", fmt.Sprintf("NewToUnicodeFile: err=%v panic=%v", err, p))
		return "panic", viol
	}
	key = fmt.Sprintf("blocks-tu %s %s", ccCSRWire(csr), cmTDataWire(data))
	viol = append(viol, cmCheckTUText(c, r, f, data, codec, fmt.Sprintf("%d code space ranges, %d mappings", len(f.CodeSpaceRange), len(data)), emit)...)
	if c != nil {
		c.Stat("audit_blocks_tu")
	}
	return
}

// cmCheckTUText: Embed into a real file, look at the stream text (block rules, model block
// sizes), Extract, compare with the map.
func cmCheckTUText(c *Ctx, r *Rand, f *cmap.ToUnicodeFile, data map[charcode.Code]string, codec *charcode.Codec, tag string, emit bool) (viol []cmViol) {
	bad := func(o, d string) { viol = append(viol, cmViol{o, d}) }
	over := "tu-embed-extract"
	if len(f.CodeSpaceRange) > 100 {
		over = "codespace-block-over-100"
	}
	o := cmAuditOpt(r)
	rd, obj, err := cmRoundTripFile(o, f)
	if err != nil {
		bad(over, fmt.Sprintf("%s %v: %v", tag, o, err))
		return
	}
	stackProblem := false
	text, err := cmStreamText(rd, obj)
	if err != nil {
		bad("tu-embed-extract", fmt.Sprintf("%s %v: cannot read the stream: %v", tag, o, err))
	} else {
		blocks, problems := cmParseBlocks(text)
		bv := cmBlockViolations(blocks, problems)
		for _, v := range bv {
			if v.oracle == "bfrange-array-block-stack-overflow" {
				stackProblem = true
			}
		}
		viol = append(viol, bv...)
		if c != nil && emit {
			lens := make([]string, len(f.Ranges))
			for i, rg := range f.Ranges {
				lens[i] = strconv.Itoa(len(rg.Values))
			}
			lw := "_"
			if len(lens) > 0 {
				lw = strings.Join(lens, "/")
			}
			c.Emit(fmt.Sprintf("CC tublocks %d %d %s", len(f.CodeSpaceRange), len(f.Singles), lw),
				"ok "+cmBlockSizesWire(blocks, []string{"codespacerange", "bfchar", "bfrange"}))
		}
	}
	g, err := cmap.ExtractToUnicode(pdf.NewCursor(rd), obj, false)
	if err != nil {
		k := over
		if stackProblem || strings.Contains(err.Error(), "stackoverflow") {
			k = "bfrange-array-block-stack-overflow"
		}
		bad(k, fmt.Sprintf("%s %v: the ToUnicode CMap written by Embed cannot be read back: %v", tag, o, err))
		return
	}
	if !cmCSREq(f.CodeSpaceRange, g.CodeSpaceRange) {
		bad(over, fmt.Sprintf("%s %v: the code space changed in the round trip (%d ranges read)", tag, o, len(g.CodeSpaceRange)))
	}
	if d := cmTUFileEq(f, g); d != "" {
		bad("tu-embed-extract", fmt.Sprintf("%s %v: %s", tag, o, d))
	}
	for _, d := range cmTUSpecCheck(g) {
		bad("bfrange-last-byte-overflow", fmt.Sprintf("%s %v, read back: %s", tag, o, d))
	}
	n := 0
	for code, want := range data {
		b := codec.AppendCode(nil, code)
		if got, ok := g.Lookup(b); !ok || got != want {
			bad("tu-embed-extract", fmt.Sprintf("%s %v: after the round trip Lookup(%x) = (%s,%v), want %s", tag, o, b, cmTextWire(got), ok, cmTextWire(want)))
			break
		}
		if n++; n > 3000 {
			break
		}
	}
	return
}

// ---- (A2) runs crossing a multiple of 256 ----

var cmCrossBases = []rune{0x0000, 0x0100, 0x0300, 0x4e00, 0x4f00, 0xd600, 0xe000, 0xfe00, 0xff00, 0x10000, 0x1f600, 0x1f700, 0x10fe00, 0x10ff00}

func cmValidRune(x rune) bool { return x >= 0 && x <= 0x10ffff && !(x >= 0xd800 && x <= 0xdfff) }

func cmCaseBfrange(c *Ctx, r *Rand, emit bool) (key string, viol []cmViol) {
	bad := func(o, d string) { viol = append(viol, cmViol{o, d}) }
	defer func() {
		if p := recover(); p != nil {
			bad("c13-no-panic", fmt.Sprintf("panic: %v", p))
		}
	}()
	csr := charcode.Simple
	two := r.Bool()
	if two {
		csr = charcode.UCS2
	}
	codec, err := charcode.NewCodec(csr)
	if err != nil {
		panic(err)
	}
	data := map[charcode.Code]string{}
	nRuns := 1 + r.Intn(4)
	for i := 0; i < nRuns; i++ {
		L := 2 + r.Intn(6)
		if r.P(1, 4) {
			L = 2 + r.Intn(60)
		}
		// the last byte of the first code
		s := r.Intn(256 - L + 1)
		// the first text: low byte chosen around the point where low + (L-1) passes 255
		low := 0
		switch r.Intn(5) {
		case 0:
			low = 256 - L // exactly fits: last value has low byte 0xff
		case 1:
			low = 256 - L + 1 // overflows by one
		case 2:
			low = 255 // overflows at once
		case 3:
			low = 256 - 1 - r.Intn(L) // somewhere inside
		default:
			low = r.Intn(256)
		}
		if low < 0 {
			low = 0
		}
		first := Pick(r, cmCrossBases) + rune(low)
		prefix := ""
		if r.P(1, 3) {
			prefix = string(Pick(r, cmRunes))
			if r.P(1, 3) {
				prefix += string(Pick(r, cmRunes))
			}
		}
		hi := byte(r.Intn(256))
		for j := 0; j < L; j++ {
			x := first + rune(j)
			if !cmValidRune(x) {
				break
			}
			b := []byte{byte(s + j)}
			if two {
				b = []byte{hi, byte(s + j)}
			}
			if code, ok := cmCodeOf(codec, b); ok {
				data[code] = prefix + string(x)
			}
		}
	}
	dw := cmTDataWire(data)
	key = "bfrange " + ccCSRWire(csr) + " " + dw
	f, err, p := cmNewTU(csr, data)
	if p != nil || err != nil {
		bad("c13-no-panic", fmt.Sprintf("NewToUnicodeFile: err=%v panic=%v", err, p))
		return
	}
	if c != nil && emit {
		c.Emit("CC tunew "+ccCSRWire(csr)+" "+dw, "ok "+cmTUFileWire(f))
	}
	for _, d := range cmTUSpecCheck(f) {
		bad("bfrange-last-byte-overflow", d)
	}
	for code, want := range data {
		b := codec.AppendCode(nil, code)
		if got, ok := f.Lookup(b); !ok || got != want {
			bad("tu-lookup", fmt.Sprintf("Lookup(%x) = (%s,%v), want %s", b, cmTextWire(got), ok, cmTextWire(want)))
			break
		}
	}
	viol = append(viol, cmCheckTUText(c, r, f, data, codec, "runs crossing a multiple of 256", emit && len(data) < 40)...)
	if c != nil {
		c.Stat("audit_bfrange_cases")
		for _, rg := range f.Ranges {
			if len(rg.Values) == 1 {
				c.Stat("audit_bfrange_compact")
			} else {
				c.Stat("audit_bfrange_list")
			}
		}
	}
	return
}

// ---- (A3) many array-valued entries ----

func cmCaseArrays(c *Ctx, r *Rand, shape int, emit bool) (key string, viol []cmViol) {
	bad := func(o, d string) { viol = append(viol, cmViol{o, d}) }
	defer func() {
		if p := recover(); p != nil {
			bad("c13-no-panic", fmt.Sprintf("panic: %v", p))
		}
	}()
	codec, err := charcode.NewCodec(charcode.UCS2)
	if err != nil {
		panic(err)
	}
	// K entries; entry i covers <hi 00>..<hi m-1> with texts in descending order (never consecutive)
	K := shape
	fixedLen := 256
	if K == 0 {
		K = 60 + r.Intn(81)
		fixedLen = 0
	}
	lens := make([]int, K)
	data := map[charcode.Code]string{}
	for hi := 0; hi < K; hi++ {
		m := fixedLen
		if m == 0 {
			m = Pick(r, []int{2, 3, 50, 128, 200, 255, 256, 256})
		}
		lens[hi] = m
		for lo := 0; lo < m; lo++ {
			code, ok := cmCodeOf(codec, []byte{byte(hi), byte(lo)})
			if !ok {
				panic("UCS2 code")
			}
			data[code] = string(rune(0x4e00 + hi*256 + (255 - lo)))
		}
	}
	ls := make([]string, K)
	for i, m := range lens {
		ls[i] = strconv.Itoa(m)
	}
	key = "arrays " + strings.Join(ls, "/")
	f, err, p := cmNewTU(charcode.UCS2, data)
	if p != nil || err != nil {
		bad("c13-no-panic", fmt.Sprintf("NewToUnicodeFile: err=%v panic=%v", err, p))
		return
	}
	arr := 0
	for _, rg := range f.Ranges {
		if len(rg.Values) > 1 {
			arr++
		}
	}
	if arr != K {
		bad("tu-all", fmt.Sprintf("%d descending runs give %d array-valued ranges", K, arr))
	}
	m, err := f.GetMapping()
	if err != nil || len(m) != len(data) {
		bad("tu-all", fmt.Sprintf("GetMapping: %d entries (err=%v), the map has %d", len(m), err, len(data)))
	}
	viol = append(viol, cmCheckTUText(c, r, f, data, codec, fmt.Sprintf("%d array-valued bfrange entries (%d codes)", K, len(data)), emit)...)
	if c != nil {
		c.Stat("audit_array_cases")
	}
	return
}

// ---- (A5) GetMapping over chains with different code spaces ----

func cmTUUnion(f *cmap.ToUnicodeFile) charcode.CodeSpaceRange {
	var u charcode.CodeSpaceRange
	for g := f; g != nil; g = g.Parent {
		u = append(u, g.CodeSpaceRange...)
	}
	return u
}

// cmTUEntryCodes: the codes the entries of one level cover (ranges built by NewToUnicodeFile
// vary in the last byte only).
func cmTUEntryCodes(g *cmap.ToUnicodeFile) (codes [][]byte) {
	for _, s := range g.Singles {
		codes = append(codes, s.Code)
	}
	for _, rg := range g.Ranges {
		n := len(rg.First)
		if n == 0 || len(rg.Last) != n || !bytes.Equal(rg.First[:n-1], rg.Last[:n-1]) {
			continue
		}
		for x := int(rg.First[n-1]); x <= int(rg.Last[n-1]); x++ {
			b := append([]byte{}, rg.First...)
			b[n-1] = byte(x)
			codes = append(codes, b)
		}
	}
	return
}

func cmGetMappingSafe(f *cmap.ToUnicodeFile) (m map[charcode.Code]string, err error, p any) {
	defer func() { p = recover() }()
	m, err = f.GetMapping()
	return
}

func cmCheckGetMapping(c *Ctx, f *cmap.ToUnicodeFile, tag string, emit bool) (viol []cmViol) {
	bad := func(o, d string) { viol = append(viol, cmViol{o, d}) }
	union := cmTUUnion(f)
	uc, uerr := charcode.NewCodec(union)
	m, err, p := cmGetMappingSafe(f)
	if p != nil {
		bad("c13-no-panic", fmt.Sprintf("%s: GetMapping panics: %v", tag, p))
		return
	}
	if uerr != nil {
		// the levels conflict: there is no code numbering for the chain
		if c != nil {
			c.Stat("audit_getmapping_conflicting_levels")
		}
		return
	}
	if err != nil {
		bad("tu-getmapping-ignores-parent-codespace", fmt.Sprintf("%s: the union of the levels' code spaces is a valid code space, GetMapping fails: %v", tag, err))
		return
	}
	if c != nil && emit {
		c.Emit("CC tugetmap "+cmTUChainWire(f), "ok "+cmTDataWire(m))
	}
	for g := f; g != nil; g = g.Parent {
		for _, b := range cmTUEntryCodes(g) {
			want, ok := f.Lookup(b)
			code, isCode := cmCodeOf(uc, b)
			if !ok || !isCode {
				continue // (entries outside every code space, or hidden: not this oracle's business)
			}
			if got, present := m[code]; !present || got != want {
				bad("tu-getmapping-ignores-parent-codespace", fmt.Sprintf("%s: Lookup(%x) = %s, GetMapping gives %s (present=%v) for that code", tag, b, cmTextWire(want), cmTextWire(got), present))
				return
			}
		}
	}
	for code, t := range m {
		b := uc.AppendCode(nil, code)
		if got, ok := f.Lookup(b); !ok || got != t {
			bad("tu-getmapping-ignores-parent-codespace", fmt.Sprintf("%s: GetMapping has code %d (<%x>) -> %s, Lookup gives (%s,%v)", tag, code, b, cmTextWire(t), cmTextWire(got), ok))
			return
		}
	}
	return
}

func cmCaseTUChain(c *Ctx, r *Rand, emit bool) (key string, viol []cmViol) {
	bad := func(o, d string) { viol = append(viol, cmViol{o, d}) }
	defer func() {
		if p := recover(); p != nil {
			bad("c13-no-panic", fmt.Sprintf("panic: %v", p))
		}
	}()
	depth := 2 + r.Intn(2)
	var f *cmap.ToUnicodeFile
	var parts []string
	for level := 0; level < depth; level++ {
		csr := Pick(r, cmLevelSpaces)
		if r.P(1, 6) && f != nil {
			csr = f.CodeSpaceRange // the same code space as the parent
		}
		codec, err := charcode.NewCodec(csr)
		if err != nil {
			panic(err)
		}
		codes := cmGenCodes(r, codec, csr, 1+r.Intn(4))
		data := cmGenTextMap(r, codec, codes)
		g, err, p := cmNewTU(csr, data)
		if p != nil || err != nil {
			bad("c13-no-panic", fmt.Sprintf("NewToUnicodeFile: err=%v panic=%v", err, p))
			return "panic", viol
		}
		g.Parent = f
		f = g
		parts = append(parts, ccCSRWire(csr)+" "+cmTDataWire(data))
	}
	key = "tuchain " + strings.Join(parts, " / ")
	viol = append(viol, cmCheckGetMapping(c, f, "built", emit)...)
	o := cmAuditOpt(r)
	rd, obj, err := cmRoundTripFile(o, f)
	if err != nil {
		bad("tu-embed-extract", fmt.Sprintf("%v: %v", o, err))
		return
	}
	g, err := cmap.ExtractToUnicode(pdf.NewCursor(rd), obj, false)
	if err != nil {
		bad("tu-embed-extract", fmt.Sprintf("%v: ExtractToUnicode: %v", o, err))
		return
	}
	if a, b := cmTUChainWire(f), cmTUChainWire(g); a != b {
		// (the reader sorts entries; compare level by level)
		x, y := f, g
		for x != nil && y != nil {
			if d := cmTUFileEq(x, y); d != "" {
				bad("tu-embed-extract", fmt.Sprintf("%v: %s", o, d))
				break
			}
			x, y = x.Parent, y.Parent
		}
		if (x == nil) != (y == nil) {
			bad("tu-embed-extract", fmt.Sprintf("%v: the chain has another depth after the round trip", o))
		}
	}
	viol = append(viol, cmCheckGetMapping(c, g, "extracted "+o.String(), false)...)
	if c != nil {
		c.Stat("audit_tuchain_cases")
	}
	return
}

// ---- (A4) /UseCMap with an unknown name: model tie ----

func cmUnknownUseCMap(c *Ctx) {
	child := &cmap.File{Name: "Verif-Child", ROS: cmROS, Parent: &cmap.File{Name: "NoSuchCMap-Verif", ROS: cmROS},
		CodeSpaceRange: charcode.CodeSpaceRange{{Low: []byte{0}, High: []byte{0xff}}},
		CIDSingles:     []cmap.Single{{Code: []byte{0x41}, Value: 7}}}
	buf := &bytes.Buffer{}
	w, err := pdf.NewWriter(buf, pdf.V1_7, nil)
	if err != nil {
		return
	}
	ref := w.Alloc()
	stm, err := w.OpenStream(ref, pdf.Dict{"Type": pdf.Name("CMap"), "CMapName": pdf.Name(child.Name), "UseCMap": pdf.Name("NoSuchCMap-Verif")})
	if err != nil {
		return
	}
	if err := child.WriteTo(stm, true); err != nil {
		return
	}
	if err := stm.Close(); err != nil {
		return
	}
	pages := w.Alloc()
	w.Put(pages, pdf.Dict{"Type": pdf.Name("Pages"), "Kids": pdf.Array{}, "Count": pdf.Integer(0)})
	w.GetMeta().Catalog.Pages = pages
	if err := w.Close(); err != nil {
		return
	}
	rd, err := pdf.NewReader(bytes.NewReader(buf.Bytes()), int64(buf.Len()), nil)
	if err != nil {
		return
	}
	g, err := cmap.Extract(pdf.NewCursor(rd), ref, false)
	res := "error"
	if err == nil {
		res = cmResolved(g)
	}
	c.Emit("CC useres name other", "ok "+res)
	c.Stat("audit_unknown_usecmap_" + res)
}

// ---- the auditors' witnesses, on every run ----

func cmAuditFixed(c *Ctx) (viol []cmViol) {
	r := &Rand{s: 12345}
	for _, n := range []int{100, 101} {
		_, v := cmCaseBlocksCID(c, r, n, c != nil)
		viol = append(viol, v...)
		_, v = cmCaseBlocksTU(c, r, n, c != nil)
		viol = append(viol, v...)
	}
	codec, _ := charcode.NewCodec(charcode.Simple)
	for _, data := range []map[charcode.Code]string{
		{0x20: "ÿ", 0x21: "Ā", 0x22: "ā"},
		{0x10: "仾", 0x11: "仿", 0x12: "伀", 0x13: "企"},
		{0x30: "\U0001F6FE", 0x31: "\U0001F6FF", 0x32: "\U0001F700"},
		{0x40: "￿", 0x41: "\U00010000"},
		{0x50: "ý", 0x51: "þ", 0x52: "ÿ"},
	} {
		f, err, p := cmNewTU(charcode.Simple, data)
		if err != nil || p != nil {
			viol = append(viol, cmViol{"c13-no-panic", fmt.Sprintf("NewToUnicodeFile: err=%v panic=%v", err, p)})
			continue
		}
		if c != nil {
			c.Emit("CC tunew "+ccCSRWire(charcode.Simple)+" "+cmTDataWire(data), "ok "+cmTUFileWire(f))
		}
		for _, d := range cmTUSpecCheck(f) {
			viol = append(viol, cmViol{"bfrange-last-byte-overflow", d})
		}
		viol = append(viol, cmCheckTUText(c, r, f, data, codec, "witness", c != nil)...)
	}
	for _, k := range []int{81, 82, 100} {
		_, v := cmCaseArrays(c, r, k, c != nil)
		viol = append(viol, v...)
	}
	// finding 5
	low := charcode.CodeSpaceRange{{Low: []byte{0x00}, High: []byte{0x7f}}}
	high := charcode.CodeSpaceRange{{Low: []byte{0x80}, High: []byte{0xff}}}
	parent, err1, _ := cmNewTU(low, map[charcode.Code]string{0x41: "A", 0x42: "B"})
	child, err2, _ := cmNewTU(high, map[charcode.Code]string{0x80: "€"})
	if err1 == nil && err2 == nil && parent != nil && child != nil {
		child.Parent = parent
		viol = append(viol, cmCheckGetMapping(c, child, "witness", c != nil)...)
	}
	if c != nil {
		cmUnknownUseCMap(c)
	}
	return
}

func replayC13Audit(input string) (bool, string) {
	parts := strings.Fields(input)
	if len(parts) != 2 {
		return true, "bad replay input"
	}
	st, err := strconv.ParseUint(parts[1], 10, 64)
	if err != nil {
		return true, "bad replay input"
	}
	var viol []cmViol
	switch parts[0] {
	case "afixed":
		viol = cmAuditFixed(nil)
	case "ablockscid":
		_, viol = cmCaseBlocksCID(nil, &Rand{s: st}, 0, false)
	case "ablockstu":
		_, viol = cmCaseBlocksTU(nil, &Rand{s: st}, 0, false)
	case "abfrange":
		_, viol = cmCaseBfrange(nil, &Rand{s: st}, false)
	case "aarrays":
		_, viol = cmCaseArrays(nil, &Rand{s: st}, 0, false)
	case "atuchain":
		_, viol = cmCaseTUChain(nil, &Rand{s: st}, false)
	}
	if len(viol) == 0 {
		return true, "all writer-text / GetMapping oracles hold for case " + input
	}
	var sb strings.Builder
	for i, v := range viol {
		if i < 5 {
			sb.WriteString(v.oracle + ": " + v.desc + "\n")
		}
	}
	return false, sb.String()
}

func cmAuditOracle(key string) string {
	switch key {
	case "codespace-block-over-100", "bfrange-last-byte-overflow", "bfrange-array-block-stack-overflow", "tu-getmapping-ignores-parent-codespace", "cmap-block-structure":
		return key
	}
	return "cmap-block-structure" // (other keys raised inside these cases are replayed by the same generator)
}

func runC13Audit(c *Ctx) {
	r := c.R
	report := func(viol []cmViol, replay string) {
		for _, v := range viol {
			c.Violate(cmAuditOracle(v.oracle), v.oracle, v.desc, replay)
		}
	}
	report(cmAuditFixed(c), "afixed 0")
	nBlocks, nBf, nArr, nChain := 12, 300, 4, 250
	if c.Thorough {
		nBlocks, nBf, nArr, nChain = 200, 6000, 40, 5000
	}
	one := func(kind string, n int, f func(rr *Rand, i int) (string, []cmViol)) {
		for i := 0; i < n; i++ {
			rr := r.Fork()
			st := rr.s
			key, viol := f(rr, i)
			c.Case(key, true)
			report(viol, kind+" "+strconv.FormatUint(st, 10))
			if i < 1 {
				c.Sample(truncate(key))
			}
		}
	}
	one("ablockscid", nBlocks, func(rr *Rand, i int) (string, []cmViol) { return cmCaseBlocksCID(c, rr, 0, true) })
	one("ablockstu", nBlocks, func(rr *Rand, i int) (string, []cmViol) { return cmCaseBlocksTU(c, rr, 0, true) })
	one("abfrange", nBf, func(rr *Rand, i int) (string, []cmViol) { return cmCaseBfrange(c, rr, i%2 == 0) })
	one("aarrays", nArr, func(rr *Rand, i int) (string, []cmViol) { return cmCaseArrays(c, rr, 0, true) })
	one("atuchain", nChain, func(rr *Rand, i int) (string, []cmViol) { return cmCaseTUChain(c, rr, i%2 == 0) })
}

package main

import (
	"bytes"
	"compress/zlib"
	"encoding/hex"
	"errors"
	"fmt"
	"io"
	"math"
	"os"
	"sort"
	"strconv"
	"strings"
	"time"

	"seehuhn.de/go/pdf"
)

// FIO work package (C02/C03), part 2: writer programs.
//
// A program is a sequence of operations on a real pdf.Writer.  It is generated
// and executed at the same time (the references handed out by the writer are
// needed to build later objects) and recorded in a textual form from which it
// can be replayed.

// ---- sinks ----

// fioSeekBuf is an in-memory io.WriteSeeker (a "file").
type fioSeekBuf struct {
	buf []byte
	pos int64
}

func (b *fioSeekBuf) Write(p []byte) (int, error) {
	end := b.pos + int64(len(p))
	if end > int64(len(b.buf)) {
		b.buf = append(b.buf, make([]byte, end-int64(len(b.buf)))...)
	}
	copy(b.buf[b.pos:], p)
	b.pos = end
	return len(p), nil
}

func (b *fioSeekBuf) Seek(off int64, whence int) (int64, error) {
	switch whence {
	case io.SeekStart:
		b.pos = off
	case io.SeekCurrent:
		b.pos += off
	case io.SeekEnd:
		b.pos = int64(len(b.buf)) + off
	}
	if b.pos < 0 {
		return 0, errors.New("negative position")
	}
	return b.pos, nil
}

// fioPlainBuf only implements io.Writer.
type fioPlainBuf struct{ buf []byte }

func (b *fioPlainBuf) Write(p []byte) (int, error) {
	b.buf = append(b.buf, p...)
	return len(p), nil
}

// ---- programs ----

type fioOp struct {
	kind     byte // A P S O W C Z
	ref      pdf.Reference
	obj      pdf.Object
	same     int         // P/S/O: index of an earlier op of the same kind whose Go value (object, *Stream, dict) is written again, or -1
	stm      *pdf.Stream // S: the stream value handed to Put
	dictText string      // S/O: the dictionary as it was before the first Writer call saw it
	dict     pdf.Dict
	data     []byte
	filters  []string
	userLen  int64 // S/O: caller-supplied /Length, or -1
	refs     []pdf.Reference
	objs     []pdf.Object

	// error-then-continue programs (fioProg.cont)
	mustFail bool   // the Writer must refuse this operation ("!" in the program text)
	failKind string // F: how the OpenStream is made to fail; Y: index of the bad member
	failed   bool   // set by fioExec: the operation returned an error (and the program went on)

	pre    bool // O: the dictionary already names /ASCIIHexDecode and the caller writes hex text (data = the payload)
	mutate bool // P while a stream is open: the caller changes its object after Put has returned
}

type fioProg struct {
	version  pdf.Version
	human    bool
	seekable bool
	encrypt  bool
	userPw   bool // open with the user password (else the owner password)
	withID   bool
	info     [3]string // Title, Author, custom value ("" = unset)
	infoDate bool
	catVersion pdf.Version // Catalog.Version (0 = unset); "cv<n>" in the header of the program text
	infoX    string // full Info specification (fio_info.go); overrides info/infoDate when non-empty
	layout   string
	ops      []fioOp

	cont  bool   // "K": operations which fail do not end the program (error-then-continue)
	risky string // class key of a failing operation known to leave traces (see fioErrContRisky)

	createPrefix []byte // with createPath: the file holds these bytes already and NewWriter gets the *os.File positioned behind them
	createPath   string // not part of the program text: write through pdf.Create(createPath, …) instead of NewWriter
}

var fioFilterByName = map[string]pdf.Filter{
	"Fl":  pdf.FilterFlate{},
	"AHx": pdf.FilterASCIIHex{},
	"A85": pdf.FilterASCII85{},
	"RL":  pdf.FilterRunLength{},
	"LZW": pdf.FilterLZW{},
	"Cmp": pdf.FilterCompress{},
	"Cid": pdf.FilterCryptIdentity{},
}

func fioFilters(names []string) []pdf.Filter {
	var fs []pdf.Filter
	for _, n := range names {
		fs = append(fs, fioFilterByName[n])
	}
	return fs
}

func (op *fioOp) dictWire() string {
	if op.dictText != "" {
		return op.dictText
	}
	return fioSnapshot(op.dict)
}

func (p *fioProg) String() string {
	b2i := func(b bool) int {
		if b {
			return 1
		}
		return 0
	}
	var sb strings.Builder
	fmt.Fprintf(&sb, "%d~%d~%d~%d~%d~%d~%s~%s~%s~%d~%s", int(p.version), b2i(p.human), b2i(p.seekable), b2i(p.encrypt), b2i(p.userPw), b2i(p.withID),
		hexWire([]byte(p.info[0])), hexWire([]byte(p.info[1])), hexWire([]byte(p.info[2])), b2i(p.infoDate), hexWire([]byte(p.layout)))
	if p.infoX != "" {
		sb.WriteString("~" + p.infoX)
	}
	if p.catVersion != 0 {
		fmt.Fprintf(&sb, "~cv%d", int(p.catVersion))
	}
	if p.cont {
		sb.WriteString("|K")
	}
	for _, op := range p.ops {
		sb.WriteString("|")
		if op.mustFail {
			sb.WriteString("!")
		}
		fl := "-"
		if len(op.filters) > 0 {
			fl = strings.Join(op.filters, "+")
		}
		switch op.kind {
		case 'A', 'C':
			sb.WriteByte(op.kind)
		case 'P':
			if op.same >= 0 {
				fmt.Fprintf(&sb, "P~%d~%d~@%d", op.ref.Number(), op.ref.Generation(), op.same)
			} else {
				fmt.Fprintf(&sb, "P~%d~%d~%s", op.ref.Number(), op.ref.Generation(), wire(op.obj))
			}
			if op.mutate {
				sb.WriteString("~m")
			}
		case 'S':
			if op.same >= 0 {
				fmt.Fprintf(&sb, "S~%d~%d~@%d", op.ref.Number(), op.ref.Generation(), op.same)
			} else {
				fmt.Fprintf(&sb, "S~%d~%d~%s~%s~%s~%d", op.ref.Number(), op.ref.Generation(), op.dictWire(), hexWire(op.data), fl, op.userLen)
			}
		case 'O':
			dw := op.dictWire()
			if op.same >= 0 {
				dw = fmt.Sprintf("@%d", op.same)
			}
			fmt.Fprintf(&sb, "O~%d~%d~%s~%s~%d", op.ref.Number(), op.ref.Generation(), dw, fl, op.userLen)
			if op.pre {
				sb.WriteString("~p" + hexWire(op.data))
			}
		case 'W':
			sb.WriteString("W~" + hexWire(op.data))
		case 'F':
			fmt.Fprintf(&sb, "F~%d~%d~%s", op.ref.Number(), op.ref.Generation(), op.failKind)
		case 'E':
			fmt.Fprintf(&sb, "E~%d~%d~%s", op.ref.Number(), op.ref.Generation(), op.failKind)
		case 'Y':
			sb.WriteString("Y~" + op.failKind)
			for i := range op.refs {
				fmt.Fprintf(&sb, "~%d~%d", op.refs[i].Number(), op.refs[i].Generation())
			}
		case 'Z':
			sb.WriteString("Z")
			for i := range op.refs {
				var o pdf.Object
				if i < len(op.objs) {
					o = op.objs[i]
				}
				fmt.Fprintf(&sb, "~%d~%d~%s", op.refs[i].Number(), op.refs[i].Generation(), wire(o))
			}
		}
	}
	return sb.String()
}

func fioUnhex(s string) []byte {
	if s == "-" {
		return nil
	}
	b, _ := hex.DecodeString(s)
	return b
}

func fioUnwire(s string) (pdf.Object, error) {
	a, err := unwireSeq("a" + s + "]")
	if err != nil {
		return nil, err
	}
	if len(a) != 1 {
		return nil, errors.New("expected one object")
	}
	return a[0], nil
}

func fioParseProg(s string) (*fioProg, error) {
	wireNilDict = true
	parts := strings.Split(s, "|")
	h := strings.Split(parts[0], "~")
	if len(h) < 11 || len(h) > 13 {
		return nil, errors.New("bad program header")
	}
	atoi := func(x string) int { n, _ := strconv.Atoi(x); return n }
	p := &fioProg{version: pdf.Version(atoi(h[0])), human: h[1] == "1", seekable: h[2] == "1", encrypt: h[3] == "1", userPw: h[4] == "1", withID: h[5] == "1", infoDate: h[9] == "1"}
	p.info = [3]string{string(fioUnhex(h[6])), string(fioUnhex(h[7])), string(fioUnhex(h[8]))}
	p.layout = string(fioUnhex(h[10]))
	for _, extra := range h[11:] {
		if strings.HasPrefix(extra, "cv") {
			n, _ := strconv.Atoi(extra[2:])
			p.catVersion = pdf.Version(n)
		} else {
			p.infoX = extra
		}
	}
	for _, item := range parts[1:] {
		if item == "K" {
			p.cont = true
			continue
		}
		mustFail := strings.HasPrefix(item, "!")
		item = strings.TrimPrefix(item, "!")
		f := strings.Split(item, "~")
		op := fioOp{kind: f[0][0], same: -1, userLen: -1, mustFail: mustFail}
		mkref := func(a, b string) pdf.Reference { return pdf.NewReference(uint32(atoi(a)), uint16(atoi(b))) }
		flt := func(x string) []string {
			if x == "-" {
				return nil
			}
			return strings.Split(x, "+")
		}
		var err error
		switch op.kind {
		case 'A', 'C':
		case 'P':
			op.ref = mkref(f[1], f[2])
			if strings.HasPrefix(f[3], "@") {
				op.same = atoi(f[3][1:])
			} else if op.obj, err = fioUnwire(f[3]); err != nil {
				return nil, err
			}
			op.mutate = len(f) > 4 && f[4] == "m"
		case 'S':
			op.ref = mkref(f[1], f[2])
			if strings.HasPrefix(f[3], "@") {
				op.same = atoi(f[3][1:])
				break
			}
			d, err := fioUnwire(f[3])
			if err != nil {
				return nil, err
			}
			op.dict, _ = d.(pdf.Dict)
			op.data = fioUnhex(f[4])
			op.filters = flt(f[5])
			op.userLen, _ = strconv.ParseInt(f[6], 10, 64)
		case 'O':
			op.ref = mkref(f[1], f[2])
			if strings.HasPrefix(f[3], "@") {
				op.same = atoi(f[3][1:])
			} else {
				d, err := fioUnwire(f[3])
				if err != nil {
					return nil, err
				}
				op.dict, _ = d.(pdf.Dict)
			}
			op.filters = flt(f[4])
			op.userLen, _ = strconv.ParseInt(f[5], 10, 64)
			if len(f) > 6 && strings.HasPrefix(f[6], "p") {
				op.pre = true
				op.data = fioUnhex(f[6][1:])
			}
		case 'W':
			op.data = fioUnhex(f[1])
		case 'F':
			op.ref = mkref(f[1], f[2])
			op.failKind = f[3]
		case 'E':
			op.ref = mkref(f[1], f[2])
			op.failKind = "stream"
			if len(f) > 3 {
				op.failKind = f[3]
			}
		case 'Y':
			op.failKind = f[1]
			for i := 2; i+1 < len(f); i += 2 {
				op.refs = append(op.refs, mkref(f[i], f[i+1]))
			}
		case 'Z':
			for i := 1; i+2 < len(f)+0 && i+2 <= len(f)-1+0; i += 3 {
				op.refs = append(op.refs, mkref(f[i], f[i+1]))
				o, err := fioUnwire(f[i+2])
				if err != nil {
					return nil, err
				}
				op.objs = append(op.objs, o)
			}
		default:
			return nil, errors.New("bad op")
		}
		p.ops = append(p.ops, op)
	}
	return p, nil
}

// ---- execution ----

type fioWritten struct {
	isStream bool
	obj      pdf.Object // plain object as given by the caller (snapshot)
	dict     pdf.Dict   // stream dictionary as given
	data     []byte     // stream data as given (decoded form)
	filters  []string
	inObjStm bool
	opIndex  int
}

type fioResult struct {
	prog      *fioProg
	file      []byte
	failedAt  int // index of the first failing operation, len(ops) = Close, -1 = none
	err       error
	panicked  bool
	written   map[pdf.Reference]*fioWritten
	order     []pdf.Reference // in program order
	allocated []pdf.Reference // handed out by Alloc calls of the program
	pages     pdf.Reference
	id        [][]byte
	wantInfo  *pdf.Info
	mutated   []string // descriptions of caller objects changed by a Writer call
	scrambled int      // places of caller-owned memory the harness overwrote after Writer calls had returned
	xref      []pdf.VerifFIOEntry
	nextRef   uint32
	objStms   []pdf.Reference // one per successful WriteCompressed which made a stream (reference learnt after the fact)

	prefixDamaged   bool            // createPrefix: the bytes in front of the PDF file were changed
	failedRefs      []pdf.Reference // cont programs: references named by operations which failed
	acceptedInvalid []int           // cont programs: operations marked mustFail which the Writer accepted
}

const fioUserPw, fioOwnerPw = "user-pw", "owner-pw"

// fioSnapshot renders a caller-owned value; values the wire format does not
// know (a *Placeholder planted into the caller's dictionary, say) still give
// a text that differs from every regular snapshot.
func fioSnapshot(o pdf.Object) (res string) {
	defer func() {
		if r := recover(); r != nil {
			res = fmt.Sprintf("!unrepresentable(%v)", r)
		}
	}()
	return wire(o)
}

// fioDeepCopy returns a copy of o which shares no map, slice or string bytes
// with it (the caller's own value, as opposed to the expectation kept by the
// harness).  Scalars, references, placeholders and streams are returned as they
// are.
func fioDeepCopy(o pdf.Object) pdf.Object {
	switch x := o.(type) {
	case pdf.String:
		if x == nil {
			return x
		}
		return pdf.String(append([]byte{}, x...))
	case pdf.Array:
		if x == nil {
			return x
		}
		res := make(pdf.Array, len(x))
		for i, e := range x {
			res[i] = fioDeepCopy(e)
		}
		return res
	case pdf.Dict:
		if x == nil {
			return x
		}
		res := make(pdf.Dict, len(x))
		for k, v := range x {
			res[k] = fioDeepCopy(v)
		}
		return res
	}
	return o
}

// fioScramble is the caller re-using its memory after a Writer call has
// returned: the bytes of every String at any depth are overwritten in place,
// every array element is replaced, and every dictionary loses its smallest key
// and gains a new one.  It returns the number of places changed.
func fioScramble(o pdf.Object) int {
	n := 0
	switch x := o.(type) {
	case pdf.String:
		for i := range x {
			x[i] = 'X'
			n++
		}
	case pdf.Array:
		for i, e := range x {
			n += fioScramble(e)
			x[i] = pdf.Name("mutated")
			n++
		}
	case pdf.Dict:
		if x == nil {
			return 0
		}
		for _, v := range x {
			n += fioScramble(v)
		}
		for _, k := range x.SortedKeys() {
			x[k] = pdf.Name("mutated")
		}
		for _, k := range x.SortedKeys() {
			delete(x, k)
			break
		}
		x["Mutated"] = pdf.Integer(1)
		n++
	}
	return n
}

// fioIsAliased reports whether got is what want becomes when the caller's later
// changes (fioScramble, all of them or only the overwritten String bytes) show
// through: the Writer kept a pointer into the caller's memory.
func fioIsAliased(got, want pdf.Object) bool {
	var xs func(o pdf.Object) pdf.Object
	xs = func(o pdf.Object) pdf.Object {
		switch x := o.(type) {
		case pdf.String:
			return pdf.String(bytes.Repeat([]byte{'X'}, len(x)))
		case pdf.Array:
			res := make(pdf.Array, len(x))
			for i, e := range x {
				res[i] = xs(e)
			}
			return res
		case pdf.Dict:
			res := make(pdf.Dict, len(x))
			for k, v := range x {
				res[k] = xs(v)
			}
			return res
		}
		return o
	}
	full := fioDeepCopy(want)
	fioScramble(full)
	g := normObj(got)
	return !objEqual(g, normObj(want)) && (objEqual(g, normObj(xs(want))) || objEqual(g, normObj(full)))
}

// fioCloneDict makes a deep copy through the wire format.
// fioDenil replaces typed nil dictionaries by the null object: since library
// fix D99 that is what the Writer writes for them (as for a nil Array), and what
// the expected value of a read-back must say.
func fioDenil(o pdf.Object) pdf.Object {
	switch x := o.(type) {
	case pdf.Dict:
		if x == nil {
			return nil
		}
		out := pdf.Dict{}
		for k, v := range x {
			out[k] = fioDenil(v)
		}
		return out
	case pdf.Array:
		if x == nil {
			return x
		}
		out := make(pdf.Array, len(x))
		for i, v := range x {
			out[i] = fioDenil(v)
		}
		return out
	}
	return o
}

func fioDenilDict(d pdf.Dict) pdf.Dict {
	if d == nil {
		return pdf.Dict{} // the dictionary of a stream itself is always written
	}
	out, _ := fioDenil(d).(pdf.Dict)
	return out
}

func fioCloneDict(d pdf.Dict) pdf.Dict {
	o, err := fioUnwire(wire(d))
	if err != nil {
		return d
	}
	c, _ := o.(pdf.Dict)
	if c == nil {
		c = pdf.Dict{}
	}
	return c
}

// fioValid reports whether every operation of the program is one the Writer
// has to accept (no duplicate numbers, references come from Alloc, ...).
// The generator marks programs it broke on purpose.
func (p *fioProg) opts() *pdf.WriterOptions {
	opt := &pdf.WriterOptions{HumanReadable: p.human}
	if p.encrypt {
		opt.UserPassword = fioUserPw
		opt.OwnerPassword = fioOwnerPw
		opt.UserPermissions = pdf.PermAll
	}
	if p.withID {
		opt.ID = [][]byte{[]byte("0123456789abcdef"), []byte("fedcba9876543210")}
	}
	return opt
}

// fioExec runs the recorded operations of p against a fresh Writer.  When gen
// is non-nil it is called before every step to append the next operation
// (generation and execution are interleaved); it returns false to stop.
func fioExec(p *fioProg, gen func(st *fioExecState) bool) *fioResult {
	wireNilDict = true // a typed nil Dict is the null object (library fix D99); "N" on the wire
	res := &fioResult{prog: p, failedAt: -1, written: map[pdf.Reference]*fioWritten{}}
	var sink io.Writer
	var seekBuf *fioSeekBuf
	var plainBuf *fioPlainBuf
	if p.seekable {
		seekBuf = &fioSeekBuf{}
		sink = seekBuf
	} else {
		plainBuf = &fioPlainBuf{}
		sink = plainBuf
	}
	var w *pdf.Writer
	var err error
	var prefixFile *os.File
	wopt := p.opts()
	var wantID [][]byte
	for _, id := range wopt.ID {
		wantID = append(wantID, append([]byte{}, id...))
	}
	if p.createPath != "" && p.createPrefix != nil {
		prefixFile, err = os.Create(p.createPath)
		if err == nil {
			_, err = prefixFile.Write(p.createPrefix)
		}
		if err == nil {
			w, err = pdf.NewWriter(prefixFile, p.version, wopt)
		}
	} else if p.createPath != "" {
		w, err = pdf.Create(p.createPath, p.version, wopt)
	} else {
		w, err = pdf.NewWriter(sink, p.version, wopt)
	}
	// the caller re-uses the ID slices and the options after the call
	for _, id := range wopt.ID {
		for i := range id {
			id[i] = 'X'
		}
	}
	wopt.ID = nil
	if err != nil {
		res.failedAt = -2
		res.err = err
		return res
	}
	st := &fioExecState{w: w, res: res}
	res.pages = w.Alloc()
	w.GetMeta().Catalog.Pages = res.pages
	if p.layout != "" {
		w.GetMeta().Catalog.PageLayout = pdf.Name(p.layout)
	}
	res.id = nil
	for _, id := range w.GetMeta().ID {
		res.id = append(res.id, append([]byte{}, id...))
	}
	if wantID != nil {
		res.id = wantID // the ID at call time
	}
	info := &pdf.Info{Title: pdf.TextString(p.info[0]), Author: pdf.TextString(p.info[1])}
	if p.info[2] != "" {
		info.Custom = map[string]string{"FioKey": p.info[2]}
	}
	if p.infoDate {
		info.CreationDate = pdf.Date(time.Date(2024, 2, 29, 23, 59, 58, 0, time.FixedZone("", 3600)))
	}
	if p.infoX != "" {
		info = fioInfoFromSpec(p.infoX)
	}
	if p.catVersion != 0 {
		w.GetMeta().Catalog.Version = p.catVersion
	}
	w.GetMeta().Info = info
	res.wantInfo = fioCloneInfo(info)

	var stream io.WriteCloser
	var streamRef pdf.Reference
	var streamData []byte
	var streamOp int
	var streamDict, streamWant pdf.Dict
	var streamSnap string

	// operations whose Go value is handed to the Writer a second time by a later
	// operation ("@n"): these keep their identity and are not scrambled
	shared := map[int]bool{}
	for i := range p.ops {
		if o := &p.ops[i]; (o.kind == 'P' || o.kind == 'S' || o.kind == 'O') && o.same >= 0 && o.same < i {
			shared[o.same] = true
			shared[i] = true
		}
	}

	step := func(i int) (err error) {
		defer func() {
			if r := recover(); r != nil {
				res.panicked = true
				err = fmt.Errorf("panic: %v", r)
			}
		}()
		op := &p.ops[i]
		switch op.kind {
		case 'A':
			res.allocated = append(res.allocated, w.Alloc())
		case 'P':
			obj := op.obj
			if op.same >= 0 && op.same < i {
				obj = p.ops[op.same].obj
				op.obj = obj
			}
			before := fioSnapshot(obj)
			if op.mutate || !shared[i] {
				// the caller hands over its own value and re-uses the memory after Put has
				// returned — immediately, or while the stream is still open and the object
				// is queued: String bytes at any depth are overwritten in place, array
				// elements replaced, dictionary entries deleted and added.  What is read
				// back must be the value at call time (obj).
				arg := fioDeepCopy(obj)
				err = w.Put(op.ref, arg)
				if after := fioSnapshot(arg); after != before {
					res.mutated = append(res.mutated, fmt.Sprintf("op %d Put(%v): argument %s became %s", i, op.ref, before, after))
				}
				res.scrambled += fioScramble(arg)
			} else {
				err = w.Put(op.ref, obj)
			}
			if after := fioSnapshot(obj); after != before {
				res.mutated = append(res.mutated, fmt.Sprintf("op %d Put(%v): argument %s became %s", i, op.ref, before, after))
			}
			if err == nil {
				if _, dup := res.written[op.ref]; !dup {
					res.written[op.ref] = &fioWritten{obj: fioDenil(obj), opIndex: i}
					res.order = append(res.order, op.ref)
				}
			}
		case 'S':
			if op.same >= 0 && op.same < i && p.ops[op.same].kind == 'S' && p.ops[op.same].stm != nil {
				// the same *Stream value is written a second time
				op.stm = p.ops[op.same].stm
				op.dict = p.ops[op.same].dict
				op.data = p.ops[op.same].data
			} else {
				op.same = -1
				op.dictText = fioSnapshot(op.dict)
				op.stm = pdf.NewStream(op.dict, append([]byte(nil), op.data...))
			}
			dict := op.stm.Dict
			want := fioCloneDict(dict)
			before := fioSnapshot(dict)
			if !shared[i] {
				// the caller's own stream value: after Put has returned the dictionary is
				// changed and its strings overwritten; the data buffer is overwritten too
				// unless the stream is queued behind an open one (its data is documented
				// to be read when the stream is written)
				deferred := stream != nil
				buf := append([]byte(nil), op.data...)
				own, _ := fioDeepCopy(dict).(pdf.Dict)
				stm := pdf.NewStream(own, buf)
				err = w.Put(op.ref, stm)
				if after := fioSnapshot(own); after != before {
					res.mutated = append(res.mutated, fmt.Sprintf("op %d Put(%v, stream of %d bytes): the stream's dictionary %s became %s", i, op.ref, len(op.data), before, after))
				}
				if !bytes.Equal(buf, op.data) {
					res.mutated = append(res.mutated, fmt.Sprintf("op %d Put(%v, stream of %d bytes): data buffer changed", i, op.ref, len(op.data)))
				}
				if own != nil {
					res.scrambled += fioScramble(own)
				}
				if !deferred {
					for k := range buf {
						buf[k] = 'X'
						res.scrambled++
					}
				}
			} else {
				err = w.Put(op.ref, op.stm)
			}
			if after := fioSnapshot(dict); after != before {
				res.mutated = append(res.mutated, fmt.Sprintf("op %d Put(%v, stream of %d bytes): the stream's dictionary %s became %s", i, op.ref, len(op.data), before, after))
			}
			if err == nil {
				res.written[op.ref] = &fioWritten{isStream: true, dict: fioDenilDict(want), data: op.data, opIndex: i}
				res.order = append(res.order, op.ref)
			}
		case 'O':
			if op.same >= 0 && op.same < i && p.ops[op.same].kind == 'O' {
				op.dict = p.ops[op.same].dict // the same map value
			} else {
				op.same = -1
				op.dictText = fioSnapshot(op.dict)
			}
			dict := op.dict
			if op.userLen >= 0 {
				dict = pdf.Dict{}
				for k, v := range op.dict {
					dict[k] = v
				}
				dict["Length"] = pdf.Integer(op.userLen)
			}
			if op.pre {
				// the data handed to the stream is already ASCIIHex-encoded, and the
				// dictionary says so; the filters of OpenStream come on top
				dict = pdf.Dict{}
				for k, v := range op.dict {
					dict[k] = v
				}
				dict["Filter"] = pdf.Name("ASCIIHexDecode")
			}
			before := fioSnapshot(dict)
			var ws io.WriteCloser
			ws, err = w.OpenStream(op.ref, dict, fioFilters(op.filters)...)
			if after := fioSnapshot(dict); after != before {
				res.mutated = append(res.mutated, fmt.Sprintf("op %d OpenStream(%v): dictionary %s became %s", i, op.ref, before, after))
			}
			if err == nil {
				stream = ws
				streamWant = fioCloneDict(op.dict)
				streamRef = op.ref
				streamData = nil
				streamOp = i
				streamDict = dict
				streamSnap = before
			}
		case 'F':
			// an OpenStream made to fail behind its cross-reference entry (or, kind
			// "crypt2", before it); the program goes on
			dict, filters := fioFailingOpenStream(op.failKind)
			var ws io.WriteCloser
			ws, err = w.OpenStream(op.ref, dict, filters...)
			if err == nil {
				stream = ws // the oracle reports it (mustFail); keep the Writer usable
				streamWant, streamRef, streamData, streamOp, streamDict, streamSnap = pdf.Dict{}, op.ref, nil, i, dict, fioSnapshot(dict)
			}
		case 'E':
			// Put of an object whose formatting fails half way
			err = w.Put(op.ref, fioUnformattable(op.failKind))
		case 'Y':
			// WriteCompressed with one member whose formatting fails
			badIdx, badKind, _ := strings.Cut(op.failKind, ":")
			bad, _ := strconv.Atoi(badIdx)
			if badKind == "" {
				badKind = "stream"
			}
			var objs []pdf.Object
			for k := range op.refs {
				if k == bad {
					objs = append(objs, fioUnformattable(badKind))
				} else {
					objs = append(objs, pdf.Integer(k))
				}
			}
			err = w.WriteCompressed(op.refs, objs...)
		case 'W':
			if stream == nil {
				return errors.New("harness: write without open stream")
			}
			chunk := append([]byte(nil), op.data...)
			_, err = stream.Write(chunk)
			if !bytes.Equal(chunk, op.data) {
				res.mutated = append(res.mutated, fmt.Sprintf("op %d Write: buffer changed", i))
			}
			for k := range chunk {
				chunk[k] = 'X' // the caller re-uses its buffer (io.Writer: Write must not retain p)
				res.scrambled++
			}
			streamData = append(streamData, op.data...)
			if after := fioSnapshot(streamDict); after != streamSnap {
				res.mutated = append(res.mutated, fmt.Sprintf("op %d Write on the stream opened at op %d: the dictionary given to OpenStream %s became %s", i, streamOp, streamSnap, after))
				streamSnap = after
			}
		case 'C':
			if stream == nil {
				return errors.New("harness: close without open stream")
			}
			err = stream.Close()
			if after := fioSnapshot(streamDict); after != streamSnap {
				res.mutated = append(res.mutated, fmt.Sprintf("op %d Close of the stream opened at op %d (%d bytes): the dictionary given to OpenStream %s became %s", i, streamOp, len(streamData), streamSnap, after))
			}
			if err == nil {
				o := &p.ops[streamOp]
				if o.pre {
					streamData = o.data // what the hex text written stands for
				}
				res.written[streamRef] = &fioWritten{isStream: true, dict: fioDenilDict(streamWant), data: streamData, filters: o.filters, opIndex: streamOp}
				res.order = append(res.order, streamRef)
			}
			stream = nil
		case 'Z':
			var before []string
			for _, o := range op.objs {
				before = append(before, fioSnapshot(o))
			}
			refsBefore := append([]pdf.Reference(nil), op.refs...)
			// the caller's own slices and objects, re-used after the call has returned
			refsArg := append([]pdf.Reference(nil), op.refs...)
			objsArg := make([]pdf.Object, len(op.objs))
			for k, o := range op.objs {
				objsArg[k] = fioDeepCopy(o)
			}
			err = w.WriteCompressed(refsArg, objsArg...)
			for k, o := range objsArg {
				if after := fioSnapshot(o); after != before[k] {
					res.mutated = append(res.mutated, fmt.Sprintf("op %d WriteCompressed: argument %d %s became %s", i, k, before[k], after))
				}
			}
			for k := range refsBefore {
				if refsArg[k] != refsBefore[k] {
					res.mutated = append(res.mutated, fmt.Sprintf("op %d WriteCompressed: refs[%d] changed", i, k))
				}
			}
			for k, o := range objsArg {
				res.scrambled += fioScramble(o)
				objsArg[k] = pdf.Name("mutated")
			}
			for k := range refsArg {
				refsArg[k] = pdf.NewReference(1, 0)
			}
			if err == nil {
				for k, ref := range op.refs {
					res.written[ref] = &fioWritten{obj: fioDenil(op.objs[k]), inObjStm: true, opIndex: i}
					res.order = append(res.order, ref)
				}
			}
		}
		return err
	}

	i := 0
	for {
		if gen != nil && i == len(p.ops) {
			st.inStream = stream != nil
			if !gen(st) {
				break
			}
		}
		if i >= len(p.ops) {
			break
		}
		err := step(i)
		if p.cont && !res.panicked {
			op := &p.ops[i]
			if err != nil && op.mustFail {
				// error-then-continue: the program goes on
				op.failed = true
				if op.kind == 'Z' || op.kind == 'Y' {
					res.failedRefs = append(res.failedRefs, op.refs...)
				} else {
					res.failedRefs = append(res.failedRefs, op.ref)
				}
				i++
				continue
			}
			if err == nil && op.mustFail {
				res.acceptedInvalid = append(res.acceptedInvalid, i)
			}
		}
		if err != nil {
			res.failedAt = i
			res.err = err
			return res
		}
		i++
	}
	// Close
	func() {
		defer func() {
			if r := recover(); r != nil {
				res.panicked = true
				res.err = fmt.Errorf("panic: %v", r)
				res.failedAt = len(p.ops)
			}
		}()
		if err := w.Close(); err != nil {
			res.failedAt = len(p.ops)
			res.err = err
		}
	}()
	res.xref, res.nextRef, _, _ = pdf.VerifWriterXRef(w)
	switch {
	case p.createPath != "" && p.createPrefix != nil:
		prefixFile.Close()
		all, _ := os.ReadFile(p.createPath)
		if len(all) >= len(p.createPrefix) {
			res.prefixDamaged = !bytes.Equal(all[:len(p.createPrefix)], p.createPrefix)
			res.file = all[len(p.createPrefix):]
		}
	case p.createPath != "":
		res.file, _ = os.ReadFile(p.createPath)
	case p.seekable:
		res.file = seekBuf.buf
	default:
		res.file = plainBuf.buf
	}
	return res
}

// fioFailKinds: the ways in which an OpenStream is made to fail after it has
// entered its cross-reference entry ("crypt2" fails before that).
var fioFailKinds = []string{"length-name", "length-ref", "filter-ref", "parms-ref", "flate-predictor", "flate-columns", "lzw-columns", "flate-string-length", "crypt2"}

func fioFailingOpenStream(kind string) (pdf.Dict, []pdf.Filter) {
	switch kind {
	case "length-name":
		return pdf.Dict{"Length": pdf.Name("x")}, nil
	case "length-ref":
		return pdf.Dict{"Length": pdf.NewReference(9, 0)}, nil
	case "flate-string-length":
		return pdf.Dict{"Length": pdf.String("12")}, []pdf.Filter{pdf.FilterASCIIHex{}}
	case "filter-ref":
		return pdf.Dict{"Filter": pdf.NewReference(9, 0)}, nil
	case "parms-ref":
		return pdf.Dict{"K": pdf.Integer(1), "DecodeParms": pdf.Array{pdf.NewReference(9, 0)}}, nil
	case "flate-predictor":
		return pdf.Dict{}, []pdf.Filter{pdf.FilterFlate{Predictor: 99}}
	case "flate-columns":
		return pdf.Dict{"K": pdf.Name("v")}, []pdf.Filter{pdf.FilterASCIIHex{}, pdf.FilterFlate{Predictor: 12, Columns: -1}}
	case "lzw-columns":
		return pdf.Dict{}, []pdf.Filter{pdf.FilterLZW{Columns: 5}}
	case "crypt2":
		return pdf.Dict{}, []pdf.Filter{pdf.FilterASCIIHex{}, pdf.FilterCryptIdentity{}}
	}
	return pdf.Dict{"Length": pdf.Name("x")}, nil
}

// fioUnformattable returns an object which cannot be written: a stream nested
// in an array, an operator outside a content stream, or a number which is not finite.
func fioUnformattable(kind string) pdf.Object {
	switch kind {
	case "nan":
		return pdf.Dict{"A": pdf.Real(math.NaN()), "B": pdf.Integer(1)}
	case "+inf":
		return pdf.Array{pdf.Integer(1), pdf.Real(math.Inf(1))}
	case "-inf":
		return pdf.Dict{"R": pdf.Number(math.Inf(-1))}
	case "operator":
		return pdf.Array{pdf.Integer(1), pdf.Operator("q")}
	}
	return pdf.Array{pdf.Integer(1), &pdf.Stream{Dict: pdf.Dict{}}}
}

// fioUnformattableKey is the class key of a violation caused by such an object.
func fioUnformattableKey(kind, residueKey string) string {
	switch kind {
	case "nan", "+inf", "-inf":
		return "non-finite-number-written"
	}
	return residueKey
}

type fioExecState struct {
	w        *pdf.Writer
	res      *fioResult
	inStream bool
}

// ---- generator ----

var fioBodies = [][]byte{
	nil,
	[]byte("endstream"),
	[]byte("\nendstream\nendobj\n"),
	[]byte("x\r\nendstream\r\nendobj"),
	[]byte("abc\n"),
	[]byte("abc\r"),
	[]byte("abc\r\n"),
	[]byte("\n"),
	[]byte("\r\n"),
	[]byte("\nabc"),
	[]byte("   "),
	[]byte("stream\nendstream"),
	[]byte("1 0 obj\n<<>>\nendobj\n"),
	[]byte("%%EOF\nstartxref\n0\n"),
}

func fioGenBody(r *Rand) []byte {
	n := Pick(r, []int{0, 1, 5, 40, 200, 1010, 1022, 1023, 1024, 1025, 1100, 2500})
	if r.P(1, 2) {
		n = r.Intn(300)
	}
	b := make([]byte, n)
	mode := r.Intn(3)
	for i := range b {
		switch mode {
		case 0:
			b[i] = byte(r.U64())
		case 1:
			b[i] = Pick(r, []byte("\r\n endstreamobj%<>"))
		default:
			b[i] = byte('a' + r.Intn(26))
		}
	}
	// plant troublesome material at the edges / inside
	for k := 0; k < 2; k++ {
		if r.P(1, 3) {
			frag := Pick(r, fioBodies)
			switch r.Intn(3) {
			case 0:
				b = append(append([]byte(nil), frag...), b...)
			case 1:
				b = append(b, frag...)
			default:
				at := 0
				if len(b) > 0 {
					at = r.Intn(len(b))
				}
				b = append(b[:at:at], append(append([]byte(nil), frag...), b[at:]...)...)
			}
		}
	}
	return b
}

func fioGenStreamDict(r *Rand) pdf.Dict {
	d := pdf.Dict{}
	n := r.Intn(4)
	for i := 0; i < n; i++ {
		k := genName(r)
		if k == "Length" || k == "Filter" || k == "DecodeParms" || k == "" {
			k = "K"
		}
		d[k] = genObj(r, 1, false)
	}
	if r.P(1, 4) {
		d["Type"] = pdf.Name("XObject")
	}
	return d
}

// fioGenCryptDict: a stream dictionary with one to three strings.
func fioGenCryptDict(r *Rand) pdf.Dict {
	d := pdf.Dict{"Str1": pdf.String(genBytes(r, 24))}
	if r.Bool() {
		d["Str2"] = pdf.Array{pdf.String(genBytes(r, 10)), pdf.Integer(3)}
	}
	if r.Bool() {
		d["Sub"] = pdf.Dict{"Str3": pdf.String("plain text ( ) \\")}
	}
	return d
}

func fioGenFilters(r *Rand, v pdf.Version) []string {
	if r.P(1, 2) {
		return nil
	}
	names := []string{"AHx", "A85", "RL", "LZW", "Cmp"}
	if v >= pdf.V1_2 {
		names = append(names, "Fl", "Fl")
	}
	n := 1
	if r.P(1, 4) {
		n = 2
	}
	var fs []string
	for i := 0; i < n; i++ {
		fs = append(fs, Pick(r, names))
	}
	return fs
}

// fioGenProg generates a program while running it.  broken > 0 asks for an
// invalid operation of that kind at a random point.
func fioGenProg(r *Rand, thorough bool, broken int) *fioResult {
	p := &fioProg{
		version:  pdf.Version(1 + r.Intn(9)),
		human:    r.P(1, 3),
		seekable: r.Bool(),
		userPw:   r.Bool(),
		withID:   r.P(1, 3),
		infoDate: r.P(1, 3),
	}
	p.encrypt = r.P(2, 5) && p.version > pdf.V1_0
	if p.withID && p.version == pdf.V1_0 {
		p.withID = false
	}
	if broken > 0 {
		p.encrypt = false
	}
	if broken < 0 {
		// error-then-continue: operations which must fail are spread over the
		// program, which goes on after each of them and is closed at the end
		p.cont = true
	}
	riskyWanted := broken == -2
	titles := []string{"", "Title", "Über uns", "日本語 Ω", "(a)\\b", "x\ry\nz"}
	p.info = [3]string{Pick(r, titles), Pick(r, titles), Pick(r, titles)}
	if r.P(1, 3) {
		p.layout = Pick(r, []string{"SinglePage", "TwoColumnLeft"})
	}
	maxOps := 4 + r.Intn(14)
	if thorough && r.P(1, 10) {
		maxOps = 40 + r.Intn(60)
	}
	breakAt := -1
	if broken > 0 {
		breakAt = r.Intn(maxOps)
	}
	var free []pdf.Reference // allocated, not yet written (or scheduled)
	var putIdx []int         // indices of P ops (for writing the same value twice)
	var sIdx, oIdx []int     // indices of S and O ops (the same stream / dictionary value again)
	writesLeft := 0
	openFiltered := false
	takeRef := func() (pdf.Reference, bool) {
		if len(free) == 0 {
			return 0, false
		}
		i := r.Intn(len(free))
		ref := free[i]
		free = append(free[:i], free[i+1:]...)
		return ref, true
	}
	count := 0
	gen := func(st *fioExecState) bool {
		// pick up references handed out by earlier Alloc ops
		for len(st.res.allocated) > count {
			free = append(free, st.res.allocated[count])
			count++
		}
		n := len(p.ops)
		if n >= maxOps && !st.inStream {
			return false
		}
		add := func(op fioOp) bool { p.ops = append(p.ops, op); return true }
		if broken > 0 && n >= breakAt && !st.inStream {
			breakAt = 1 << 30
			switch broken {
			case 1: // a number written twice
				if len(st.res.order) > 0 {
					return add(fioOp{kind: 'P', ref: Pick(r, st.res.order), obj: pdf.Integer(1), same: -1})
				}
			case 2: // non-zero generation in an object stream
				return add(fioOp{kind: 'Z', refs: []pdf.Reference{pdf.NewReference(uint32(500+r.Intn(50)), 1)}, objs: []pdf.Object{pdf.Integer(2)}})
			case 3: // reference as member of an object stream
				return add(fioOp{kind: 'Z', refs: []pdf.Reference{pdf.NewReference(uint32(500+r.Intn(50)), 0)}, objs: []pdf.Object{pdf.NewReference(1, 0)}})
			case 4: // wrong caller-supplied /Length
				ref := pdf.NewReference(uint32(600+r.Intn(50)), 0)
				return add(fioOp{kind: 'S', ref: ref, dict: pdf.Dict{}, data: []byte("abc"), userLen: -1}) &&
					add(fioOp{kind: 'O', ref: pdf.NewReference(ref.Number()+100, 0), dict: pdf.Dict{}, userLen: 5}) &&
					add(fioOp{kind: 'W', data: []byte("abcd")}) && add(fioOp{kind: 'C'})
			case 5: // a stream written twice
				if len(st.res.order) > 0 {
					return add(fioOp{kind: 'O', ref: Pick(r, st.res.order), dict: pdf.Dict{}, userLen: -1})
				}
			}
		}
		if p.cont && st.inStream && r.P(1, 8) {
			// operations which are refused while a stream is open
			if r.Bool() || len(free) == 0 {
				return add(fioOp{kind: 'O', ref: pdf.NewReference(uint32(800+r.Intn(50)), 0), dict: pdf.Dict{}, userLen: -1, same: -1, mustFail: true})
			}
			return add(fioOp{kind: 'Z', refs: []pdf.Reference{free[0]}, objs: []pdf.Object{pdf.Integer(3)}, mustFail: true})
		}
		if p.cont && !st.inStream && r.P(1, 4) {
			written := st.res.order
			k := r.Intn(12)
			if riskyWanted && p.risky == "" && len(free) > 1 && r.Bool() {
				k = 11
			}
			switch {
			case k == 0 && len(written) > 0: // a number defined twice
				return add(fioOp{kind: 'P', ref: Pick(r, written), obj: genObj(r, 1, false), same: -1, mustFail: true})
			case k == 1 && len(written) > 0:
				return add(fioOp{kind: 'S', ref: Pick(r, written), dict: pdf.Dict{}, data: []byte("dup"), userLen: -1, same: -1, mustFail: true})
			case k == 2 && len(written) > 0:
				return add(fioOp{kind: 'O', ref: Pick(r, written), dict: pdf.Dict{}, userLen: -1, same: -1, mustFail: true})
			case k == 3 && len(free) > 0: // non-zero generation in WriteCompressed
				return add(fioOp{kind: 'Z', refs: []pdf.Reference{pdf.NewReference(free[0].Number(), 1)}, objs: []pdf.Object{pdf.Integer(2)}, mustFail: true})
			case k == 4 && len(free) > 0: // a reference as a member
				return add(fioOp{kind: 'Z', refs: []pdf.Reference{free[0]}, objs: []pdf.Object{pdf.NewReference(1, 0)}, mustFail: true})
			case k <= 9 && len(free) > 0: // OpenStream failing behind its xref entry; the number stays free for a retry
				ref := Pick(r, free)
				if r.P(1, 5) {
					ref = pdf.NewReference(ref.Number(), uint16(Pick(r, []int{1, 65535})))
				}
				return add(fioOp{kind: 'F', ref: ref, failKind: Pick(r, fioFailKinds), mustFail: true})
			case riskyWanted && p.risky == "" && len(free) > 1:
				// operations known to leave traces when they fail (candidate defects, see notes/C02.md)
				switch r.Intn(3) {
				case 0:
					ref, _ := takeRef()
					kind := Pick(r, []string{"stream", "stream", "operator", "nan", "+inf", "-inf"})
					p.risky = fioUnformattableKey(kind, "put-format-error-residue")
					free = append(free, ref) // the number stays free: a later operation may use it
					return add(fioOp{kind: 'E', ref: ref, failKind: kind, mustFail: true})
				case 1:
					a, _ := takeRef()
					b, _ := takeRef()
					kind := Pick(r, []string{"stream", "stream", "nan"})
					p.risky = fioUnformattableKey(kind, "writecompressed-error-residue")
					free = append(free, a, b)
					return add(fioOp{kind: 'Y', refs: []pdf.Reference{a, b}, failKind: fmt.Sprint(r.Intn(2)) + ":" + kind, mustFail: true})
				default:
					if len(written) > 0 {
						a, _ := takeRef()
						p.risky = "writecompressed-error-residue"
						free = append(free, a)
						return add(fioOp{kind: 'Z', refs: []pdf.Reference{a, written[0]}, objs: []pdf.Object{pdf.Integer(1), pdf.Integer(2)}, mustFail: true})
					}
				}
			}
		}
		if st.inStream {
			// inside an open stream: write, allocate, put (deferred), close
			k := r.Intn(10)
			switch {
			case writesLeft > 0 && k < 5:
				writesLeft--
				return add(fioOp{kind: 'W', data: fioGenBody(r)})
			case k < 7 && !openFiltered:
				return add(fioOp{kind: 'A'})
			case k < 9 && len(free) > 0:
				ref, _ := takeRef()
				if broken == 0 && r.P(1, 30) {
					// a stream object handed to Put while another stream is open (finding F3)
					return add(fioOp{kind: 'S', ref: ref, dict: fioGenStreamDict(r), data: fioGenBody(r), userLen: -1})
				}
				putIdx = append(putIdx, len(p.ops))
				op := fioOp{kind: 'P', ref: ref, obj: genObj(r, 2, false), same: -1}
				if broken == 0 && p.risky == "" && r.P(1, 3) {
					// the caller changes the dictionary / array after Put has returned
					switch x := op.obj.(type) {
					case pdf.Dict:
						if len(x) > 0 {
							op.mutate = true
						}
					case pdf.Array:
						if len(x) > 0 {
							op.mutate = true
						}
					}
					if op.mutate {
						p.risky = "deferred-put-aliases-caller-object"
					}
				}
				return add(op)
			default:
				if writesLeft > 0 {
					writesLeft--
					return add(fioOp{kind: 'W', data: fioGenBody(r)})
				}
				return add(fioOp{kind: 'C'})
			}
		}
		if broken == 0 && p.risky == "" && len(free) > 0 && r.P(1, 14) {
			if r.Bool() {
				// OpenStream with filters for data which is already encoded the way the
				// dictionary says (/Filter /ASCIIHexDecode): the filters of OpenStream
				// are the outer encoding and must be named first
				ref, _ := takeRef()
				names := []string{"A85", "RL", "LZW"}
				if p.version >= pdf.V1_2 {
					names = append(names, "Fl", "Fl")
				}
				fs := []string{Pick(r, names)}
				if r.P(1, 3) {
					fs = append(fs, Pick(r, names))
				}
				payload := fioGenBody(r)
				p.risky = "openstream-filter-order"
				dict := pdf.Dict{}
				if r.Bool() {
					dict["K"] = genObj(r, 1, false)
				}
				add(fioOp{kind: 'O', ref: ref, dict: dict, filters: fs, userLen: -1, same: -1, pre: true, data: payload})
				add(fioOp{kind: 'W', data: []byte(hex.EncodeToString(payload) + ">")})
				return add(fioOp{kind: 'C'})
			}
			if _, nextRef, _, _ := pdf.VerifWriterXRef(st.w); !p.encrypt || true {
				// WriteCompressed with numbers chosen by the caller (not handed out by
				// Alloc): the object stream must not take one of them
				n := 1 + r.Intn(3)
				op := fioOp{kind: 'Z'}
				for i := 0; i < n; i++ {
					op.refs = append(op.refs, pdf.NewReference(nextRef+uint32(i), 0))
					op.objs = append(op.objs, pdf.Dict{"Own": pdf.Integer(i)})
				}
				if r.P(1, 3) {
					op.refs[n-1] = pdf.NewReference(nextRef+uint32(n)+uint32(r.Intn(5)), 0)
				}
				p.risky = "writecompressed-container-takes-member-number"
				return add(op)
			}
		}
		k := r.Intn(20)
		switch {
		case k < 5 || len(free) == 0:
			return add(fioOp{kind: 'A'})
		case k < 10:
			ref, _ := takeRef()
			if r.P(1, 12) {
				ref = pdf.NewReference(ref.Number(), uint16(Pick(r, []int{1, 2, 65535})))
			}
			if broken == 0 && r.P(1, 100) {
				// sparse numbering: a number far beyond what Alloc has handed out
				// (setXRef pushes nextRef past it); every number in between gets a
				// free entry.  With xref streams this reaches finding F2.
				ref = pdf.NewReference(uint32(Pick(r, []int{300, 300, 2000, 9000, 20000, 70000})+r.Intn(50)), 0)
				for _, w := range p.ops {
					if w.ref.Number() == ref.Number() {
						ref = pdf.NewReference(ref.Number()+977, 0)
					}
				}
			}
			op := fioOp{kind: 'P', ref: ref, obj: genObj(r, 2, false), same: -1}
			if len(putIdx) > 0 && r.P(1, 4) {
				op.same = Pick(r, putIdx)
				op.obj = p.ops[op.same].obj
			} else if r.P(1, 6) {
				op.obj = pdf.String(genBytes(r, 40)) // strings are what encryption touches
			}
			putIdx = append(putIdx, len(p.ops))
			return add(op)
		case k < 13:
			ref, _ := takeRef()
			if r.P(1, 6) {
				// a stream object under a reference with non-zero generation
				ref = pdf.NewReference(ref.Number(), uint16(Pick(r, []int{1, 2, 65535})))
			}
			op := fioOp{kind: 'S', ref: ref, dict: fioGenStreamDict(r), data: fioGenBody(r), userLen: -1, same: -1}
			if len(sIdx) > 0 && r.P(1, 3) {
				// the same *Stream value is handed to Put again
				op.same = Pick(r, sIdx)
			} else if p.encrypt && p.version >= pdf.V1_5 && r.P(1, 4) {
				// (before PDF 1.5 an encrypted file has no crypt filters: since library fix D51
				// OpenStream refuses /Filter /Crypt in the dictionary there)
				// an explicit /Crypt filter in the dictionary of a stream object:
				// the data is stored as it is, the strings of the dictionary are
				// still encrypted with the key of this object
				op.dict = fioGenCryptDict(r)
				op.dict["Filter"] = pdf.Name("Crypt")
				add(fioOp{kind: 'A', same: -1})
				if len(free) > 0 {
					other, _ := takeRef()
					add(fioOp{kind: 'P', ref: other, obj: pdf.Array{pdf.String(genBytes(r, 12)), genInt(r)}, same: -1})
				}
			}
			sIdx = append(sIdx, len(p.ops))
			return add(op)
		case k < 17:
			ref, _ := takeRef()
			if r.P(1, 6) {
				ref = pdf.NewReference(ref.Number(), uint16(Pick(r, []int{1, 2, 65535})))
			}
			op := fioOp{kind: 'O', ref: ref, dict: fioGenStreamDict(r), filters: fioGenFilters(r, p.version), userLen: -1, same: -1}
			if len(oIdx) > 0 && r.P(1, 3) {
				// the same dictionary value is handed to OpenStream again
				op.same = Pick(r, oIdx)
				if r.Bool() {
					op.filters = nil
				}
			} else if p.encrypt && p.version >= pdf.V1_5 && r.P(1, 3) {
				// filter chain starting with the Identity crypt filter, directly
				// after a different object
				op.dict = fioGenCryptDict(r)
				op.filters = Pick(r, [][]string{{"Cid"}, {"Cid", "Fl"}, {"Cid", "AHx"}})
				if len(free) > 0 {
					other, _ := takeRef()
					add(fioOp{kind: 'P', ref: other, obj: pdf.Dict{"S": pdf.String(genBytes(r, 12))}, same: -1})
				}
			}
			oIdx = append(oIdx, len(p.ops))
			writesLeft = r.Intn(4)
			openFiltered = len(op.filters) > 0 || p.encrypt
			if !openFiltered && r.P(1, 4) {
				// the caller announces the length: fix the chunks now
				writesLeft = 0
				body := fioGenBody(r)
				op.userLen = int64(len(body))
				add(op)
				half := 0
				if len(body) > 0 {
					half = r.Intn(len(body) + 1)
				}
				add(fioOp{kind: 'W', data: body[:half]})
				if r.Bool() {
					add(fioOp{kind: 'A'})
				}
				add(fioOp{kind: 'W', data: body[half:]})
				return add(fioOp{kind: 'C'})
			}
			return add(op)
		default:
			nobj := 1 + r.Intn(4)
			if nobj > len(free) {
				nobj = len(free)
			}
			if broken == 0 && r.P(1, 40) {
				nobj = 0 // WriteCompressed without objects (finding F4)
			}
			op := fioOp{kind: 'Z'}
			for i := 0; i < nobj; i++ {
				ref, _ := takeRef()
				o := genObj(r, 2, false)
				if _, isRef := o.(pdf.Reference); isRef {
					o = pdf.Array{o}
				}
				op.refs = append(op.refs, ref)
				op.objs = append(op.objs, o)
			}
			return add(op)
		}
	}
	return fioExec(p, gen)
}

// ---- oracle: reopen and compare (C02) ----

func fioStreamWantDict(r *Rand, d pdf.Dict) pdf.Dict { return d }

// fioReopen opens the written file with the library's Reader.
func fioReopen(res *fioResult) (*pdf.Reader, error) {
	opt := &pdf.ReaderOptions{ErrorHandling: pdf.ErrorHandlingStop}
	if res.prog.encrypt {
		if res.prog.userPw {
			opt.Password = fioUserPw
		} else {
			opt.Password = fioOwnerPw
		}
	}
	return pdf.NewReader(bytes.NewReader(res.file), int64(len(res.file)), opt)
}

type fioViolation struct{ key, desc string }

// oracleFileRoundTrip evaluates property C02 on one executed program.
func oracleFileRoundTrip(res *fioResult) (v []fioViolation) {
	defer func() {
		if r := recover(); r != nil {
			v = append(v, fioViolation{"reader-panic", fmt.Sprintf("panic while reading the written file back: %v", r)})
		}
	}()
	for _, m := range res.mutated {
		v = append(v, fioViolation{"caller-object-modified", m})
	}
	for _, i := range res.acceptedInvalid {
		v = append(v, fioViolation{"invalid-op-accepted", fmt.Sprintf("op %d (%c) must be refused and was accepted", i, res.prog.ops[i].kind)})
	}
	if res.failedAt != -1 {
		return v
	}
	// error-then-continue: no operation which failed may have left a cross-reference entry
	if res.prog.cont {
		for _, ref := range res.failedRefs {
			if _, ok := res.written[ref]; ok {
				continue
			}
			laterWritten := false
			for w := range res.written {
				if w.Number() == ref.Number() {
					laterWritten = true
				}
			}
			if laterWritten {
				continue
			}
			for _, e := range res.xref {
				if e.Num == ref.Number() && (e.Pos >= 0 || e.InStream != 0) {
					v = append(v, fioViolation{"failed-op-left-entry", fmt.Sprintf("the operation on %v failed, nothing was written under that number, but the Writer's table has an entry for it (pos %d, in stream %d)", ref, e.Pos, e.InStream)})
				}
			}
		}
	}
	rd, err := fioReopen(res)
	if err != nil {
		key := "reopen-failed"
		if strings.Contains(err.Error(), "invalid cross-reference table") &&
			!res.prog.human && res.prog.version >= pdf.V1_5 {
			// exactly the D26 class: checkXRefStreamDict refuses Size entries when
			// Size > 8192 + 32 * (raw length of the xref stream)
			if _, xrefRaw, e2 := fioTrailer(res.file, &fioDisk{file: res.file}); e2 == nil && xrefRaw != nil &&
				int64(res.nextRef) > 8192+32*int64(len(xrefRaw)) {
				key = "xref-stream-entry-cap"
			}
		}
		return append(v, fioViolation{key, fmt.Sprintf("NewReader on the written file (%d bytes, Size %d): %v", len(res.file), res.nextRef, err)})
	}
	p := res.prog
	meta := rd.GetMeta()
	// the effective version is the larger of the header version and the catalog's /Version; a
	// catalog entry below the header version does not lower it
	wantVersion := max(p.version, p.catVersion)
	if meta.Version != wantVersion {
		v = append(v, fioViolation{"version", fmt.Sprintf("header version %v, Catalog.Version %v: MetaInfo.Version read back as %v, want %v", p.version, p.catVersion, meta.Version, wantVersion)})
	}
	if meta.Catalog != nil && meta.Catalog.Version != p.catVersion {
		v = append(v, fioViolation{"version", fmt.Sprintf("Catalog.Version %v (header %v) read back as %v", p.catVersion, p.version, meta.Catalog.Version)})
	}
	if len(meta.ID) != len(res.id) {
		v = append(v, fioViolation{"id", fmt.Sprintf("ID %x read back as %x", res.id, meta.ID)})
	} else {
		for i := range res.id {
			if !bytes.Equal(res.id[i], meta.ID[i]) {
				v = append(v, fioViolation{"id", fmt.Sprintf("ID %x read back as %x", res.id, meta.ID)})
				break
			}
		}
	}
	if meta.Catalog == nil || meta.Catalog.Pages != res.pages || string(meta.Catalog.PageLayout) != p.layout {
		v = append(v, fioViolation{"catalog", fmt.Sprintf("catalog read back as %+v", meta.Catalog)})
	}
	for _, d := range fioCompareInfo(res.wantInfo, meta.Info) {
		v = append(v, fioViolation{"info", d})
	}
	if (meta.Encryption != nil) != p.encrypt {
		v = append(v, fioViolation{"encryption-meta", "encryption state not reported"})
	}

	// every written reference
	for _, ref := range res.order {
		wr := res.written[ref]
		got, err := rd.Get(ref, true)
		if err != nil {
			v = append(v, fioViolation{"get-failed", fmt.Sprintf("Get(%v) (op %d): %v", ref, wr.opIndex, err)})
			continue
		}
		if !wr.isStream {
			if _, isStm := got.(*pdf.Stream); isStm || !objEqual(normObj(got), normObj(wr.obj)) {
				key := "object-differs"
				if wr.inObjStm {
					key = "objstm-object-differs"
				}
				if !isStm && fioIsAliased(got, wr.obj) {
					key = "put-aliases-caller-memory"
				}
				gw := "stream"
				if !isStm {
					gw = wireNorm(got)
				}
				v = append(v, fioViolation{key, fmt.Sprintf("Get(%v) (op %d) = %s, written %s", ref, wr.opIndex, gw, wireNorm(wr.obj))})
			}
			continue
		}
		stm, ok := got.(*pdf.Stream)
		if !ok {
			v = append(v, fioViolation{"stream-lost", fmt.Sprintf("Get(%v) (op %d) is %T, written a stream", ref, wr.opIndex, got)})
			continue
		}
		gd := pdf.Dict{}
		for k, val := range stm.Dict {
			if k != "Filter" && k != "DecodeParms" {
				gd[k] = val
			}
		}
		wd := pdf.Dict{}
		for k, val := range wr.dict {
			if k != "Filter" && k != "DecodeParms" {
				wd[k] = val
			}
		}
		if !objEqual(normObj(gd), normObj(wd)) {
			v = append(v, fioViolation{"stream-dict-differs", fmt.Sprintf("Get(%v) (op %d): dictionary %s, written %s", ref, wr.opIndex, wireNorm(gd), wireNorm(wr.dict))})
		}
		dr, err := pdf.DecodeStream(rd, nil, stm)
		var data []byte
		if err == nil {
			data, err = io.ReadAll(dr)
		}
		if err != nil {
			v = append(v, fioViolation{"stream-decode-failed", fmt.Sprintf("Get(%v) (op %d) filters %v: %v", ref, wr.opIndex, wr.filters, err)})
			continue
		}
		if !bytes.Equal(data, wr.data) {
			v = append(v, fioViolation{"stream-data-differs", fmt.Sprintf("Get(%v) (op %d) filters %v: %d bytes read, %d written; got %q want %q", ref, wr.opIndex, wr.filters, len(data), len(wr.data), truncate(string(data)), truncate(string(wr.data)))})
		}
	}
	// references never written read as null
	never := []pdf.Reference{res.pages, pdf.NewReference(res.nextRef+3, 0), pdf.NewReference(1<<24-1, 0)}
	for _, ref := range res.allocated {
		if _, ok := res.written[ref]; !ok {
			never = append(never, ref)
		}
	}
	// error-then-continue: what a failed operation named, and nothing wrote later, is absent
	never = append(never, res.failedRefs...)
	for _, ref := range never {
		if _, ok := res.written[ref]; ok {
			continue
		}
		written := false
		for w := range res.written {
			if w.Number() == ref.Number() {
				written = true
			}
		}
		if written {
			continue
		}
		got, err := rd.Get(ref, true)
		if err != nil || got != nil {
			v = append(v, fioViolation{"unwritten-not-null", fmt.Sprintf("Get(%v) of a reference never written = %v, %v", ref, got, err)})
		}
	}
	// a written number under another generation is absent as well
	for _, ref := range res.order {
		other := pdf.NewReference(ref.Number(), ref.Generation()+1)
		if _, ok := res.written[other]; ok {
			continue
		}
		got, err := rd.Get(other, true)
		if err != nil || got != nil {
			v = append(v, fioViolation{"wrong-generation-not-null", fmt.Sprintf("Get(%v) = %v, %v", other, got, err)})
		}
		break
	}
	return v
}

func replayFIOProg(input string) (bool, string) {
	p, err := fioParseProg(input)
	if err != nil {
		return true, "bad replay input: " + err.Error()
	}
	res := fioExec(p, nil)
	var msgs []string
	if res.failedAt != -1 {
		msgs = append(msgs, fmt.Sprintf("writer failed at op %d: %v", res.failedAt, res.err))
	}
	for _, v := range oracleFileRoundTrip(res) {
		msgs = append(msgs, v.key+": "+v.desc)
	}
	if len(msgs) == 0 {
		return true, "file round trip holds"
	}
	return false, strings.Join(msgs, "\n")
}

// ---- model program (correspondence) ----

// fioDiskObjects parses the written file with a scanner that does not decrypt:
// the objects as they are on disk.
type fioDisk struct {
	file  []byte
	xref  map[uint32]pdf.VerifFIOEntry
	cache map[uint32]pdf.Object
}

func (d *fioDisk) getInt(o pdf.Object) (pdf.Integer, error) {
	switch x := o.(type) {
	case pdf.Integer:
		return x, nil
	case pdf.Reference:
		v, err := d.get(x.Number())
		if err != nil {
			return 0, err
		}
		if i, ok := v.(pdf.Integer); ok {
			return i, nil
		}
	}
	return 0, errors.New("no integer")
}

func (d *fioDisk) get(num uint32) (pdf.Object, error) {
	if o, ok := d.cache[num]; ok {
		return o, nil
	}
	e, ok := d.xref[num]
	if !ok || e.Pos < 0 || e.InStream != 0 || e.Pos >= int64(len(d.file)) {
		return nil, fmt.Errorf("object %d not in the file", num)
	}
	s := pdf.NewVerifScanner(bytes.NewReader(d.file[e.Pos:]), fioOffsetReaderAt{d.file, e.Pos}, d.getInt)
	o, _, err := s.ReadIndirectObject()
	if err != nil {
		return nil, err
	}
	d.cache[num] = o
	return o, nil
}

// fioOffsetReaderAt serves absolute stream offsets of a scanner that was
// started at base (the scanner counts positions from its own start).
type fioOffsetReaderAt struct {
	file []byte
	base int64
}

func (r fioOffsetReaderAt) ReadAt(p []byte, off int64) (int, error) {
	if off < 0 || off+r.base < 0 {
		// as bytes.Reader and os.File do (a /Length near MaxInt64 makes
		// start+declared wrap around in ReadStreamData)
		return 0, errors.New("negative offset")
	}
	off += r.base
	if off >= int64(len(r.file)) {
		return 0, io.EOF
	}
	n := copy(p, r.file[off:])
	if n < len(p) {
		return n, io.EOF
	}
	return n, nil
}

func (d *fioDisk) rawStream(num uint32) (pdf.Dict, []byte, error) {
	o, err := d.get(num)
	if err != nil {
		return nil, nil, err
	}
	stm, ok := o.(*pdf.Stream)
	if !ok {
		return nil, nil, fmt.Errorf("object %d is %T, not a stream", num, o)
	}
	raw, err := io.ReadAll(stm.NewReader())
	return stm.Dict, raw, err
}

// fioMergeStrings returns prog with every string replaced by the string at
// the same place in disk (the object as parsed from the encrypted file without
// decryption).  The structure is taken from prog because a round trip through
// the file loses the difference between a nil entry and a typed nil array.
func fioMergeStrings(prog, disk pdf.Object) pdf.Object {
	switch x := prog.(type) {
	case pdf.String:
		if y, ok := disk.(pdf.String); ok {
			return y
		}
	case pdf.Array:
		if x == nil {
			return x
		}
		y, _ := disk.(pdf.Array)
		out := make(pdf.Array, len(x))
		for i := range x {
			var yi pdf.Object
			if i < len(y) {
				yi = y[i]
			}
			out[i] = fioMergeStrings(x[i], yi)
		}
		return out
	case pdf.Dict:
		if x == nil {
			return x
		}
		y, _ := disk.(pdf.Dict)
		out := pdf.Dict{}
		for k, v := range x {
			out[k] = fioMergeStrings(v, y[k])
		}
		return out
	}
	return prog
}

// fioMergeStreamDict merges the strings and takes /Filter and /DecodeParms
// (added by OpenStream) from the dictionary on disk.
func fioMergeStreamDict(prog, disk pdf.Dict) pdf.Dict {
	out := fioMergeStrings(prog, disk).(pdf.Dict)
	for _, k := range []pdf.Name{"Filter", "DecodeParms"} {
		if v, ok := disk[k]; ok {
			out[k] = v
		}
	}
	return out
}

func fioInflate(raw []byte) ([]byte, error) {
	zr, err := zlib.NewReader(bytes.NewReader(raw))
	if err != nil {
		return nil, err
	}
	return io.ReadAll(zr)
}

var errFioSkip = errors.New("no model line for this program")

// fioModelLine builds the "FIO prog" line for an executed program.
func fioModelLine(res *fioResult) (string, error) {
	p := res.prog
	flags := ""
	if p.human {
		flags += "h"
	}
	if p.seekable {
		flags += "s"
	}
	if p.encrypt {
		flags += "e"
	}
	if flags == "" {
		flags = "-"
	}
	disk := &fioDisk{file: res.file, xref: map[uint32]pdf.VerifFIOEntry{}, cache: map[uint32]pdf.Object{}}
	for _, e := range res.xref {
		disk.xref[e.Num] = e
	}
	if len(res.mutated) > 0 {
		// the caller's values are no longer what the program says (reported by the oracle)
		return "", errFioSkip
	}
	failed := res.failedAt != -1
	if failed && p.cont {
		return "", errFioSkip
	}
	if failed {
		// The bytes which reached the writer through filters or ciphers are
		// taken from the finished file; a program that failed has none.
		if p.encrypt {
			return "", errFioSkip
		}
		for i := 0; i < len(p.ops) && i <= res.failedAt; i++ {
			if p.ops[i].kind == 'O' && len(p.ops[i].filters) > 0 {
				return "", errFioSkip
			}
			if p.ops[i].kind == 'Z' && !p.human && p.version >= pdf.V1_5 && len(p.ops[i].refs) > 0 && i < res.failedAt {
				return "", errFioSkip
			}
		}
	}
	ops := []string{"A"} // the Pages reference allocated by fioExec
	nops := len(p.ops)
	if failed && res.failedAt < nops {
		nops = res.failedAt + 1
	}
	// object numbers of the object streams: handed out by the hidden Alloc of
	// WriteCompressed; found through the entries of their members
	objForModel := func(ref pdf.Reference, o pdf.Object) (string, error) {
		if !p.encrypt {
			return wire(o), nil
		}
		d, err := disk.get(ref.Number())
		if err != nil {
			return "", err
		}
		return wire(fioMergeStrings(o, d)), nil
	}
	for i := 0; i < nops; i++ {
		op := &p.ops[i]
		if op.failed {
			// error-then-continue: the model must refuse the operation as well ("!"), or — an
			// OpenStream failing behind setXRef — roll the entry back ("F")
			switch op.kind {
			case 'F':
				if op.failKind != "crypt2" {
					ops = append(ops, fmt.Sprintf("F~%d~%d", op.ref.Number(), op.ref.Generation()))
				}
			case 'P':
				ops = append(ops, fmt.Sprintf("!P~%d~%d~%s", op.ref.Number(), op.ref.Generation(), wire(op.obj)))
			case 'S':
				ops = append(ops, fmt.Sprintf("!S~%d~%d~%s~-~%s", op.ref.Number(), op.ref.Generation(), wire(op.dict), hexWire(op.data)))
			case 'O':
				ops = append(ops, fmt.Sprintf("!O~%d~%d~%s~-", op.ref.Number(), op.ref.Generation(), wire(op.dict)))
			case 'Z':
				var sb strings.Builder
				sb.WriteString("!Z~-")
				for k, ref := range op.refs {
					fmt.Fprintf(&sb, "~%d~%d~%s", ref.Number(), ref.Generation(), wire(op.objs[k]))
				}
				ops = append(ops, sb.String())
			case 'E', 'Y':
				// an object which cannot be formatted is refused before anything is
				// changed: for the model the operation did not take place
			default:
				return "", errFioSkip
			}
			continue
		}
		switch op.kind {
		case 'A':
			ops = append(ops, "A")
		case 'C':
			ops = append(ops, "C")
		case 'P':
			w, err := objForModel(op.ref, op.obj)
			if err != nil {
				if failed {
					w = wire(op.obj)
				} else {
					return "", err
				}
			}
			ops = append(ops, fmt.Sprintf("P~%d~%d~%s", op.ref.Number(), op.ref.Generation(), w))
		case 'S':
			ul := "-"
			if failed {
				ops = append(ops, fmt.Sprintf("S~%d~%d~%s~%s~%s", op.ref.Number(), op.ref.Generation(), wire(op.dict), ul, hexWire(op.data)))
				continue
			}
			dict, raw, err := disk.rawStream(op.ref.Number())
			if err != nil {
				return "", err
			}
			dict = fioMergeStreamDict(op.dict, dict)
			if !p.encrypt {
				if !bytes.Equal(raw, op.data) {
					return "", fmt.Errorf("stream %v: raw data on disk differs from the data written", op.ref)
				}
			}
			ops = append(ops, fmt.Sprintf("S~%d~%d~%s~%s~%s", op.ref.Number(), op.ref.Generation(), wire(dict), ul, hexWire(raw)))
		case 'O':
			ul := "-"
			if op.userLen >= 0 {
				ul = fmt.Sprint(op.userLen)
			}
			dict := op.dict
			if !failed && (len(op.filters) > 0 || p.encrypt) {
				d, _, err := disk.rawStream(op.ref.Number())
				if err != nil {
					return "", err
				}
				dict = fioMergeStreamDict(op.dict, d)
			}
			ops = append(ops, fmt.Sprintf("O~%d~%d~%s~%s", op.ref.Number(), op.ref.Generation(), wire(dict), ul))
			if !failed && (len(op.filters) > 0 || p.encrypt) {
				// the encoded bytes reach the writer in pieces we do not see; the
				// generator makes no Alloc between the first Write and Close, so
				// one piece at the Close is equivalent
				_, raw, err := disk.rawStream(op.ref.Number())
				if err != nil {
					return "", err
				}
				depth := 0
				for j := i + 1; j < nops; j++ {
					if p.ops[j].kind == 'C' && depth == 0 {
						p.ops[j].data = raw // remembered for the C below
						p.ops[j].userLen = 1
						break
					}
				}
			}
		case 'W':
			// data of filtered/encrypted streams is delivered at the Close
			filtered := false
			for j := i - 1; j >= 0; j-- {
				if p.ops[j].kind == 'O' && !p.ops[j].failed {
					filtered = !failed && (len(p.ops[j].filters) > 0 || p.encrypt)
					break
				}
			}
			if !filtered {
				ops = append(ops, "W~"+hexWire(op.data))
			}
		case 'Z':
			// the raw bytes of the object stream(s): WriteCompressed splits more
			// than maxObjStmObjects members over several streams
			rawArg := "-"
			if !failed && !p.human && p.version >= pdf.V1_5 && len(op.refs) > 0 {
				var parts []string
				last := uint32(0)
				for _, ref := range op.refs {
					e, ok := disk.xref[ref.Number()]
					if !ok || e.InStream == 0 {
						return "", fmt.Errorf("member %v of an object stream has no compressed entry", ref)
					}
					if e.InStream == last {
						continue
					}
					last = e.InStream
					_, raw, err := disk.rawStream(e.InStream)
					if err != nil {
						return "", err
					}
					parts = append(parts, hexWire(raw))
				}
				rawArg = strings.Join(parts, "+")
			}
			var sb strings.Builder
			sb.WriteString("Z~" + rawArg)
			for k, ref := range op.refs {
				var o pdf.Object
				if k < len(op.objs) {
					o = op.objs[k]
				}
				w := wire(o)
				if p.encrypt && (p.human || p.version < pdf.V1_5) && !failed {
					// written as plain objects: strings are encrypted on disk
					d, err := disk.get(ref.Number())
					if err != nil {
						return "", err
					}
					w = wire(fioMergeStrings(o, d))
				}
				fmt.Fprintf(&sb, "~%d~%d~%s", ref.Number(), ref.Generation(), w)
			}
			ops = append(ops, sb.String())
		}
		if op.kind == 'C' && op.userLen == 1 && op.data != nil {
			// turn "C" into "W raw | C"
			ops[len(ops)-1] = "W~" + hexWire(op.data)
			ops = append(ops, "C")
		}
	}
	if !failed || res.failedAt == len(p.ops) {
		// Close: catalog, Info, trailer, xref stream data — all taken from disk
		if failed {
			return "", errors.New("Close failed")
		}
		tr, xrefRaw, err := fioTrailer(res.file, disk)
		if err != nil {
			return "", err
		}
		root, _ := tr["Root"].(pdf.Reference)
		cat, err := disk.get(root.Number())
		if err != nil {
			return "", fmt.Errorf("catalog: %w", err)
		}
		infoW := "-"
		if iref, ok := tr["Info"].(pdf.Reference); ok {
			io, err := disk.get(iref.Number())
			if err != nil {
				return "", fmt.Errorf("info: %w", err)
			}
			infoW = wire(io)
		}
		base := pdf.Dict{}
		for _, k := range []pdf.Name{"ID", "Encrypt"} {
			if val, ok := tr[k]; ok {
				base[k] = val
			}
		}
		ops = append(ops, fmt.Sprintf("X~%s~%s~%s~%s", wire(cat), infoW, wire(base), hexWire(xrefRaw)))
	}
	return fmt.Sprintf("FIO prog %d %s %s", int(p.version), flags, strings.Join(ops, "|")), nil
}

// fioTrailer finds the cross-reference section through startxref and returns
// the trailer dictionary (or xref stream dictionary) and the raw data of the
// xref stream (nil for a table).
func fioTrailer(file []byte, disk *fioDisk) (pdf.Dict, []byte, error) {
	i := bytes.LastIndex(file, []byte("startxref\n"))
	if i < 0 {
		return nil, nil, errors.New("no startxref")
	}
	rest := file[i+10:]
	j := bytes.IndexByte(rest, '\n')
	if j < 0 {
		return nil, nil, errors.New("no startxref value")
	}
	pos, err := strconv.Atoi(string(rest[:j]))
	if err != nil || pos >= len(file) {
		return nil, nil, errors.New("bad startxref value")
	}
	if bytes.HasPrefix(file[pos:], []byte("xref")) {
		_, tr, _, err := pdf.VerifReadXRefTable(nil, file[pos:])
		return tr, nil, err
	}
	s := pdf.NewVerifScanner(bytes.NewReader(file[pos:]), fioOffsetReaderAt{file, int64(pos)}, disk.getInt)
	o, _, err := s.ReadIndirectObject()
	if err != nil {
		return nil, nil, err
	}
	stm, ok := o.(*pdf.Stream)
	if !ok {
		return nil, nil, errors.New("startxref does not point to a stream")
	}
	raw, err := io.ReadAll(stm.NewReader())
	return stm.Dict, raw, err
}

// ---- run ----

func init() {
	addRun("C02", "writer programs over {Alloc, Put, Put of a stream object, OpenStream/Write*/Close with filter chains and caller-supplied /Length, Put and Alloc while a stream is open, WriteCompressed, references never written, the same Go value written twice, Close} x 9 versions x HumanReadable x {seekable, non-seekable sink} x {none, RC4-40, RC4-128, AES-128, AES-256}; bodies with endstream/endobj/EOLs at the edges and sizes around the 1024-byte buffering limit; each program is run on the real Writer, the file is reopened with pdf.NewReader and every reference, stream, never-written reference, version/ID/Info/Catalog compared; arguments are snapshotted around every call; programs broken on purpose must be refused; the Lean writer model must produce the same bytes. Non-trivial: at least one object written; distinct by program text.", runFIOProg)
	addReplay("C02", "file-roundtrip", replayFIOProg)
}

// fioStatCont counts the operations which failed in error-then-continue programs.
func fioStatCont(c *Ctx, res *fioResult) {
	if !res.prog.cont {
		return
	}
	c.Stat("prog_error_then_continue")
	if res.prog.risky != "" {
		c.Stat("prog_cont_" + res.prog.risky)
	}
	retried := map[uint32]bool{}
	for _, op := range res.prog.ops {
		if !op.failed {
			continue
		}
		name := string(op.kind)
		if op.kind == 'F' {
			name = "F_" + op.failKind
			for w := range res.written {
				if w.Number() == op.ref.Number() && !retried[w.Number()] {
					retried[w.Number()] = true
					c.Stat("cont_openstream_retried_ok")
				}
			}
		}
		c.Stat("cont_failed_" + name)
	}
}

func fioStatProg(c *Ctx, res *fioResult) {
	p := res.prog
	c.Stat(fmt.Sprintf("prog_version_%d", int(p.version)))
	if p.human {
		c.Stat("prog_human")
	}
	if p.seekable {
		c.Stat("prog_seekable")
	} else {
		c.Stat("prog_nonseekable")
	}
	if p.encrypt {
		switch {
		case p.version >= pdf.V2_0:
			c.Stat("prog_enc_AES256")
		case p.version >= pdf.V1_6:
			c.Stat("prog_enc_AES128")
		case p.version >= pdf.V1_4:
			c.Stat("prog_enc_RC4_128")
		default:
			c.Stat("prog_enc_RC4_40")
		}
	} else {
		c.Stat("prog_enc_none")
	}
	inStream := false
	for _, op := range p.ops {
		c.Stat("op_" + string(op.kind))
		switch op.kind {
		case 'O':
			inStream = true
			if op.userLen >= 0 {
				c.Stat("op_O_userLength")
			}
			if op.same >= 0 {
				c.Stat("op_O_same_dict_again")
			}
			if op.ref.Generation() != 0 {
				c.Stat("op_O_nonzero_generation")
			}
			for _, f := range op.filters {
				c.Stat("filter_" + f)
			}
		case 'C':
			inStream = false
		case 'S':
			if op.same >= 0 {
				c.Stat("op_S_same_stream_again")
			}
			if op.ref.Generation() != 0 {
				c.Stat("op_S_nonzero_generation")
			}
			if op.dict["Filter"] == pdf.Name("Crypt") {
				c.Stat("op_S_crypt_filter_in_dict")
			}
		case 'P':
			if inStream {
				c.Stat("op_P_deferred")
			}
			if op.same >= 0 {
				c.Stat("op_P_same_value_again")
			}
		case 'A':
			if inStream {
				c.Stat("op_A_in_stream")
			}
		}
	}
	for _, wr := range res.written {
		if wr.isStream {
			switch n := len(wr.data); {
			case n < 1024:
				c.Stat("stream_short")
			default:
				c.Stat("stream_long")
			}
		}
	}
}

// fioCloseOverflowCase: the largest object number is used by the caller, so that
// Close, which allocates numbers itself, has none left: it must report an error,
// not panic.
func fioCloseOverflowCase(c *Ctx) {
	for _, v := range []pdf.Version{pdf.V1_4, pdf.V1_7} {
		p := &fioProg{version: v, seekable: true, risky: "close-panics-object-number-overflow",
			ops: []fioOp{{kind: 'P', ref: pdf.NewReference(1<<24-1, 0), obj: pdf.Integer(1), same: -1, userLen: -1}}}
		res := fioExec(p, nil)
		text := p.String()
		c.Case(text, true)
		c.Stat("prog_close_overflow")
		if res.panicked {
			c.Violate("file-roundtrip", p.risky, fmt.Sprintf("Put(%v) was accepted and Writer.Close panics: %v", p.ops[0].ref, res.err), text)
		} else if res.failedAt == -1 {
			c.Violate("file-roundtrip", p.risky, "Close succeeded although no object number was left for the catalog", text)
		}
	}
}

// fioFeaturePrograms: one small program per class of behaviour which the random
// generator reaches only now and then, so that every class is exercised in every
// quick run (both cross-reference forms, both kinds of sink).
func fioFeaturePrograms() []*fioProg {
	ref := func(n int) pdf.Reference { return pdf.NewReference(uint32(n), 0) }
	put := func(n int, o pdf.Object) fioOp { return fioOp{kind: 'P', ref: ref(n), obj: o, same: -1, userLen: -1} }
	alloc := fioOp{kind: 'A', same: -1, userLen: -1}
	var progs []*fioProg
	for _, v := range []pdf.Version{pdf.V1_4, pdf.V1_7} {
		for _, seekable := range []bool{true, false} {
			mk := func(risky string, cont bool, ops ...fioOp) {
				progs = append(progs, &fioProg{version: v, seekable: seekable, cont: cont, risky: risky, ops: ops})
			}
			// (object 1 is the page tree reference which fioExec allocates)
			for _, kind := range []string{"stream", "operator"} {
				mk("put-format-error-residue", true, alloc, alloc, alloc, put(2, pdf.Integer(5)),
					fioOp{kind: 'E', ref: ref(3), failKind: kind, mustFail: true}, put(3, pdf.Name("retried")), put(4, pdf.Integer(7)))
			}
			for _, kind := range []string{"nan", "+inf", "-inf"} {
				mk("non-finite-number-written", true, alloc, alloc, alloc, put(2, pdf.Integer(5)),
					fioOp{kind: 'E', ref: ref(3), failKind: kind, mustFail: true}, put(3, pdf.Name("retried")), put(4, pdf.Integer(7)))
			}
			mk("non-finite-number-written", true, alloc, alloc, alloc,
				fioOp{kind: 'Y', refs: []pdf.Reference{ref(2), ref(3)}, failKind: "0:nan", mustFail: true}, put(2, pdf.Integer(1)), put(4, pdf.Name("C")))
			for _, bad := range []string{"0:stream", "1:stream"} {
				mk("writecompressed-error-residue", true, alloc, alloc, alloc,
					fioOp{kind: 'Y', refs: []pdf.Reference{ref(2), ref(3)}, failKind: bad, mustFail: true},
					put(2, pdf.Integer(1)), put(3, pdf.Integer(2)), put(4, pdf.Name("C")))
			}
			mk("writecompressed-error-residue", true, alloc, alloc, alloc, put(2, pdf.Integer(1)),
				fioOp{kind: 'Z', refs: []pdf.Reference{ref(3), ref(2)}, objs: []pdf.Object{pdf.Integer(1), pdf.Integer(2)}, mustFail: true},
				put(3, pdf.Integer(3)), put(4, pdf.Name("C")))
			// names with '#' followed by two hex digits, as keys and as values: formatName must
			// escape the '#', or "A#42" is read back as "AB"
			hashes := pdf.Dict{"A#42": pdf.Name("#FF8000"), "K": pdf.Array{pdf.Name("x#20y"), pdf.Name("#"), pdf.Name("a#b#4")}, "#23": pdf.Integer(1)}
			mk("name-hash-not-escaped", false, alloc, alloc, alloc, alloc, put(2, hashes), put(3, pdf.Name("A#42")),
				fioOp{kind: 'O', ref: ref(5), dict: pdf.Dict{"S#2F": pdf.Name("v#00")}, userLen: -1, same: -1}, fioOp{kind: 'W', data: []byte("abc")}, fioOp{kind: 'C'},
				fioOp{kind: 'Z', refs: []pdf.Reference{ref(4)}, objs: []pdf.Object{pdf.Dict{"Z#5A": pdf.Name("#41#42"), "N": pdf.Name("A#42")}}})
			mk("writecompressed-container-takes-member-number", false,
				fioOp{kind: 'Z', refs: []pdf.Reference{ref(2), ref(3)}, objs: []pdf.Object{pdf.Dict{"Own": pdf.Integer(0)}, pdf.Integer(2)}},
				alloc, put(5, pdf.Name("after")))
			mk("deferred-put-aliases-caller-object", false, alloc, alloc, alloc,
				fioOp{kind: 'O', ref: ref(2), dict: pdf.Dict{}, userLen: -1, same: -1},
				fioOp{kind: 'W', data: []byte("abc")},
				fioOp{kind: 'P', ref: ref(3), obj: pdf.Dict{"A": pdf.Integer(1), "B": pdf.Integer(2)}, same: -1, userLen: -1, mutate: true},
				fioOp{kind: 'P', ref: ref(4), obj: pdf.Array{pdf.Integer(1), pdf.Name("x")}, same: -1, userLen: -1, mutate: true},
				fioOp{kind: 'C'})
			if v >= pdf.V1_2 {
				mk("openstream-filter-order", false, alloc,
					fioOp{kind: 'O', ref: ref(2), dict: pdf.Dict{"K": pdf.Integer(1)}, filters: []string{"Fl"}, userLen: -1, same: -1, pre: true, data: []byte("payload")},
					fioOp{kind: 'W', data: []byte(hex.EncodeToString([]byte("payload")) + ">")},
					fioOp{kind: 'C'})
			}
		}
	}
	return progs
}

func runFIOProg(c *Ctx) {
	fioCloseOverflowCase(c)
	for _, p := range fioFeaturePrograms() {
		fioRunOneProg(c, fioExec(p, nil), 0, false)
	}
	r := c.R.Fork()
	n := 450
	if c.Thorough {
		n = 15000
	}
	for i := 0; i < n; i++ {
		broken := 0
		if r.P(1, 8) {
			broken = 1 + r.Intn(5)
		} else if r.P(1, 5) {
			broken = -1 // error-then-continue
			if r.P(1, 4) {
				broken = -2 // … with one failing operation known to leave traces
			}
		}
		fioRunOneProg(c, fioGenProg(r.Fork(), c.Thorough, broken), broken, i < 4)
	}
}

// fioRunOneProg judges one executed program: oracle on the implementation and
// the line for the writer model.
func fioRunOneProg(c *Ctx, res *fioResult, broken int, sample bool) {
	text := res.prog.String()
	c.Case(text, len(res.written) > 0)
	fioStatProg(c, res)
	fioStatCont(c, res)
	if !res.prog.cont && res.prog.risky != "" {
		c.Stat("prog_feature_" + res.prog.risky)
	}
	if sample {
		c.Sample("program: " + text)
	}
	if res.failedAt == -2 {
		c.Violate("file-roundtrip", "newwriter-failed", "NewWriter: "+res.err.Error(), text)
		return
	}
	expectFail := broken > 0 && res.failedAt >= 0
	if res.failedAt != -1 {
		c.Stat("prog_failed")
		if broken <= 0 {
			key := "writer-rejects-valid-program"
			if res.panicked {
				key = "writer-panic"
			}
			key = fioClassifyFailure(res, key)
			if res.prog.risky != "" {
				key = res.prog.risky
			}
			c.Violate("file-roundtrip", key, fmt.Sprintf("op %d of a valid program failed: %v", res.failedAt, res.err), text)
		}
	} else if broken > 0 {
		c.Stat("prog_broken_but_accepted")
	}
	_ = expectFail
	for _, v := range oracleFileRoundTrip(res) {
		if res.prog.risky != "" && v.key != "xref-stream-entry-cap" && v.key != "put-aliases-caller-memory" {
			v.key = res.prog.risky
		}
		c.Violate("file-roundtrip", v.key, v.desc, text)
	}
	// correspondence with the writer model: same bytes, or failure at the same operation
	line, err := fioModelLine(res)
	if err == errFioSkip {
		c.Stat("prog_without_model_line")
		return
	}
	if err != nil {
		if res.failedAt == -1 {
			c.Violate("file-roundtrip", "file-not-parseable", "taking the written file apart: "+err.Error(), text)
		}
		return
	}
	if res.failedAt != -1 {
		c.Emit(line, fmt.Sprintf("err %d", res.failedAt+1))
	} else {
		c.Emit(line, "ok "+hexWire(res.file))
	}
}

// fioClassifyFailure recognises the failure classes recorded in notes/C02.md.
func fioClassifyFailure(res *fioResult, key string) string {
	p := res.prog
	if res.failedAt < 0 || res.failedAt >= len(p.ops) {
		return key
	}
	op := p.ops[res.failedAt]
	if res.panicked && op.kind == 'Z' && len(op.refs) == 0 {
		return "writecompressed-empty-panic"
	}
	if op.kind == 'C' && res.err != nil && strings.Contains(res.err.Error(), "object already written") {
		// was a stream object Put while this stream was open?
		for j := res.failedAt - 1; j >= 0 && p.ops[j].kind != 'O'; j-- {
			if p.ops[j].kind == 'S' {
				return "put-stream-while-stream-open"
			}
		}
	}
	return key
}

var _ = sort.Strings

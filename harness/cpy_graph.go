package main

import (
	"bytes"
	"errors"
	"fmt"
	"io"
	"math"
	"sort"
	"strings"

	"golang.org/x/text/language"

	"seehuhn.de/go/pdf"
	"seehuhn.de/go/xmp"
)

// C11 — Copier: source graph generator, the Getter the copier reads from,
// and the description of the source as the copier sees it (model input).

// cpyMem is a seekable in-memory file.
type cpyMem struct {
	Data   []byte
	Offset int64
}

func (f *cpyMem) Write(p []byte) (int, error) {
	if f.Offset > int64(len(f.Data)) {
		f.Data = append(f.Data, make([]byte, f.Offset-int64(len(f.Data)))...)
	}
	if f.Offset == int64(len(f.Data)) {
		f.Data = append(f.Data, p...)
	} else {
		n := copy(f.Data[f.Offset:], p)
		if n < len(p) {
			f.Data = append(f.Data, p[n:]...)
		}
	}
	f.Offset += int64(len(p))
	return len(p), nil
}

func (f *cpyMem) Read(p []byte) (int, error) {
	if f.Offset >= int64(len(f.Data)) {
		return 0, io.EOF
	}
	n := copy(p, f.Data[f.Offset:])
	f.Offset += int64(n)
	return n, nil
}

func (f *cpyMem) Seek(offset int64, whence int) (int64, error) {
	var n int64
	switch whence {
	case io.SeekStart:
		n = offset
	case io.SeekCurrent:
		n = f.Offset + offset
	case io.SeekEnd:
		n = int64(len(f.Data)) + offset
	}
	if n < 0 {
		return 0, errors.New("negative offset")
	}
	f.Offset = n
	return n, nil
}

// cpyMemAt is a cpyMem which also implements io.ReaderAt (like os.File).  Writer.Get reads
// stream data through ReadAt; a sink without it cannot hand out streams.
type cpyMemAt struct{ cpyMem }

func (f *cpyMemAt) ReadAt(p []byte, off int64) (int, error) {
	if off < 0 || off >= int64(len(f.Data)) {
		return 0, io.EOF
	}
	n := copy(p, f.Data[off:])
	if n < len(p) {
		return n, io.EOF
	}
	return n, nil
}

// cpyWriteOnly hides Seek, so that the writer has to use indirect /Length
// objects for streams whose length is not known when the dictionary is written.
type cpyWriteOnly struct{ buf bytes.Buffer }

func (w *cpyWriteOnly) Write(p []byte) (int, error) { return w.buf.Write(p) }

type cpyOverride int

const (
	ovNone   cpyOverride = iota
	ovBad                // Get answers with a MalformedFileError
	ovIO                 // Get answers with an I/O error
	ovObj                // Get answers with ovObj (objects the Writer cannot produce: null dict entries, nil arrays)
	ovStream             // the stream read from the file, with dictionary entries replaced (indirect /Filter, /DecodeParms)
)

const (
	nkObj = iota
	nkStream
	nkFree // allocated, never written
)

type cpyNode struct {
	ref        pdf.Reference
	kind       int
	obj        pdf.Object
	dict       pdf.Dict
	data       []byte
	filters    []pdf.Filter
	compressed bool
	ov         cpyOverride
	ovObj      pdf.Native
	ovEdit     map[pdf.Name]pdf.Object
	cryptCF    map[pdf.Name]pdf.Object // /Filter and /DecodeParms naming a non-Identity crypt filter (presented by the wrapper)
	virtStm    bool // override object which behaves like a member of an object stream
	aesLen     int  // >0: stored length+1 of an AES stream cut down in the file (1: empty, 2..32: 1..31 bytes)
	selfFilter int  // 1: /Filter refers to the stream itself, 2: to another stream (3, 4: the same for /DecodeParms)
	meta       bool // stream with /Type /Metadata
	noTruth    bool // the stream's filter chain is bogus on purpose: it does not decode to data
}

type cpyOp struct {
	catMeta bool // the reference is the source catalog's /Metadata (filled in by buildSource)
	later  int    // cg/co: the object returned by Copy is written only after this many further operations (0: at once)
	retry  bool   // inserted by the harness: repeat of a failed CopyReference
	kind   string // cr cg co rn rt
	ref    pdf.Reference
	obj    pdf.Object
	k      int
	marker pdf.Object
}

type cpyCase struct {
	seed            uint64
	srcVer, tgtVer  pdf.Version
	srcPw, tgtPw    string
	srcSeekable     bool
	tgtSeekable     bool
	tgtHuman        bool
	nodes           []*cpyNode
	extraRefs       []pdf.Reference // dangling: never allocated, wrong generation, object 0
	prog            []cpyOp
	mayFail         bool // the graph contains something that legitimately makes Copy fail
	hasCycle        bool
	lateRedirect    bool
	features        map[string]bool
	longChain       int           // length of a chain of references around the MaxExtractDepth limit (0: none)
	longHead        pdf.Reference // its first reference
	fixedProg       bool          // corpus case: prog is given, not generated
	tgtOpen         bool          // a stream is open on the target Writer during the whole program
	aesBroken       bool          // an AES stream was cut so that it cannot be decrypted: Copy has to fail with a malformed-file error
	srcWriter       bool          // the Copier reads from the source *Writer* (not closed, not reopened)
	srcNoReaderAt   bool          // ... whose sink can Read and Seek but has no ReadAt
	srcMeta         int           // catalog metadata of the source: 0 none, 1 ordinary (compressed, encrypted), 2 Plaintext (/EncryptMetadata false when encrypted)
	catalogMeta     pdf.Reference // the source catalog's /Metadata reference (0: none), set by buildSource
	foreign         *cpyForeign   // the source is a file made by the Spec (cpy_eff.go), not written by the Writer
}

// cpySrc is the Getter handed to the Copier: the real Reader plus the overrides.
type cpySrc struct {
	r     pdf.Getter // the real Reader, or the source Writer itself ("Writer as source")
	nodes map[pdf.Reference]*cpyNode
	gets  int // number of Get calls; a runaway recursion is stopped by a (recoverable) panic
}

const cpyMaxGets = 4000 // per copier operation (reset by the harness)

var cpyMaxGetsSeen int

func (s *cpySrc) GetMeta() *pdf.MetaInfo { return s.r.GetMeta() }

func (s *cpySrc) Get(ref pdf.Reference, canObjStm bool) (pdf.Native, error) {
	s.gets++
	if s.gets > cpyMaxGets {
		panic("runaway recursion: more than 4000 Get calls in one copier operation")
	}
	n := s.nodes[ref]
	if n != nil {
		switch n.ov {
		case ovBad:
			return nil, &pdf.MalformedFileError{Err: errors.New("injected malformed object")}
		case ovIO:
			return nil, errInjected
		case ovObj:
			if n.virtStm && !canObjStm {
				return nil, &pdf.MalformedFileError{Err: errors.New("object in object stream")}
			}
			return n.ovObj, nil
		}
	}
	obj, err := s.r.Get(ref, canObjStm)
	if err != nil {
		if !pdf.IsMalformed(err) {
			// a failure of the Getter which is not a defect of the file: the model's read error
			return nil, fmt.Errorf("%w (%v)", errInjected, err)
		}
		return nil, err
	}
	if n != nil && n.ov == ovStream {
		if st, ok := obj.(*pdf.Stream); ok {
			c := *st
			d := pdf.Dict{}
			for k, v := range st.Dict {
				d[k] = v
			}
			for k, v := range n.ovEdit {
				d[k] = v
			}
			c.Dict = d
			return &c, nil
		}
	}
	return obj, nil
}

// ---- object generator ----

var cpyKeys = []pdf.Name{"Type", "Subtype", "A", "B", "Kids", "Parent", "Next", "Prev", "Length", "Filter", "Z", "a", "Resources", "", "A B", "#"}

func cpyScalar(r *Rand) pdf.Object {
	switch r.Intn(9) {
	case 0:
		return nil
	case 1:
		return pdf.Boolean(r.Bool())
	case 2, 3:
		return genInt(r)
	case 4:
		switch r.Intn(3) {
		case 0:
			return pdf.Real(float64(r.Intn(2000)-1000) / 8)
		case 1:
			return pdf.Real(Pick(r, []float64{0, 1, -1, 0.5, 0.1, 1e-7, 123456789.125, 0.30000000000000004, 1e21}))
		default:
			for {
				x := math.Float64frombits(r.U64())
				if !math.IsNaN(x) && !math.IsInf(x, 0) {
					return pdf.Real(x)
				}
			}
		}
	case 5, 6:
		if r.P(1, 3) {
			return pdf.Name(genBytes(r, 8))
		}
		return pdf.Name(Pick(r, []string{"Page", "Font", "X", "FlateDecode", "Crypt", "Identity", "DeviceRGB"}))
	default:
		return pdf.String(genBytes(r, 24))
	}
}

// cpyObj generates a direct object; refs are drawn from pool.
func cpyObj(r *Rand, depth int, pool []pdf.Reference) pdf.Object {
	k := r.Intn(16)
	if depth <= 0 && k >= 11 {
		k = r.Intn(11)
	}
	switch {
	case k < 5:
		return cpyScalar(r)
	case k < 10:
		if len(pool) == 0 {
			return cpyScalar(r)
		}
		return Pick(r, pool)
	case k == 10:
		if r.Bool() {
			return pdf.Array{}
		}
		return pdf.Dict{}
	case k < 14:
		n := r.Intn(5)
		a := make(pdf.Array, n)
		for i := range a {
			a[i] = cpyObj(r, depth-1, pool)
		}
		return a
	default:
		n := r.Intn(5)
		d := pdf.Dict{}
		for i := 0; i < n; i++ {
			key := Pick(r, cpyKeys)
			if r.P(1, 6) {
				key = pdf.Name(genBytes(r, 6))
			}
			d[key] = cpyObj(r, depth-1, pool)
		}
		return d
	}
}

// cpyNullify returns a copy of o in which some dictionary entries are null and
// some arrays are nil arrays (objects a Reader can hand out or a caller can build,
// but which the Writer cannot write).
func cpyNullify(r *Rand, o pdf.Object) pdf.Object {
	switch x := o.(type) {
	case pdf.Array:
		if r.P(1, 8) {
			return pdf.Array(nil)
		}
		a := make(pdf.Array, len(x))
		for i, e := range x {
			a[i] = cpyNullify(r, e)
		}
		return a
	case pdf.Dict:
		if r.P(1, 12) {
			return pdf.Dict(nil) // like the nil Array: written as null (D99)
		}
		d := pdf.Dict{}
		for _, p := range sortedDict(x) {
			d[p.k] = cpyNullify(r, p.v)
		}
		if r.P(2, 3) {
			d[pdf.Name(Pick(r, []string{"Null", "A", "Type", "Zz"}))] = nil
		}
		return d
	}
	return o
}

type kvPair struct {
	k pdf.Name
	v pdf.Object
}

func sortedDict(d pdf.Dict) []kvPair {
	keys := make([]string, 0, len(d))
	for k := range d {
		keys = append(keys, string(k))
	}
	sort.Strings(keys)
	out := make([]kvPair, len(keys))
	for i, k := range keys {
		out[i] = kvPair{pdf.Name(k), d[pdf.Name(k)]}
	}
	return out
}

// remapRefs returns o with the references renamed by m.
func remapRefs(o pdf.Object, m map[pdf.Reference]pdf.Reference) pdf.Object {
	switch x := o.(type) {
	case pdf.Reference:
		if n, ok := m[x]; ok {
			return n
		}
	case pdf.Array:
		if x == nil {
			return x
		}
		a := make(pdf.Array, len(x))
		for i, e := range x {
			a[i] = remapRefs(e, m)
		}
		return a
	case pdf.Dict:
		d := pdf.Dict{}
		for k, v := range x {
			d[k] = remapRefs(v, m)
		}
		return d
	}
	return o
}

// refsIn appends the references occurring in o.
func refsIn(o pdf.Object, out []pdf.Reference) []pdf.Reference {
	switch x := o.(type) {
	case pdf.Reference:
		out = append(out, x)
	case pdf.Array:
		for _, e := range x {
			out = refsIn(e, out)
		}
	case pdf.Dict:
		for _, p := range sortedDict(x) {
			out = refsIn(p.v, out)
		}
	case *pdf.Stream:
		out = refsIn(x.Dict, out)
	}
	return out
}

var cpyVersions = []pdf.Version{pdf.V1_1, pdf.V1_2, pdf.V1_3, pdf.V1_4, pdf.V1_5, pdf.V1_6, pdf.V1_7, pdf.V2_0}

func cpyFilters(r *Rand, v pdf.Version) []pdf.Filter {
	var fs []pdf.Filter
	n := Pick(r, []int{0, 0, 1, 1, 1, 2, 3})
	for i := 0; i < n; i++ {
		switch r.Intn(6) {
		case 0:
			fs = append(fs, pdf.FilterASCIIHex{})
		case 1:
			fs = append(fs, pdf.FilterASCII85{})
		case 2:
			fs = append(fs, pdf.FilterRunLength{})
		case 3:
			if v >= pdf.V1_2 {
				fs = append(fs, pdf.FilterFlate{})
			}
		case 4:
			if v >= pdf.V1_2 {
				fs = append(fs, pdf.FilterFlate{Predictor: pdf.FlatePredictorPNGUp, Columns: 1 + r.Intn(6)})
			}
		default:
			fs = append(fs, pdf.FilterLZW{})
		}
	}
	return fs
}

// genCpyCase builds a case from a seed (the replay input).
func genCpyCase(seed uint64, thorough bool) *cpyCase {
	r := &Rand{s: seed}
	cs := &cpyCase{seed: seed, features: map[string]bool{}}
	cs.srcVer = Pick(r, cpyVersions)
	cs.tgtVer = Pick(r, cpyVersions)
	if r.P(1, 2) {
		cs.srcPw = "src-" + string(rune('a'+r.Intn(26)))
	}
	if r.P(1, 2) {
		cs.tgtPw = "tgt-" + string(rune('a'+r.Intn(26)))
	}
	// document-level metadata: only the catalog's /Metadata stream is exempt from encryption when
	// /EncryptMetadata is false; every other stream (also one with /Type /Metadata) is encrypted
	switch {
	case cs.srcVer >= pdf.V1_6 && r.P(1, 2):
		cs.srcMeta = 2
		cs.features["catalog-metadata-plaintext"] = true
		if cs.srcPw != "" {
			cs.features["encrypt-metadata-false"] = true
		}
	case cs.srcVer >= pdf.V1_4 && r.P(1, 3):
		cs.srcMeta = 1
		cs.features["catalog-metadata"] = true
	}
	cs.srcSeekable = r.P(2, 3)
	cs.tgtSeekable = r.P(4, 5)
	if r.P(1, 8) {
		// NewCopier(target, sourceWriter): a Writer is a Getter as long as its sink can seek
		cs.srcWriter = true
		cs.srcSeekable = true
		cs.srcMeta = 0
		delete(cs.features, "catalog-metadata")
		delete(cs.features, "catalog-metadata-plaintext")
		delete(cs.features, "encrypt-metadata-false")
		cs.srcNoReaderAt = r.Bool()
		cs.features["writer-as-source"] = true
		if cs.srcNoReaderAt {
			cs.features["writer-as-source-no-readerat"] = true
		}
	}
	cs.tgtHuman = r.P(1, 6)
	if r.P(1, 4) {
		cs.tgtOpen = true
		cs.features["target-stream-open"] = true
	}
	if r.P(1, 30) {
		cs.longChain = 253 + r.Intn(6)
		cs.features["long-chain"] = true
	}

	maxNodes := 10
	if thorough {
		maxNodes = 24
	}
	n := 1 + r.Intn(maxNodes)
	if r.P(1, 20) {
		n = maxNodes * 3
	}
	// the source writer allocates 1 for the page tree, then the nodes
	cs.nodes = make([]*cpyNode, n)
	pool := make([]pdf.Reference, 0, n+4)
	for i := range cs.nodes {
		cs.nodes[i] = &cpyNode{ref: pdf.NewReference(uint32(2+i), 0)}
		pool = append(pool, cs.nodes[i].ref)
	}
	// dangling references
	nd := r.Intn(3)
	for i := 0; i < nd; i++ {
		var d pdf.Reference
		switch r.Intn(4) {
		case 0:
			d = pdf.NewReference(uint32(5000+r.Intn(100)), 0)
		case 1:
			d = pdf.NewReference(uint32(2+r.Intn(n)), uint16(1+r.Intn(3))) // wrong generation
		case 2:
			d = pdf.NewReference(0, 0)
		default:
			d = pdf.NewReference(uint32(1<<23+r.Intn(1000)), uint16(r.Intn(2)))
		}
		cs.extraRefs = append(cs.extraRefs, d)
		pool = append(pool, d)
	}
	acyclic := r.P(1, 4) // references only to later nodes
	for i, nd := range cs.nodes {
		p := pool
		if acyclic {
			p = append(append([]pdf.Reference{}, pool[i+1:n]...), pool[n:]...)
		}
		switch k := r.Intn(20); {
		case k < 8:
			nd.kind = nkObj
			d := pdf.Dict{}
			m := r.Intn(6)
			for j := 0; j < m; j++ {
				key := Pick(r, cpyKeys)
				d[key] = cpyObj(r, 2, p)
			}
			nd.obj = d
		case k < 11:
			nd.kind = nkObj
			m := r.Intn(6)
			a := make(pdf.Array, m)
			for j := range a {
				a[j] = cpyObj(r, 2, p)
			}
			nd.obj = a
		case k < 13:
			nd.kind = nkObj
			nd.obj = cpyScalar(r)
		case k < 15:
			// a link of a reference chain
			nd.kind = nkObj
			if len(p) > 0 {
				nd.obj = Pick(r, p)
			} else {
				nd.obj = pdf.Integer(i)
			}
			cs.features["chain"] = true
		case k < 16:
			nd.kind = nkFree
			cs.features["free"] = true
		default:
			nd.kind = nkStream
			nd.dict = pdf.Dict{}
			m := r.Intn(4)
			for j := 0; j < m; j++ {
				key := Pick(r, []pdf.Name{"Type", "Subtype", "A", "Resources", "Next", "Z", "Parent"})
				nd.dict[key] = cpyObj(r, 2, p)
			}
			switch r.Intn(6) {
			case 0, 1:
				// a metadata stream which is not the catalog's
				nd.dict["Type"] = pdf.Name("Metadata")
				nd.dict["Subtype"] = pdf.Name("XML")
				nd.meta = true
				cs.features["noncatalog-metadata"] = true
			case 2:
				nd.dict["Type"] = pdf.Name("XObject")
				nd.dict["Subtype"] = pdf.Name(Pick(r, []string{"Form", "Image"}))
				cs.features["xobject"] = true
			}
			nd.dict["CpyId"] = pdf.Integer(i) // identifies the stream for the ground-truth comparison
			sz := Pick(r, []int{0, 1, 20, 300, 1023, 1024, 1500, 5000})
			if r.P(1, 2) {
				sz = r.Intn(200)
			}
			nd.data = genStreamBytes(r, sz)
			for _, f := range cpyFilters(r, cs.srcVer) {
				if _, _, err := f.Info(cs.srcVer); err == nil {
					nd.filters = append(nd.filters, f)
				}
			}
			cs.features["stream"] = true
			if cs.srcVer >= pdf.V1_5 && r.P(1, 8) {
				// the stream opts out of the document's encryption
				nd.filters = append([]pdf.Filter{pdf.FilterCryptIdentity{}}, nd.filters...)
				cs.features["crypt-identity"] = true
			} else if cs.srcVer >= pdf.V1_5 && r.P(1, 25) {
				// a crypt filter the library cannot decode: Copy has to refuse it where the source
				// is encrypted, Writer.Put refuses it otherwise.  The Writer does not write such a
				// stream either: the wrapping Getter presents the entries (buildSource).
				nd.filters = nil
				cf := pdf.Name(Pick(r, []string{"StdCF", "MyCF"}))
				if r.Bool() {
					nd.cryptCF = map[pdf.Name]pdf.Object{"Filter": pdf.Name("Crypt"), "DecodeParms": pdf.Dict{"Name": cf}}
				} else {
					nd.cryptCF = map[pdf.Name]pdf.Object{"Filter": pdf.Array{pdf.Name("Crypt"), pdf.Name("ASCIIHexDecode")},
						"DecodeParms": pdf.Array{pdf.Dict{"Name": cf}, nil}}
				}
				nd.noTruth = true
				cs.features["crypt-cf"] = true
				if cs.srcPw != "" {
					cs.mayFail = true
				}
			}
		}
		if nd.kind == nkObj && cs.srcVer >= pdf.V1_5 {
			if _, isRef := nd.obj.(pdf.Reference); !isRef && r.P(1, 3) {
				nd.compressed = true
				cs.features["objstm"] = true
			}
		}
	}

	// one object reached directly and through 1-3 alias objects ("N 0 obj M 0 R endobj"), also
	// around a cycle: all these paths must end at one copy
	if r.P(1, 3) && len(cs.nodes) > 0 {
		x := Pick(r, cs.nodes)
		if x.kind != nkFree {
			cs.features["alias-shared"] = true
			cur := x.ref
			hub := pdf.Dict{"Direct": x.ref}
			m := 1 + r.Intn(3)
			for j := 0; j < m; j++ {
				a := &cpyNode{ref: pdf.NewReference(uint32(2+len(cs.nodes)), 0), kind: nkObj, obj: cur}
				cs.nodes = append(cs.nodes, a)
				pool = append(pool, a.ref)
				cur = a.ref
				hub[pdf.Name(fmt.Sprintf("Alias%d", j+1))] = a.ref
			}
			if r.Bool() {
				hub["Again"] = pdf.Array{cur, x.ref, cur}
			}
			h := &cpyNode{ref: pdf.NewReference(uint32(2+len(cs.nodes)), 0), kind: nkObj, obj: hub}
			cs.nodes = append(cs.nodes, h)
			pool = append(pool, h.ref)
			// a cycle through the last alias
			if r.Bool() {
				switch x.kind {
				case nkObj:
					if d, ok := x.obj.(pdf.Dict); ok {
						d["Self"] = cur
						d["Hub"] = h.ref
						cs.features["alias-cycle"] = true
					}
				case nkStream:
					x.dict["Self"] = cur
					cs.features["alias-cycle"] = true
				}
			}
		}
	}
	// AES streams whose stored data is empty or too short to hold IV and padding (files of other
	// producers store empty streams with /Length 0)
	if cs.srcPw != "" && cs.srcVer >= pdf.V1_6 && !cs.srcWriter && r.P(1, 6) {
		for _, nd := range cs.nodes {
			if nd.kind == nkStream && nd.ov == ovNone && len(nd.filters) == 0 && nd.dict["Filter"] == nil && nd.cryptCF == nil {
				nd.data = nil
				nd.aesLen = 1 + Pick(r, []int{0, 0, 0, 16, 1, 5, 15, 17, 20, 31})
				cs.features["aes-short-stream"] = true
				break
			}
		}
	}
	// /Filter or /DecodeParms which refers to a stream (itself or another one): the source is
	// defective, the copy has to fail cleanly
	if r.P(1, 25) {
		var sts []*cpyNode
		for _, nd := range cs.nodes {
			if nd.kind == nkStream && nd.aesLen == 0 {
				sts = append(sts, nd)
			}
		}
		if len(sts) > 0 {
			Pick(r, sts).selfFilter = 1 + r.Intn(4)
			cs.features["filter-is-stream"] = true
			cs.mayFail = true
		}
	}

	// owners: pages, XObjects, images, ... point to their metadata stream with /Metadata
	var metas []pdf.Reference
	for _, nd := range cs.nodes {
		if nd.meta {
			metas = append(metas, nd.ref)
		}
	}
	if len(metas) > 0 {
		for _, nd := range cs.nodes {
			if !r.P(1, 3) {
				continue
			}
			switch nd.kind {
			case nkObj:
				if d, ok := nd.obj.(pdf.Dict); ok {
					d["Metadata"] = Pick(r, metas)
					if r.P(1, 2) {
						d["Type"] = pdf.Name(Pick(r, []string{"Page", "Font", "Catalog"}))
					}
				}
			case nkStream:
				if !nd.meta {
					nd.dict["Metadata"] = Pick(r, metas)
				}
			}
		}
	}

	// decorations which need the wrapper
	for i, nd := range cs.nodes {
		switch nd.kind {
		case nkObj:
			if r.P(1, 12) {
				nd.ov = ovObj
				o := cpyNullify(r, nd.obj)
				if o == nil {
					nd.ovObj = nil
				} else {
					nd.ovObj = o.AsPDF(0)
				}
				cs.features["null-entry"] = true
			} else if r.P(1, 40) {
				nd.ov = ovBad
				cs.features["bad"] = true
			} else if r.P(1, 60) {
				nd.ov = ovIO
				cs.features["ioerr"] = true
				cs.mayFail = true
			}
		case nkStream:
			if nd.aesLen == 0 && nd.selfFilter == 0 && r.P(1, 3) {
				// make /Filter and/or /DecodeParms indirect: the values live in other nodes
				nd.ov = ovStream
				cs.features["indirect-filter"] = true
			}
		}
		_ = i
	}
	return cs
}

func genStreamBytes(r *Rand, n int) []byte {
	b := make([]byte, n)
	switch r.Intn(3) {
	case 0:
		for i := range b {
			b[i] = byte(r.U64())
		}
	case 1:
		for i := range b {
			b[i] = byte('a' + r.Intn(4))
		}
	default:
		pat := []byte("endstream\nendobj\r\n stream ")
		for i := range b {
			b[i] = pat[i%len(pat)]
		}
	}
	return b
}

// ---- writing the source with the real Writer ----

type cpyBuilt struct {
	cs      *cpyCase
	srcData []byte
	reader  *pdf.Reader
	S       *cpySrc
}

// buildSource writes the nodes with the real Writer, reopens the file with the
// real Reader and installs the overrides.  Helper nodes for indirect /Filter
// and /DecodeParms are appended to cs.nodes.
func buildSource(cs *cpyCase) (*cpyBuilt, error) {
	if cs.foreign != nil {
		return buildForeign(cs)
	}
	r := &Rand{s: cs.seed ^ 0xabcdef}
	var out io.Writer
	memAt := &cpyMemAt{}
	mem := &memAt.cpyMem
	wo := &cpyWriteOnly{}
	switch {
	case cs.srcWriter && cs.srcNoReaderAt:
		out = mem // Read, Write, Seek - no ReadAt
	case cs.srcSeekable:
		out = memAt
	default:
		out = wo
	}
	opt := &pdf.WriterOptions{UserPassword: cs.srcPw}
	if cs.srcMeta != 0 {
		packet := xmp.NewPacket()
		dc := &xmp.DublinCore{}
		dc.Title.Set(language.Und, fmt.Sprintf("source document %d", cs.seed%1000))
		if err := packet.Set(dc); err != nil {
			return nil, fmt.Errorf("source metadata: %w", err)
		}
		opt.DocumentMetadata = &pdf.MetadataStream{Data: packet, Plaintext: cs.srcMeta == 2}
	}
	w, err := pdf.NewWriter(out, cs.srcVer, opt)
	if err != nil {
		return nil, fmt.Errorf("source NewWriter: %w", err)
	}
	pages := w.Alloc()
	if err := w.Put(pages, pdf.Dict{"Type": pdf.Name("Pages"), "Kids": pdf.Array{}, "Count": pdf.Integer(0)}); err != nil {
		return nil, err
	}
	w.GetMeta().Catalog.Pages = pages
	// the generator numbered the nodes 2, 3, …; use the numbers the Writer really hands out
	remap := map[pdf.Reference]pdf.Reference{}
	for _, nd := range cs.nodes {
		ref := w.Alloc()
		if ref != nd.ref {
			remap[nd.ref] = ref
		}
	}
	if len(remap) > 0 {
		for _, nd := range cs.nodes {
			if nr, ok := remap[nd.ref]; ok {
				nd.ref = nr
			}
			nd.obj = remapRefs(nd.obj, remap)
			if nd.dict != nil {
				nd.dict = remapRefs(nd.dict, remap).(pdf.Dict)
			}
			if nd.ovObj != nil {
				if o := remapRefs(nd.ovObj, remap); o != nil {
					nd.ovObj = o.AsPDF(0)
				}
			}
		}
		// a given program (corpus case) speaks of the provisional numbers too
		for i := range cs.prog {
			if nr, ok := remap[cs.prog[i].ref]; ok {
				cs.prog[i].ref = nr
			}
			if cs.prog[i].obj != nil {
				cs.prog[i].obj = remapRefs(cs.prog[i].obj, remap)
			}
		}
	}
	var cRefs []pdf.Reference
	var cObjs []pdf.Object
	for _, nd := range cs.nodes {
		switch nd.kind {
		case nkObj:
			if nd.compressed {
				cRefs = append(cRefs, nd.ref)
				cObjs = append(cObjs, nd.obj)
				continue
			}
			if err := w.Put(nd.ref, nd.obj); err != nil {
				return nil, fmt.Errorf("source Put: %w", err)
			}
		case nkStream:
			dict := pdf.Dict{}
			for k, v := range nd.dict {
				dict[k] = v
			}
			ws, err := w.OpenStream(nd.ref, dict, nd.filters...)
			if err != nil {
				return nil, fmt.Errorf("source OpenStream: %w", err)
			}
			if _, err := ws.Write(nd.data); err != nil {
				return nil, fmt.Errorf("source stream write: %w", err)
			}
			if err := ws.Close(); err != nil {
				return nil, fmt.Errorf("source stream close: %w", err)
			}
		}
	}
	if len(cRefs) > 0 {
		if err := w.WriteCompressed(cRefs, cObjs...); err != nil {
			return nil, fmt.Errorf("source WriteCompressed: %w", err)
		}
	}
	var rd *pdf.Reader
	var src pdf.Getter
	var data []byte
	if cs.srcWriter {
		// the Writer stays open and is the Getter
		src = w
	} else {
		if err := w.Close(); err != nil {
			return nil, fmt.Errorf("source Close: %w", err)
		}
		data = mem.Data
		if !cs.srcSeekable {
			data = wo.buf.Bytes()
		}
		for _, nd := range cs.nodes {
			if nd.aesLen > 0 {
				if !cutAESStream(data, nd.ref, nd.aesLen-1) {
					nd.aesLen = 0 // unexpected layout: leave the (empty, well-formed) stream alone
					delete(cs.features, "aes-short-stream")
				} else if k := nd.aesLen - 1; k != 0 && k != 16 {
					cs.aesBroken = true // IV cut short or no whole blocks: the stream cannot be decrypted
				}
			}
		}
		rd, err = pdf.NewReader(bytes.NewReader(data), int64(len(data)), &pdf.ReaderOptions{Password: cs.srcPw, ErrorHandling: pdf.ErrorHandlingReport})
		if err != nil {
			return nil, fmt.Errorf("source NewReader: %w", err)
		}
		src = rd
	}
	b := &cpyBuilt{cs: cs, srcData: data, reader: rd, S: &cpySrc{r: src, nodes: map[pdf.Reference]*cpyNode{}}}
	for _, nd := range cs.nodes {
		b.S.nodes[nd.ref] = nd
	}
	if cs.srcMeta != 0 && rd != nil {
		if root, ok := rd.GetMeta().Trailer["Root"].(pdf.Reference); ok {
			if cat, err := rd.Get(root, true); err == nil {
				if cd, ok := cat.(pdf.Dict); ok {
					cs.catalogMeta, _ = cd["Metadata"].(pdf.Reference)
				}
			}
		}
		if cs.catalogMeta == 0 {
			return nil, fmt.Errorf("source catalog has no /Metadata reference although one was written")
		}
	}
	for i := range cs.prog {
		if cs.prog[i].catMeta {
			cs.prog[i].ref = cs.catalogMeta
		}
	}

	// indirect /Filter and /DecodeParms: virtual nodes (numbers outside the file)
	virt := uint32(9000)
	newVirt := func(val pdf.Native) pdf.Reference {
		ref := pdf.NewReference(virt, 0)
		virt++
		vn := &cpyNode{ref: ref, kind: nkObj, ov: ovObj, ovObj: val}
		cs.nodes = append(cs.nodes, vn)
		b.S.nodes[ref] = vn
		return ref
	}
	indirect := func(val pdf.Object) pdf.Object {
		var nat pdf.Native
		if val != nil {
			nat = val.AsPDF(0)
		}
		ref := newVirt(nat)
		if r.P(1, 4) {
			// as if stored in an object stream: GetFilters (canObjStm=false) refuses to read it
			b.S.nodes[ref].virtStm = true
			cs.features["filter-in-objstm"] = true
			if cs.srcPw != "" {
				cs.mayFail = true
			}
		}
		if r.P(1, 4) { // a chain of two
			ref = newVirt(ref)
		}
		return ref
	}
	if cs.longChain > 0 {
		// head -> ... -> (longChain references in all) -> value
		var cur pdf.Native = pdf.Array{pdf.Integer(cs.longChain), pdf.Name("End")}
		if len(cs.nodes) > 0 && r.Bool() {
			cur = cs.nodes[0].ref
			cs.longChain++ // the real node is one more link (if it is not itself a reference)
		}
		for i := 0; i < cs.longChain; i++ {
			cur = newVirt(cur)
		}
		cs.longHead = cur.(pdf.Reference)
	}
	// /Filter or /DecodeParms referring to a stream
	for _, nd := range cs.nodes {
		if nd.kind != nkStream || nd.selfFilter == 0 {
			continue
		}
		target := nd.ref
		if nd.selfFilter%2 == 0 {
			for _, o := range cs.nodes {
				if o.kind == nkStream && o != nd {
					target = o.ref
				}
			}
		}
		key := pdf.Name("Filter")
		if nd.selfFilter > 2 {
			key = "DecodeParms"
		}
		var val pdf.Object = target
		switch r.Intn(3) {
		case 0:
			val = pdf.Array{target}
		case 1:
			val = newVirt(target) // through one more reference
		}
		nd.ov = ovStream
		nd.ovEdit = map[pdf.Name]pdf.Object{key: val}
	}
	for _, nd := range cs.nodes {
		if nd.kind != nkStream || nd.ov != ovStream || nd.selfFilter != 0 {
			continue
		}
		if cs.srcWriter && cs.srcNoReaderAt {
			nd.ov = ovNone // the stream cannot be read back from this sink at all
			continue
		}
		obj, err := src.Get(nd.ref, true)
		if err != nil {
			return nil, fmt.Errorf("source Get stream: %w", err)
		}
		st, ok := obj.(*pdf.Stream)
		if !ok {
			return nil, fmt.Errorf("source stream %v read back as %T", nd.ref, obj)
		}
		nd.ovEdit = map[pdf.Name]pdf.Object{}
		for _, key := range []pdf.Name{"Filter", "DecodeParms"} {
			val, present := st.Dict[key]
			if !present {
				if r.P(1, 6) {
					// a reference to nothing in place of the entry
					nd.ovEdit[key] = pdf.NewReference(uint32(7000+r.Intn(50)), 0)
				}
				continue
			}
			if arr, isArr := val.(pdf.Array); isArr && r.P(1, 2) {
				a := make(pdf.Array, len(arr))
				for i, e := range arr {
					if r.P(1, 2) {
						a[i] = indirect(e)
					} else {
						a[i] = e
					}
				}
				val = a
			}
			if r.P(2, 3) {
				val = indirect(val)
			}
			nd.ovEdit[key] = val
		}
		if len(st.Dict) == 0 && len(nd.ovEdit) == 0 {
			nd.ov = ovNone
		}
	}
	for _, nd := range cs.nodes {
		if nd.kind != nkStream || nd.cryptCF == nil || (cs.srcWriter && cs.srcNoReaderAt) {
			continue
		}
		if nd.ov != ovNone && nd.ov != ovStream {
			continue
		}
		nd.ov = ovStream
		if nd.ovEdit == nil {
			nd.ovEdit = map[pdf.Name]pdf.Object{}
		}
		for k, v := range nd.cryptCF {
			nd.ovEdit[k] = v
		}
	}
	return b, nil
}

// cutAESStream rewrites, inside the written file, the empty AES stream `ref` (stored as 32 bytes:
// IV and one block of padding) as a stream of k < 32 stored bytes, keeping every offset:
// "/Length 32" becomes "/Length k " and "endstream" moves up, followed by blanks.
func cutAESStream(data []byte, ref pdf.Reference, k int) bool {
	head := []byte(fmt.Sprintf("\n%d %d obj", ref.Number(), ref.Generation()))
	i := bytes.Index(data, head)
	if i < 0 || k < 0 || k >= 32 {
		return false
	}
	end := bytes.Index(data[i:], []byte("endobj"))
	if end < 0 {
		return false
	}
	obj := data[i : i+end]
	l := bytes.Index(obj, []byte("/Length 32"))
	st := bytes.Index(obj, []byte("stream\n"))
	if l < 0 || st < 0 || l > st {
		return false
	}
	j := st + len("stream\n")
	if j+32+10 > len(obj) || !bytes.HasPrefix(obj[j+32:], []byte("\nendstream")) {
		return false
	}
	copy(obj[l:], fmt.Sprintf("/Length %-2d", k))
	tail := append([]byte("\nendstream"), bytes.Repeat([]byte(" "), 32-k)...)
	copy(obj[j+k:], tail)
	return true
}

// ---- the source as the copier sees it ----

// sourceView returns the model tokens (one per reference that does not read
// as null) for every reference reachable from the given start set.
func (b *cpyBuilt) sourceView(start []pdf.Reference) []string {
	seen := map[pdf.Reference]bool{}
	queue := append([]pdf.Reference{}, start...)
	var toks []string
	for len(queue) > 0 {
		ref := queue[0]
		queue = queue[1:]
		if seen[ref] {
			continue
		}
		seen[ref] = true
		v, err := b.S.Get(ref, true)
		head := fmt.Sprintf("G%d,%d:", ref.Number(), ref.Generation())
		if err != nil {
			if pdf.IsMalformed(err) {
				toks = append(toks, head+"-:B")
			} else {
				toks = append(toks, head+"-:I")
			}
			continue
		}
		flag := "-"
		if _, err2 := b.S.Get(ref, false); err2 != nil && pdf.IsMalformed(err2) {
			flag = "o"
		}
		if v == nil {
			if flag == "o" {
				// a null object inside an object stream: reads as null, but not with canObjStm=false
				toks = append(toks, head+"o:Oz")
			}
			continue
		}
		if st, ok := v.(*pdf.Stream); ok {
			raw, enc := b.rawData(ref, st)
			e := "Sp"
			if enc {
				e = "Se"
			}
			toks = append(toks, head+flag+":"+e+":"+wire(st.Dict)+":"+hexWire(raw))
			queue = refsIn(st.Dict, queue)
			continue
		}
		toks = append(toks, head+flag+":O"+wire(v))
		queue = refsIn(v, queue)
	}
	sort.Strings(toks)
	return toks
}

// rawData returns the stream bytes after decryption and whether the stream
// carries a decryption filter (the source file is encrypted).
func (b *cpyBuilt) rawData(ref pdf.Reference, st *pdf.Stream) ([]byte, bool) {
	// x.crypt != nil: the file is encrypted and the object is not exempt (with /EncryptMetadata
	// false the Reader reads the catalog's /Metadata stream, and only that one, without decryption)
	enc := b.cs.srcPw != "" && (b.reader == nil || !pdf.VerifReaderUnencrypted(b.reader, ref))
	rc, err := pdf.RawStreamReader(b.S, st)
	if err == nil {
		raw, err2 := io.ReadAll(rc)
		rc.Close()
		if err2 == nil {
			return raw, enc
		}
	}
	raw, _ := io.ReadAll(st.NewReader())
	return raw, enc
}

func opToken(op cpyOp) string {
	rs := fmt.Sprintf("%d,%d", op.ref.Number(), op.ref.Generation())
	switch op.kind {
	case "cr", "cg":
		return "P" + op.kind + rs
	case "co":
		return "Pco" + wire(op.obj)
	case "rn":
		return "Prn" + rs + ":" + wire(op.marker)
	case "rt":
		return fmt.Sprintf("Prt%s:%d", rs, op.k)
	}
	panic("bad op")
}

func (cs *cpyCase) describe() string {
	var fs []string
	for f := range cs.features {
		fs = append(fs, f)
	}
	sort.Strings(fs)
	var ops []string
	for _, op := range cs.prog {
		t := opToken(op)
		if op.later > 0 {
			t += fmt.Sprintf("(put+%d)", op.later)
		}
		ops = append(ops, t)
	}
	return fmt.Sprintf("seed=%d src=%s/%q tgt=%s/%q nodes=%d features=%v prog=%s", cs.seed, cs.srcVer, cs.srcPw, cs.tgtVer, cs.tgtPw, len(cs.nodes), fs, strings.Join(ops, " "))
}

package main

// TR run registered under C08: internal/filter/predict paethPredictor and
// Params.Validate with the derived sizes, internal/limits budgets and image
// limits, filter.go validate functions, against the generated Lean code.

import (
	"fmt"
	"math/big"
	"strconv"
	"strings"

	pdf "seehuhn.de/go/pdf"
)

func init() {
	addRun("C08", "TR: paethPredictor against the PNG definition on all 2^24 triples (oracle) with 9^3 boundary triples and random triples sent to the generated Lean function; predict.Params.Validate and the four derived sizes on the product of boundary values of every field plus random int64 values; limits.StreamBudget/ShadingBudget/MaxXRefEntries and the image limits on boundary/random int64 arguments; the filter validate functions on boundary products. Oracles: Validate()==nil (predictor != 1) implies exact, overflow-free sizes with bytesPerRow <= 4 MiB; budgets within their caps and exact where no overflow is possible; image limit functions exact on positive arguments up to 2^20 each. Non-trivial: every case.", runTRC08)
	addReplay("C08", "tr-paeth", func(in string) (bool, string) {
		var a, b, cc int
		fmt.Sscan(in, &a, &b, &cc)
		return trPaethOracle(byte(a), byte(b), byte(cc))
	})
	addReplay("C08", "tr-predictParams", func(in string) (bool, string) {
		v := trParseInts(in)
		return trPredictParamsOracle(int(v[0]), int(v[1]), int(v[2]), int(v[3]))
	})
	addReplay("C08", "tr-limits", func(in string) (bool, string) {
		v := trParseInts(in)
		if len(v) == 2 {
			m, err := pdf.VerifTrJBIG2CheckedMul(int(v[0]), int(v[1]))
			exact := new(big.Int).Mul(big.NewInt(v[0]), big.NewInt(v[1]))
			ok := (v[0] >= 0 && v[1] >= 0 && exact.IsInt64()) == (err == nil) && (err != nil || big.NewInt(int64(m)).Cmp(exact) == 0)
			return ok, fmt.Sprintf("checkedMul(%d,%d) = %d, %v; checkBitmapSize = %v", v[0], v[1], m, err, pdf.VerifTrJBIG2CheckBitmapSize(int(v[0]), int(v[1])))
		}
		if len(v) == 1 {
			return trBudgetOracle(v[0])
		}
		return trImageLimitOracle(int(v[0]), int(v[1]), int(v[2]), int(v[3]))
	})
}

func trParseInts(in string) []int64 {
	var out []int64
	for _, f := range strings.Fields(in) {
		n, _ := strconv.ParseInt(f, 10, 64)
		out = append(out, n)
	}
	return out
}

// PNG specification (ISO/IEC 15948, 9.4): p = a+b-c; the nearest of a, b, c to p, ties in that order.
func trPaethOracle(a, b, cc byte) (bool, string) {
	p := int(a) + int(b) - int(cc)
	d := func(x byte) int {
		v := p - int(x)
		if v < 0 {
			return -v
		}
		return v
	}
	want := cc
	if d(a) <= d(b) && d(a) <= d(cc) {
		want = a
	} else if d(b) <= d(cc) {
		want = b
	}
	got := pdf.VerifTrPaeth(a, b, cc)
	return got == want, fmt.Sprintf("paeth(%d,%d,%d) = %d, want %d", a, b, cc, got, want)
}

const trMaxBytesPerRow = 4 << 20

func trPredictParamsOracle(colors, bpc, columns, predictor int) (ok bool, detail string) {
	defer func() {
		if r := recover(); r != nil {
			ok, detail = false, fmt.Sprintf("predict.Params{%d,%d,%d,%d}: panic %v", colors, bpc, columns, predictor, r)
		}
	}()
	bpp, bprow, bytesRow, bytesPix, err := pdf.VerifTrPredictParams(colors, bpc, columns, predictor)
	detail = fmt.Sprintf("predict.Params{Colors:%d BitsPerComponent:%d Columns:%d Predictor:%d}: Validate=%v bitsPerPixel=%d bitsPerRow=%d bytesPerRow=%d bytesPerPixel=%d", colors, bpc, columns, predictor, err, bpp, bprow, bytesRow, bytesPix)
	if err != nil || predictor == 1 {
		return true, detail
	}
	// validated parameters of a real predictor: all sizes exact (no overflow), positive and bounded
	exact := new(big.Int).Mul(big.NewInt(int64(colors)), big.NewInt(int64(bpc)))
	if exact.Cmp(big.NewInt(int64(bpp))) != 0 || bpp < 1 {
		return false, detail + "; bitsPerPixel is not Colors*BitsPerComponent"
	}
	exact.Mul(exact, big.NewInt(int64(columns)))
	if exact.Cmp(big.NewInt(int64(bprow))) != 0 || bprow < 1 {
		return false, detail + "; bitsPerRow is not exact"
	}
	if bytesRow != (bprow+7)/8 || bytesRow < 1 || bytesRow > trMaxBytesPerRow {
		return false, detail + "; bytesPerRow out of bounds"
	}
	if bytesPix != (bpp+7)/8 || bytesPix < 1 || bytesPix > 512 {
		return false, detail + "; bytesPerPixel out of bounds"
	}
	return true, detail
}

func trBudgetOracle(n int64) (bool, string) {
	sb, sh, mx := pdf.VerifTrStreamBudget(n), pdf.VerifTrShadingBudget(n), pdf.VerifTrMaxXRefEntries(n)
	d := fmt.Sprintf("rawLen=%d: StreamBudget=%d ShadingBudget=%d MaxXRefEntries=%d", n, sb, sh, mx)
	m := max(n, 0)
	wantSB := int64(16<<20) + min(1024*min(m, 1<<40), 256<<20) // StreamBudgetBase is 16 MiB since D-C06-2
	if sb != wantSB {
		return false, d + fmt.Sprintf("; StreamBudget should be %d", wantSB)
	}
	if m <= 1<<50 && (sh != 16<<20+32*m || mx != 8192+32*m) {
		return false, d + "; ShadingBudget/MaxXRefEntries not exact"
	}
	return true, d
}

func trImageLimitOracle(w, h, ch, bpc int) (bool, string) {
	lim, exBytes, exPix := pdf.VerifTrImageDataLimit(w, h, ch, bpc), pdf.VerifTrImageBytesExceedLimit(w, h, ch, bpc), pdf.VerifTrImagePixelsExceedLimit(w, h)
	d := fmt.Sprintf("image %dx%d channels=%d bpc=%d: DataLimit=%d BytesExceed=%v PixelsExceed=%v", w, h, ch, bpc, lim, exBytes, exPix)
	if lim < 0 || lim > 256<<20 {
		return false, d + "; ImageDataLimit outside [0, MaxImageBytes]"
	}
	const dom = 1 << 20
	if w <= 0 || h <= 0 || ch <= 0 || bpc <= 0 || w > dom || h > dom || ch > dom || bpc > dom {
		return true, d // outside the domain the callers establish (and where int64 cannot overflow)
	}
	bits := new(big.Int).Mul(big.NewInt(int64(w)), big.NewInt(int64(ch)))
	bits.Mul(bits, big.NewInt(int64(bpc)))
	row := new(big.Int).Add(bits, big.NewInt(7))
	row.Div(row, big.NewInt(8))
	size := new(big.Int).Mul(row, big.NewInt(int64(h)))
	tooBig := size.Cmp(big.NewInt(256<<20)) > 0
	if exBytes != tooBig {
		return false, d + fmt.Sprintf("; true size %v", size)
	}
	if !tooBig && lim != size.Int64() {
		return false, d + fmt.Sprintf("; true size %v", size)
	}
	pix := new(big.Int).Mul(big.NewInt(int64(w)), big.NewInt(int64(h)))
	if exPix != (pix.Cmp(big.NewInt(128<<20)) > 0) {
		return false, d + fmt.Sprintf("; true pixel count %v", pix)
	}
	return true, d
}

func runTRC08(c *Ctx) {
	// Paeth: the whole domain against the PNG definition (implementation side) …
	for a := 0; a < 256; a++ {
		for b := 0; b < 256; b++ {
			for cc := 0; cc < 256; cc++ {
				if ok, d := trPaethOracle(byte(a), byte(b), byte(cc)); !ok {
					c.Violate("tr-paeth", "tr-paeth-png", d, fmt.Sprintf("%d %d %d", a, b, cc))
				}
			}
		}
	}
	c.StatN("TR:paeth:exhaustive-oracle", 1<<24)
	// … and boundary/random triples through the generated Lean function
	paeth := func(a, b, cc byte) {
		trEmit(c, "paeth", trInts(int64(a), int64(b), int64(cc)), trCall(func() string { return fmt.Sprint(pdf.VerifTrPaeth(a, b, cc)) }))
		c.Case(fmt.Sprintf("trpaeth%d/%d/%d", a, b, cc), true)
	}
	bd := []byte{0, 1, 2, 127, 128, 129, 253, 254, 255}
	for _, a := range bd {
		for _, b := range bd {
			for _, cc := range bd {
				paeth(a, b, cc)
			}
		}
	}
	n := 5000
	if c.Thorough {
		n = 200000
	}
	for i := 0; i < n; i++ {
		x := c.R.U64()
		paeth(byte(x), byte(x>>8), byte(x>>16))
	}

	// predict.Params
	params := func(colors, bpc, columns, predictor int) {
		args := trInts(int64(colors), int64(bpc), int64(columns), int64(predictor))
		trEmit(c, "predictValidate", args, trCall(func() string {
			bpp, bprow, bytesRow, bytesPix, err := pdf.VerifTrPredictParams(colors, bpc, columns, predictor)
			return fmt.Sprintf("%s %d %d %d %d", trErr(err), bpp, bprow, bytesRow, bytesPix)
		}))
		c.Case("trparams"+strings.Join(args, "/"), true)
		if ok, d := trPredictParamsOracle(colors, bpc, columns, predictor); !ok {
			c.Violate("tr-predictParams", "tr-predictParams-bounds", d, strings.Join(args, " "))
		}
	}
	colorsV := []int{-1, 0, 1, 3, 4, 60, 61, 256, 257, 1 << 31, 1 << 62, -1 << 63}
	bpcV := []int{-8, 0, 1, 2, 3, 4, 8, 16, 17, 32, 1 << 40}
	colsV := []int{-1, 0, 1, 2, 1000, 65535, 65536, 65537, 1 << 20, 1 << 40, 1<<63 - 1}
	predV := []int{-1, 0, 1, 2, 3, 9, 10, 11, 12, 13, 14, 15, 16, 1 << 40}
	for _, a := range colorsV {
		for _, b := range bpcV {
			for _, k := range colsV {
				for _, p := range predV {
					if !c.Thorough && c.R.P(1, 2) && p != 2 && p != 12 && p != 15 {
						continue
					}
					params(a, b, k, p)
				}
			}
		}
	}
	for i := 0; i < n; i++ {
		col := int(trBoundaryInt(c.R))
		if c.R.P(2, 3) {
			col = 1 + c.R.Intn(300)
		}
		params(col, Pick(c.R, []int{1, 2, 4, 8, 16, 16, int(trBoundaryInt(c.R))}), Pick(c.R, []int{1 + c.R.Intn(70000), int(trBoundaryInt(c.R))}), Pick(c.R, predV))
	}

	// limits
	for i := 0; i < n; i++ {
		v := trBoundaryInt(c.R)
		trEmit(c, "budgets", trInts(v), trCall(func() string {
			return fmt.Sprintf("%d %d %d", pdf.VerifTrStreamBudget(v), pdf.VerifTrShadingBudget(v), pdf.VerifTrMaxXRefEntries(v))
		}))
		c.Case(fmt.Sprintf("trbudget%d", v), true)
		if ok, d := trBudgetOracle(v); !ok {
			c.Violate("tr-limits", "tr-limits-budget", d, fmt.Sprint(v))
		}
		dim := func() int {
			switch c.R.Intn(4) {
			case 0:
				return int(trBoundaryInt(c.R))
			case 1:
				return 1 + c.R.Intn(1<<20)
			default:
				return 1 + c.R.Intn(1<<c.R.Intn(17))
			}
		}
		w, h, ch, bpc := dim(), dim(), Pick(c.R, []int{1, 3, 4, 32, dim()}), Pick(c.R, []int{1, 2, 4, 8, 16, dim()})
		trEmit(c, "imageDataLimit", trInts(int64(w), int64(h), int64(ch), int64(bpc)), trCall(func() string {
			return fmt.Sprintf("%d %v %v", pdf.VerifTrImageDataLimit(w, h, ch, bpc), pdf.VerifTrImageBytesExceedLimit(w, h, ch, bpc), pdf.VerifTrImagePixelsExceedLimit(w, h))
		}))
		if ok, d := trImageLimitOracle(w, h, ch, bpc); !ok {
			c.Violate("tr-limits", "tr-limits-image", d, fmt.Sprintf("%d %d %d %d", w, h, ch, bpc))
		}
	}

	// internal/filter/jbig2: overflow guards
	for i := 0; i < n; i++ {
		v := trBoundaryInt(c.R)
		wl := pdf.VerifTrJBIG2WorkLimit(v)
		trEmit(c, "jbig2WorkLimit", trInts(v), fmt.Sprint(wl))
		if wl < 64<<20 || wl > 512<<20 {
			c.Violate("tr-limits", "tr-jbig2-workLimit", fmt.Sprintf("workLimit(%d) = %d outside [64 MiB, 512 MiB]", v, wl), fmt.Sprint(v))
		}
		dim := func() int64 {
			switch c.R.Intn(4) {
			case 0:
				return trBoundaryInt(c.R)
			case 1:
				return int64(c.R.Intn(1<<24 + 3))
			default:
				return int64(c.R.Intn(1 << uint(1+c.R.Intn(14))))
			}
		}
		w, h := dim(), dim()
		err := pdf.VerifTrJBIG2CheckBitmapSize(int(w), int(h))
		trEmit(c, "jbig2CheckBitmapSize", trInts(w, h), trErr(err))
		pix := new(big.Int).Mul(big.NewInt(w), big.NewInt(h))
		bytesNeeded := new(big.Int).Mul(big.NewInt((w+7)/8), big.NewInt(h))
		wantOK := w >= 0 && h >= 0 && w <= 1<<24 && h <= 1<<24 && (w == 0 || h == 0 || (pix.Cmp(big.NewInt(1<<24)) <= 0 && bytesNeeded.Cmp(big.NewInt(4<<20)) <= 0))
		if (err == nil) != wantOK {
			c.Violate("tr-limits", "tr-jbig2-bitmapSize", fmt.Sprintf("checkBitmapSize(%d,%d) ok=%v, want %v", w, h, err == nil, wantOK), fmt.Sprintf("%d %d", w, h))
		}
		a, b := trBoundaryInt(c.R), trBoundaryInt(c.R)
		if c.R.P(1, 2) {
			a, b = int64(c.R.U64()>>uint(32+c.R.Intn(4))), int64(c.R.U64()>>uint(30+c.R.Intn(6)))
		}
		res := trCall(func() string {
			v, err := pdf.VerifTrJBIG2CheckedMul(int(a), int(b))
			return fmt.Sprint(v) + " " + trErr(err)
		})
		trEmit(c, "jbig2CheckedMul", trInts(a, b), res)
		c.Case(fmt.Sprintf("trmul%d/%d", a, b), true)
		exact := new(big.Int).Mul(big.NewInt(a), big.NewInt(b))
		wantMul := "0 err"
		if a >= 0 && b >= 0 && exact.IsInt64() {
			wantMul = exact.String() + " nil"
		}
		if res != wantMul {
			c.Violate("tr-limits", "tr-jbig2-checkedMul", fmt.Sprintf("checkedMul(%d,%d) = %s, want %s", a, b, res, wantMul), fmt.Sprintf("%d %d", a, b))
		}
	}

	// filter.go validate functions
	vers := []pdf.Version{pdf.V1_0, pdf.V1_1, pdf.V1_2, pdf.V1_3, pdf.V1_4, pdf.V1_5, pdf.V1_7, pdf.V2_0}
	small := []int{-1, 0, 1, 2, 3, 4, 5, 8, 16, 17, 1 << 20, 1<<20 + 1}
	for p := -1; p <= 17; p++ {
		trEmit(c, "predictorIsValid", trInts(int64(p)), trCall(func() string { return fmt.Sprint(pdf.VerifTrPredictorIsValid(pdf.FlatePredictor(p))) }))
		if got, want := pdf.VerifTrPredictorIsValid(pdf.FlatePredictor(p)), p == 0 || p == 1 || p == 2 || (p >= 10 && p <= 15); got != want {
			c.Violate("tr-limits", "tr-filter-isValid", fmt.Sprintf("FlatePredictor(%d).isValid() = %v, want %v (PDF table 10)", p, got, want), fmt.Sprint(p))
		}
		for _, v := range vers {
			for _, colors := range small {
				for _, bpc := range small {
					if c.R.P(2, 3) {
						continue
					}
					columns := Pick(c.R, small)
					args := trInts(int64(v), int64(p), int64(colors), int64(bpc), int64(columns))
					trEmit(c, "validateFlateLZW", args, trCall(func() string {
						return trErr(pdf.VerifTrValidateFlateLZW(v, pdf.FlatePredictor(p), colors, bpc, columns))
					}))
					trEmit(c, "flateValidate", args, trCall(func() string {
						return trErr(pdf.VerifTrFlateValidate(pdf.FilterFlate{Predictor: pdf.FlatePredictor(p), Colors: colors, BitsPerComponent: bpc, Columns: columns}, v))
					}))
					trEmit(c, "lzwValidate", args, trCall(func() string {
						return trErr(pdf.VerifTrLZWValidate(pdf.FilterLZW{Predictor: pdf.FlatePredictor(p), Colors: colors, BitsPerComponent: bpc, Columns: columns}, v))
					}))
					c.Case("trflate"+strings.Join(args, "/"), true)
					// accepted parameters are bounded (every Flate/LZW encoder is created only after validate)
					if pdf.VerifTrValidateFlateLZW(v, pdf.FlatePredictor(p), colors, bpc, columns) == nil {
						okBpc := bpc == 0 || bpc == 1 || bpc == 2 || bpc == 4 || bpc == 8 || bpc == 16
						if columns < 0 || columns > 1<<20 || colors < 0 || !okBpc || !(p == 0 || p == 1 || p == 2 || (p >= 10 && p <= 15)) {
							c.Violate("tr-limits", "tr-filter-validate", "validateFlateLZW accepts "+strings.Join(args, " "), strings.Join(args, " "))
						}
						// fix 879cf71 (former finding D22): accepted parameters are accepted by the predictor itself
						def := func(x, d int) int {
							if x == 0 {
								return d
							}
							return x
						}
						if _, _, _, _, perr := pdf.VerifTrPredictParams(def(colors, 1), def(bpc, 8), def(columns, 1), def(p, 1)); perr != nil {
							c.Violate("tr-limits", "tr-filter-validate-encode", "validateFlateLZW accepts "+strings.Join(args, " ")+" but predict.Params.Validate fails: "+perr.Error(), strings.Join(args, " "))
						}
					}
				}
			}
		}
	}
	for _, cols := range small {
		for _, rows := range small {
			for _, dmg := range small {
				trEmit(c, "ccittValidate", trInts(int64(cols), int64(rows), int64(dmg)), trCall(func() string {
					return trErr(pdf.VerifTrCCITTValidate(pdf.FilterCCITTFax{Columns: cols, Rows: rows, DamagedRowsBeforeError: dmg}, pdf.V1_7))
				}))
				in := func(x int) bool { return x >= 0 && x <= 1<<20 }
				// Rows: at most ccittMaxRows(Columns) = max(1, min(65536, 128Mi/Columns)) since D-C06-1 (Columns 0 = 1728)
				effCols := cols
				if effCols == 0 {
					effCols = 1728
				}
				rowsOK := rows >= 0 && rows <= max(1, min(1<<16, (128<<20)/max(effCols, 1)))
				if got, want := pdf.VerifTrCCITTValidate(pdf.FilterCCITTFax{Columns: cols, Rows: rows, DamagedRowsBeforeError: dmg}, pdf.V1_7) == nil, in(cols) && rowsOK && in(dmg); got != want {
					c.Violate("tr-limits", "tr-filter-validate", fmt.Sprintf("FilterCCITTFax{Columns:%d Rows:%d Damaged:%d}.validate ok=%v, want %v", cols, rows, dmg, got, want), "-")
				}
			}
		}
	}
	c.Sample("TR paeth 10 20 15 -> " + fmt.Sprint(pdf.VerifTrPaeth(10, 20, 15)))
}

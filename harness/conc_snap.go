package main

// Deep snapshots of shared state (C18): a deterministic oracle for the class "a read-only API
// call writes to memory which is shared between goroutines outside the reviewed lock regions".
//
// concSnap walks everything reachable from a root pointer with reflect, including unexported
// fields, and hashes it: scalars by value, strings by content, pointers by address and pointee
// (cycle-safe), maps by their sorted content, and slices by (data pointer, len, cap) AND the
// bytes of the backing array up to its CAPACITY — a write into the spare capacity of a shared
// slice (`append(shared, …)` used as scratch space) changes the snapshot although no len and no
// visible element changes.  A hash is kept per field path (container elements collapsed to
// `[]` / `{}`), so a difference is reported as the deepest field paths which changed.  For the
// paths declared grow-only (the lock-protected caches of the inventory: Extractor.cache, wip) the
// entries are kept per key: entries may be added, existing ones must not change.

import (
	"fmt"
	"hash/maphash"
	"reflect"
	"sort"
	"strings"
	"unsafe"
)

type concSnapshot struct {
	h    map[string]uint64            // field path -> hash of everything below
	grow map[string]map[uint64]uint64 // grow-only map path -> key hash -> value hash
}

type concSnapVisit struct {
	p   unsafe.Pointer
	t   reflect.Type
	len int
	cap int
}

type concSnapper struct {
	// stop: pointers which are values published on their own (other cache entries): identity only
	stop     map[unsafe.Pointer]bool
	seen     map[concSnapVisit]uint64
	out      *concSnapshot
	growOnly func(path string) bool
	seed     maphash.Seed
}

var concSnapSeed = maphash.MakeSeed()

func concSnap(root any, growOnly func(path string) bool) *concSnapshot {
	s := &concSnapper{seen: map[concSnapVisit]uint64{}, out: &concSnapshot{h: map[string]uint64{}, grow: map[string]map[uint64]uint64{}}, growOnly: growOnly, seed: concSnapSeed}
	v := reflect.ValueOf(root)
	name := "?"
	if v.Kind() == reflect.Pointer && !v.IsNil() {
		name = v.Elem().Type().Name()
		v = v.Elem()
	}
	s.walk(v, name, 0)
	return s.out
}

func mix(a, b uint64) uint64 {
	a ^= b + 0x9e3779b97f4a7c15 + (a << 6) + (a >> 2)
	return a * 0xff51afd7ed558ccd
}

func (s *concSnapper) bytesHash(b []byte) uint64 { return maphash.Bytes(s.seed, b) }

func (s *concSnapper) record(path string, h uint64) {
	if strings.Count(path, ".") > 9 {
		return
	}
	// commutative: several values share one path (container elements, map iteration order)
	s.out.h[path] += mix(h, 0x2545f4914f6cdd1d)
}

// pointerFree reports whether values of the type contain no pointers (raw memory can be hashed).
func pointerFree(t reflect.Type) bool {
	switch t.Kind() {
	case reflect.Bool, reflect.Int, reflect.Int8, reflect.Int16, reflect.Int32, reflect.Int64,
		reflect.Uint, reflect.Uint8, reflect.Uint16, reflect.Uint32, reflect.Uint64, reflect.Uintptr,
		reflect.Float32, reflect.Float64, reflect.Complex64, reflect.Complex128:
		return true
	case reflect.Array:
		return pointerFree(t.Elem())
	case reflect.Struct:
		for i := 0; i < t.NumField(); i++ {
			if !pointerFree(t.Field(i).Type) {
				return false
			}
		}
		return true
	}
	return false
}

// opaque types: identity only (runtime / OS objects, synchronisation primitives whose state is
// transient, type descriptors)
func opaqueType(t reflect.Type) bool {
	// the reading machinery itself (reachable from decoded values which keep a handle on their file)
	if t.PkgPath() == "seehuhn.de/go/pdf" && (t.Name() == "Extractor" || t.Name() == "Reader" || t.Name() == "Writer") {
		return true
	}
	if t.PkgPath() == "verif/harness" && t.Name() == "concSnapGetter" {
		return true
	}
	switch t.PkgPath() {
	case "sync", "sync/atomic", "internal/sync", "reflect", "internal/abi", "runtime", "os", "syscall", "internal/poll", "time", "regexp", "regexp/syntax":
		return true
	}
	return false
}

func (s *concSnapper) walk(v reflect.Value, path string, depth int) (h uint64) {
	defer func() { s.record(path, h) }()
	if !v.IsValid() {
		return 1
	}
	if depth > 200 {
		return 2
	}
	t := v.Type()
	if v.Kind() == reflect.Interface {
		if v.IsNil() {
			return 13
		}
		e := v.Elem()
		return mix(mix(14, maphash.String(s.seed, e.Type().String())), s.walk(e, path, depth+1))
	}
	if t.Kind() == reflect.Pointer && opaqueType(t.Elem()) {
		return mix(24, uint64(uintptr(v.UnsafePointer())))
	}
	if opaqueType(t) {
		switch v.Kind() {
		case reflect.Pointer, reflect.Map, reflect.Chan, reflect.Func, reflect.UnsafePointer, reflect.Slice:
			return uint64(uintptr(v.UnsafePointer()))
		}
		return 3
	}
	switch v.Kind() {
	case reflect.Bool:
		if v.Bool() {
			return 5
		}
		return 4
	case reflect.Int, reflect.Int8, reflect.Int16, reflect.Int32, reflect.Int64:
		return mix(6, uint64(v.Int()))
	case reflect.Uint, reflect.Uint8, reflect.Uint16, reflect.Uint32, reflect.Uint64, reflect.Uintptr:
		return mix(7, v.Uint())
	case reflect.Float32, reflect.Float64:
		return mix(8, uint64(int64(v.Float()*1e6)))
	case reflect.Complex64, reflect.Complex128:
		return 9
	case reflect.String:
		return mix(10, maphash.String(s.seed, v.String()))
	case reflect.Pointer:
		if v.IsNil() {
			return 11
		}
		p := v.UnsafePointer()
		if depth > 0 && s.stop[p] {
			return mix(25, uint64(uintptr(p)))
		}
		key := concSnapVisit{p: p, t: t}
		if old, ok := s.seen[key]; ok {
			// visited before (or being visited: a cycle): the same hash wherever it is met again,
			// so that the result does not depend on the iteration order of maps
			if old == 0 {
				return mix(12, uint64(uintptr(p)))
			}
			return old
		}
		s.seen[key] = 0
		inner := s.walk(v.Elem(), path, depth+1)
		total := mix(mix(12, uint64(uintptr(p))), inner) | 1
		s.seen[key] = total
		return total
	case reflect.Interface:
		if v.IsNil() {
			return 13
		}
		e := v.Elem()
		return mix(mix(14, maphash.String(s.seed, e.Type().String())), s.walk(e, path, depth+1))
	case reflect.Struct:
		h = 15
		for i := 0; i < v.NumField(); i++ {
			h = mix(h, s.walk(v.Field(i), path+"."+t.Field(i).Name, depth+1))
		}
		return h
	case reflect.Array:
		h = 16
		if pointerFree(t) && v.CanAddr() {
			n := int(t.Size())
			return mix(h, s.bytesHash(unsafe.Slice((*byte)(v.Addr().UnsafePointer()), n)))
		}
		for i := 0; i < v.Len(); i++ {
			h = mix(h, s.walk(v.Index(i), path+"[]", depth+1))
		}
		return h
	case reflect.Slice:
		if v.IsNil() {
			return 17
		}
		p := v.UnsafePointer()
		n, c := v.Len(), v.Cap()
		h = mix(mix(mix(18, uint64(uintptr(p))), uint64(n)), uint64(c))
		key := concSnapVisit{p: p, t: t, len: n, cap: c}
		if old, ok := s.seen[key]; ok {
			if old == 0 {
				return h
			}
			return old
		}
		s.seen[key] = 0
		es := int(t.Elem().Size())
		var inner uint64 = 19
		if c > 0 && es > 0 {
			if pointerFree(t.Elem()) {
				// the whole backing array, up to the capacity
				inner = mix(inner, s.bytesHash(unsafe.Slice((*byte)(p), c*es)))
			} else {
				for i := 0; i < n; i++ {
					inner = mix(inner, s.walk(v.Index(i), path+"[]", depth+1))
				}
				if c > n {
					spare := unsafe.Slice((*byte)(unsafe.Add(p, n*es)), (c-n)*es)
					inner = mix(inner, s.bytesHash(spare))
				}
			}
		}
		total := mix(h, inner) | 1
		s.seen[key] = total
		return total
	case reflect.Map:
		if v.IsNil() {
			return 20
		}
		var entries map[uint64]uint64
		if s.growOnly != nil && s.growOnly(path) {
			entries = map[uint64]uint64{}
			s.out.grow[path] = entries
		}
		var sum uint64
		it := v.MapRange()
		for it.Next() {
			hk := s.walk(it.Key(), path+"{key}", depth+1)
			hv := s.walk(it.Value(), path+"{}", depth+1)
			sum += mix(hk, hv)
			if entries != nil {
				// a cache entry "never changes": the identity of the cached value
				entries[hk] = shallowHash(it.Value())
			}
		}
		return mix(mix(21, uint64(v.Len())), sum)
	case reflect.Chan, reflect.Func, reflect.UnsafePointer:
		return mix(22, uint64(uintptr(v.UnsafePointer())))
	}
	return 23
}

// shallowHash: the identity of a value (address for pointers, also behind an interface).
func shallowHash(v reflect.Value) uint64 {
	for v.IsValid() && v.Kind() == reflect.Interface && !v.IsNil() {
		v = v.Elem()
	}
	if !v.IsValid() {
		return 1
	}
	switch v.Kind() {
	case reflect.Pointer, reflect.Map, reflect.Chan, reflect.Func, reflect.UnsafePointer, reflect.Slice:
		return mix(30, uint64(uintptr(v.UnsafePointer())))
	case reflect.Int, reflect.Int8, reflect.Int16, reflect.Int32, reflect.Int64:
		return mix(31, uint64(v.Int()))
	case reflect.String:
		return mix(32, maphash.String(concSnapSeed, v.String()))
	}
	return 33
}

// concSnapDiff returns the deepest field paths whose contents differ, ignoring the paths below an
// allowed prefix; for grow-only maps it reports entries which vanished or changed.
func concSnapDiff(before, after *concSnapshot, allowed func(path string) bool) []string {
	changed := map[string]bool{}
	for p, h := range before.h {
		if h2, ok := after.h[p]; !ok || h2 != h {
			changed[p] = true
		}
	}
	for p := range after.h {
		if _, ok := before.h[p]; !ok {
			changed[p] = true
		}
	}
	var out []string
	for p := range changed {
		if allowed != nil && allowed(p) {
			continue
		}
		deepest := true
		for q := range changed {
			if q != p && strings.HasPrefix(q, p) && (allowed == nil || !allowed(q)) {
				deepest = false
				break
			}
		}
		// a path all of whose changed descendants are allowed is not reported either
		if deepest {
			onlyAllowedBelow := false
			for q := range changed {
				if q != p && strings.HasPrefix(q, p) && allowed != nil && allowed(q) {
					onlyAllowedBelow = true
				}
			}
			if !onlyAllowedBelow {
				out = append(out, p)
			}
		}
	}
	for p, old := range before.grow {
		now := after.grow[p]
		for k, hv := range old {
			if hv2, ok := now[k]; !ok {
				out = append(out, fmt.Sprintf("%s: an entry vanished", p))
			} else if hv2 != hv {
				out = append(out, fmt.Sprintf("%s: an existing entry changed", p))
			}
		}
	}
	sort.Strings(out)
	return out
}

// concSnapValue snapshots one published value: everything reachable from it up to (not into)
// other published values.
func concSnapValue(v any, stop map[unsafe.Pointer]bool) map[string]uint64 {
	s := &concSnapper{seen: map[concSnapVisit]uint64{}, out: &concSnapshot{h: map[string]uint64{}, grow: map[string]map[uint64]uint64{}}, seed: concSnapSeed, stop: stop}
	rv := reflect.ValueOf(v)
	name := "nil"
	if rv.IsValid() {
		name = rv.Type().String()
		if rv.Kind() == reflect.Pointer && !rv.IsNil() {
			name = rv.Elem().Type().Name()
		}
		s.walk(rv, name, 0)
	}
	return s.out.h
}

// concNilHashes: what record() stores for a path holding a single nil interface / nil pointer /
// nil slice
var concNilHashes = map[uint64]bool{mix(13, 0x2545f4914f6cdd1d): true, mix(11, 0x2545f4914f6cdd1d): true, mix(17, 0x2545f4914f6cdd1d): true}

package main

import (
	"bytes"

	"encoding/hex"
	"fmt"
	"golang.org/x/text/language"
	"io"
	"seehuhn.de/go/xmp"
	"sort"
	"strings"

	"seehuhn.de/go/pdf"
)

// C10 — encrypted files follow the standard algorithms and leak no plaintext.
//
// The independent implementation is the Lean transcription of ISO 32000-2
// §7.6 (lean/PdfVerif/Spec/SECStdSec.lean).  Its answers are needed while the
// run is going on (to build files from them), so the compiled driver is run
// as a sub-process on batches of `SEC spec.*` lines; every answer that
// agrees is also emitted as a correspondence line, so the check re-runs it.

func init() {
	rule := "the documents of C09's generator (all versions/ciphers/revisions, passwords, permission sets, metadata modes, object graphs, high object numbers, non-zero generations): (a) the Lean Spec handler authenticates user and owner password against the real Encrypt dictionary and derives the real file key, rejects a wrong password, and decrypts every stored string and stream; (b) files whose O/U/OE/UE/Perms and ciphertexts were computed by the Spec are opened by the real Reader with both passwords; (c) the output is scanned for plaintext needles outside the documented exemptions; (d) every IV in the file is one 16-byte draw of the recorded random stream, no draw is used twice; (e) equal plaintexts (>= 8 bytes) in different objects have different ciphertexts. A case is one document (a-e) or one Spec-made file (b); non-trivial when it contains ciphertext; distinct by configuration."
	addRun("C10", "known-answer lines for the Lean primitives against Go crypto/*", secKAT)
	addRun("C10", rule, runC10)
	addReplay("C10", "spec", replayC10Spec)
	addReplay("C10", "leak", replayC10Doc)
	addReplay("C10", "iv", replayC10Doc)
	addReplay("C10", "specfile", replayC10SpecFile)
}

func methodOfCF(cf string, V int) string {
	if cf == "rc4-128" && V >= 4 {
		return "v2cf" // RC4 as the /V2 method of the standard crypt filter
	}
	switch cf {
	case "aes-128":
		return "aesv2"
	case "aes-256":
		return "aesv3"
	}
	return "v2"
}

type specQuery struct {
	op     string
	want   string
	key    string // violation class if the answer differs
	desc   string
	replay string
}

// c10Leaks scans the file for plaintext needles (literal, and hex encoded).
func c10Leaks(d *secDoc) (string, string) {
	lower := bytes.ToLower(d.data)
	for _, n := range d.needles {
		if bytes.Contains(d.data, n) {
			return "C10-plaintext-visible", fmt.Sprintf("plaintext %q is visible in the output", n)
		}
		hx := []byte(hex.EncodeToString(n))
		if bytes.Contains(lower, hx) {
			return "C10-plaintext-visible-hex", fmt.Sprintf("plaintext %q is visible hex encoded", n)
		}
	}
	return "", ""
}

// storedIVs enumerates every object of the file through the xref table and
// returns the first 16 bytes of every stored string and stream body outside
// the documented exemptions (xref stream, metadata stream under
// /EncryptMetadata false, streams whose filter chain starts with /Crypt),
// together with the (ref, plaintext-independent) stored strings.
func storedIVs(d *secDoc) (ivs [][]byte, err error) {
	raw, err := d.open(d.user)
	if err != nil {
		raw, err = d.open(d.owner)
		if err != nil {
			return nil, err
		}
	}
	defer raw.Close()
	var metaRef pdf.Reference
	if b, ok := d.encDict["EncryptMetadata"].(pdf.Boolean); ok && !bool(b) {
		if cat, _ := pdf.NewCursor(raw).Dict(raw.GetMeta().Trailer["Root"]); cat != nil {
			metaRef, _ = cat["Metadata"].(pdf.Reference)
		}
	}
	entries := pdf.VerifReaderXRef(raw)
	pdf.VerifReaderEnc(raw).DropFilters()
	sort.Slice(entries, func(i, j int) bool { return entries[i].Pos < entries[j].Pos })
	for _, e := range entries {
		if e.InStream != 0 {
			continue // members of object streams are not encrypted individually
		}
		obj, err := raw.Get(e.Ref, false)
		if err != nil {
			return nil, fmt.Errorf("raw Get(%v): %w", e.Ref, err)
		}
		if stm, ok := obj.(*pdf.Stream); ok {
			if stm.Dict["Type"] == pdf.Name("XRef") {
				continue
			}
			if e.Ref == metaRef && metaRef != 0 {
				continue
			}
			// the stream IV is drawn when the stream is opened, before its
			// dictionary is formatted
			if !startsWithCrypt(stm.Dict["Filter"]) {
				body, _ := io.ReadAll(stm.NewReader())
				if len(body) < 16 {
					return nil, fmt.Errorf("stream %v: %d stored bytes", e.Ref, len(body))
				}
				ivs = append(ivs, body[:16])
			}
		}
		var strs [][]byte
		allStrings(obj, &strs)
		for _, s := range strs {
			if len(s) < 32 || len(s)%16 != 0 {
				return nil, fmt.Errorf("object %v: stored string of %d bytes", e.Ref, len(s))
			}
			ivs = append(ivs, s[:16])
		}
	}
	return ivs, nil
}

func startsWithCrypt(f pdf.Object) bool {
	switch x := f.(type) {
	case pdf.Name:
		return x == "Crypt"
	case pdf.Array:
		return len(x) > 0 && x[0] == pdf.Name("Crypt")
	}
	return false
}

// c10IVs checks (d): AES only.
func c10IVs(d *secDoc) (string, string) {
	if !strings.HasPrefix(d.strF, "aes") {
		return "", ""
	}
	ivs, err := storedIVs(d)
	if err != nil {
		return "C10-iv-enumeration", err.Error()
	}
	draws := d.rngLog[d.setupUsed:]
	if len(draws)%16 != 0 {
		return "C10-iv-draws", fmt.Sprintf("%d random bytes after the set-up are not a multiple of 16", len(draws))
	}
	cnt := map[string]int{}
	for i := 0; i+16 <= len(draws); i += 16 {
		cnt[string(draws[i:i+16])]++
	}
	for k, n := range cnt {
		if n > 1 {
			return "C10-iv-rng-repeats", fmt.Sprintf("test random stream repeats a block %x", k) // generator problem, not the library's
		}
	}
	seen := map[string]bool{}
	for _, iv := range ivs {
		if seen[string(iv)] {
			return "C10-iv-reused", fmt.Sprintf("IV %x is used twice in the file", iv)
		}
		seen[string(iv)] = true
		if cnt[string(iv)] == 0 {
			return "C10-iv-not-from-rng", fmt.Sprintf("IV %x in the file is not a 16-byte draw of the random stream", iv)
		}
	}
	if len(ivs) != len(draws)/16 {
		return "C10-iv-count", fmt.Sprintf("%d IVs in the file, %d draws of 16 bytes", len(ivs), len(draws)/16)
	}
	return "", ""
}

func replayC10Doc(input string) (bool, string) {
	var genSeed, rngSeed uint64
	var idx int
	if _, err := fmt.Sscanf(input, "%d %d %d", &genSeed, &rngSeed, &idx); err != nil {
		return true, "bad replay input: " + err.Error()
	}
	d := secDocFromSeeds(genSeed, rngSeed, idx)
	if d.writeErr != nil {
		return true, "document could not be written: " + d.writeErr.Error()
	}
	if k, desc := c10Leaks(d); k != "" {
		return false, d.describe() + ": " + desc
	}
	if k, desc := c10IVs(d); k != "" {
		return false, d.describe() + ": " + desc
	}
	return true, d.describe() + ": no leak, IVs are distinct draws"
}

func replayC10Spec(input string) (bool, string) {
	parts := strings.SplitN(input, " => ", 2)
	if len(parts) != 2 {
		return true, "bad replay input"
	}
	ans, err := askDriver([]string{parts[0]})
	if err != nil {
		return true, "driver: " + err.Error()
	}
	return ans[0] == parts[1], fmt.Sprintf("Spec answers %q, the real file says %q", ans[0], parts[1])
}

// ---- (a): the Spec on real files ----

func c10SpecQueries(d *secDoc, genSeed, rngSeed uint64, idx int, r *Rand) []specQuery {
	var qs []specQuery
	R := d.sec.R
	method := methodOfCF(d.strF, d.encV())
	keyS := hexWire(d.sec.Key)
	owner := d.owner
	if owner == "" {
		owner = d.user
	}
	pu, _ := prepKey(R, d.user)
	po, _ := prepKey(R, owner)
	id0 := d.idsOut[0]
	short := R == 3 && d.sec.KeyBytes < 16
	pws := []string{d.user, owner, "wrong-" + d.user, ""}
	if len(d.boundary) > 0 {
		pws = []string{d.user, owner}
		// differing only in / before / after the character at the 127-byte boundary
		pws = append(pws, d.boundary[0], d.boundary[len(d.boundary)/2])
		pws = append(pws, Pick(r, d.boundary))
	}
	for _, pw := range pws {
		k, prepared := prepKey(R, pw)
		var want string
		if R <= 4 {
			u, o := "!", "!"
			if prepared && k == pu {
				u = keyS
			}
			if prepared && k == po {
				o = keyS
			}
			want = fmt.Sprintf("ok %s user=%s owner=%s", method, u, o)
		} else {
			switch {
			case prepared && k == po:
				want = fmt.Sprintf("ok %s owner %s", method, keyS)
			case prepared && k == pu:
				want = fmt.Sprintf("ok %s user %s", method, keyS)
			default:
				want = fmt.Sprintf("ok %s none", method)
			}
		}
		cls := "C10-spec-auth"
		if short && prepared && k == po {
			// Algorithm 3 (c) / 7 (a): ISO hashes the whole 16-byte MD5 output 50 times,
			// crypto.go only its first keyBytes bytes; they differ for R 3 with keys < 128 bit
			cls = "C10-owner-key-md5-input-R3-short-key"
		}
		op := fmt.Sprintf("SEC spec.auth %s %s %s %s", wire(d.encDict), hexWire(id0), pwPDFDoc(pw), pwSASL(pw))
		qs = append(qs, specQuery{op: op, want: want, key: cls,
			desc: fmt.Sprintf("%s: Spec authentication with %q", d.describe(), pw), replay: op + " => " + want})
	}
	// the Encrypt dictionary as Tables 20/21/25 lay it out (incl. /P as a signed 32-bit integer)
	{
		bits := d.sec.KeyBytes * 8
		op := fmt.Sprintf("SEC spec.dict %s %d %d %d %d %s %s %s %s %s", method, bits, R, d.sec.P, secB2i(!d.sec.UnencMeta),
			hexWire(d.sec.O), hexWire(d.sec.U), hexWire(d.sec.OE), hexWire(d.sec.UE), hexWire(d.sec.Perms))
		want := "ok " + wire(d.encDict)
		qs = append(qs, specQuery{op: op, want: want, key: "C10-encrypt-dict-layout",
			desc: d.describe() + ": Encrypt dictionary layout", replay: op + " => " + want})
	}
	// decryption of the stored strings and streams
	rd, err := d.open(d.user)
	if err != nil {
		rd, err = d.open(owner)
	}
	if err != nil {
		return qs
	}
	defer rd.Close()
	raw, err := d.open(d.user)
	if err != nil {
		raw, err = d.open(owner)
	}
	if err != nil {
		return qs
	}
	defer raw.Close()
	pdf.VerifReaderEnc(raw).DropFilters()
	for _, wo := range d.written {
		if wo.inObjStm {
			continue
		}
		rawObj, err := raw.Get(wo.ref, false)
		if err != nil {
			continue
		}
		var pairs []strPair
		if collectPairs(wo.ref, wo.obj, rawObj, &pairs) != nil {
			continue
		}
		num, gen := wo.ref.Number(), wo.ref.Generation()
		for _, p := range pairs {
			op := fmt.Sprintf("SEC spec.dec %s %s %d %d %s", method, keyS, num, gen, hexWire(p.stored))
			want := "ok " + hexWire(p.plain)
			qs = append(qs, specQuery{op: op, want: want, key: "C10-spec-decrypt-string",
				desc: fmt.Sprintf("%s: Spec decryption of a string of object %v", d.describe(), wo.ref), replay: op + " => " + want})
		}
		if wo.isStream && wo.cryptIdent && d.encV() < 4 {
			// crypt filters (and with them /Crypt stream filters) exist only for /V 4 and 5; in a
			// /V 1 or 2 file a reader written from the standard decrypts every stream (7.6.2), so
			// the stored bytes must be the ciphertext of what the filters behind /Crypt yield
			if stm, ok := rawObj.(*pdf.Stream); ok {
				stored, _ := io.ReadAll(stm.NewReader())
				want := wo.body
				if f, isArr := stm.Dict["Filter"].(pdf.Array); isArr && len(f) > 1 {
					want = nil // further filters: compare only for the plain case
				}
				if want != nil {
					op := fmt.Sprintf("SEC spec.dec %s %s %d %d %s", method, keyS, num, gen, hexWire(stored))
					ws := "ok " + hexWire(want)
					qs = append(qs, specQuery{op: op, want: ws, key: "C10-crypt-filter-without-crypt-filters",
						desc: fmt.Sprintf("%s: stream %v has /Filter /Crypt and is stored in the clear, but the encryption dictionary has /V %d (no crypt filters): a standard reader decrypts it", d.describe(), wo.ref, d.encV()), replay: op + " => " + ws})
				}
			}
		}
		if wo.isStream && !wo.cryptIdent {
			stm, ok := rawObj.(*pdf.Stream)
			if !ok {
				continue
			}
			stored, _ := io.ReadAll(stm.NewReader())
			// expected: the bytes the real crypt layer yields; for unfiltered streams that is the body itself
			var want []byte
			if _, hasFilter := stm.Dict["Filter"]; !hasFilter {
				want = wo.body
			} else {
				dr, err := pdf.VerifReaderEnc(rd).DecryptStream(wo.ref, bytes.NewReader(stored))
				if err != nil {
					continue
				}
				want, _ = io.ReadAll(dr)
			}
			op := fmt.Sprintf("SEC spec.dec %s %s %d %d %s", method, keyS, num, gen, hexWire(stored))
			ws := "ok " + hexWire(want)
			qs = append(qs, specQuery{op: op, want: ws, key: "C10-spec-decrypt-stream",
				desc: fmt.Sprintf("%s: Spec decryption of stream %v", d.describe(), wo.ref), replay: op + " => " + ws})
		}
	}
	return qs
}

// ---- (e) ----

func c10EqualPlaintexts(d *secDoc) (string, string) {
	raw, err := d.open(d.user)
	if err != nil {
		raw, err = d.open(d.owner)
		if err != nil {
			return "", ""
		}
	}
	defer raw.Close()
	pdf.VerifReaderEnc(raw).DropFilters()
	type occ struct {
		ref    pdf.Reference
		stored []byte
	}
	byPlain := map[string][]occ{}
	for _, wo := range d.written {
		if wo.inObjStm {
			continue
		}
		rawObj, err := raw.Get(wo.ref, false)
		if err != nil {
			continue
		}
		var pairs []strPair
		if collectPairs(wo.ref, wo.obj, rawObj, &pairs) != nil {
			continue
		}
		for _, p := range pairs {
			if len(p.plain) >= 8 {
				byPlain[string(p.plain)] = append(byPlain[string(p.plain)], occ{wo.ref, p.stored})
			}
		}
	}
	for pl, occs := range byPlain {
		for i := range occs {
			for j := i + 1; j < len(occs); j++ {
				if occs[i].ref != occs[j].ref && bytes.Equal(occs[i].stored, occs[j].stored) {
					return "C10-equal-ciphertexts", fmt.Sprintf("plaintext %q has the same ciphertext in objects %v and %v", pl, occs[i].ref, occs[j].ref)
				}
			}
		}
	}
	return "", ""
}

// ---- (b): files made by the Spec ----

type specFile struct {
	method   string
	bits     int
	rev3     bool
	P        uint32
	emd      bool
	id0, id1 []byte
	user     string
	owner    string
	fkey     []byte
	salts    []byte
	rnd      []byte
	items    []specItem
	perm     pdf.Perm // the permission set P was made from (closed under the implications)
	sel      string   // S (StdCF) / I (Identity) for /StmF, /StrF, /EFF; only with crypt filters
	metaRef  pdf.Reference
	metaText string // title of the XMP packet which is the catalog's /Metadata (uncompressed)
}

type specItem struct {
	ref      pdf.Reference
	iv       []byte
	plain    []byte
	isStream bool
	kind     byte // 's' strings, 't' stream, 'e' embedded file stream, 'm' the catalog's metadata stream
}

func (f *specFile) hasCF() bool { return f.method != "v2" }

// applies reports whether the standard crypt filter (rather than Identity) is selected for a kind.
func (f *specFile) applies(kind byte) bool {
	if !f.hasCF() {
		return true
	}
	switch kind {
	case 's':
		return f.sel[1] == 'S'
	case 'e':
		return f.sel[2] == 'S'
	}
	return f.sel[0] == 'S'
}

// pFromPerm encodes a permission set as /P following ISO 32000-2 Table 22
// (written from the table, not from crypto.go): bits 1-2 zero, 7-8 and 13-32
// one, a permission bit set = operation allowed.
func pFromPerm(p pdf.Perm, R int) uint32 {
	P := uint32(0xFFFFF0C0)
	set := func(bit uint) { P |= 1 << (bit - 1) }
	if R == 2 {
		// revision 2 knows bits 3-6 only; 9-12 are reserved (one)
		P |= 0xF00
		if p&pdf.PermPrint != 0 {
			set(3)
		}
	} else {
		if p&pdf.PermPrintDegraded != 0 || p&pdf.PermPrint != 0 {
			set(3)
		}
		if p&pdf.PermPrint != 0 {
			set(12)
		}
		if p&pdf.PermForms != 0 || p&pdf.PermAnnotate != 0 {
			set(9)
		}
		if p&pdf.PermAssemble != 0 || p&pdf.PermModify != 0 {
			set(11)
		}
		set(10)
	}
	if p&pdf.PermModify != 0 {
		set(4)
	}
	if p&pdf.PermCopy != 0 {
		set(5)
	}
	if p&pdf.PermAnnotate != 0 {
		set(6)
	}
	return P
}

func genSpecFile(r *Rand, idx int) *specFile {
	f := &specFile{}
	f.sel = "SSS"
	switch idx % 8 {
	case 5:
		f.method, f.bits = "v2cf", 128
		f.sel = Pick(r, []string{"SSS", "IIS", "SSI"})
	case 6:
		f.method, f.bits = "aesv2", 128
		f.sel = Pick(r, []string{"IIS", "SSI", "ISS", "SIS"}) // e.g. "encrypt attachments only"
	case 7:
		f.method, f.bits = "aesv2", 128
	case 0:
		f.method, f.bits = "v2", 40
	case 1:
		f.method, f.bits = "v2", Pick(r, []int{48, 64, 96, 128, 128})
	case 2:
		f.method, f.bits = "v2", 40
		f.rev3 = true
	case 3:
		f.method, f.bits = "aesv2", 128
	default:
		f.method, f.bits = "aesv3", 256
	}
	R := 3
	switch {
	case f.method == "aesv2" || f.method == "v2cf":
		R = 4
	case f.method == "aesv3":
		R = 6
	case f.bits == 40 && !f.rev3:
		R = 2
	}
	f.perm = permClosure(pdf.Perm(r.Intn(128)))
	if R == 2 {
		// only what revision 2 can say
		q := f.perm & (pdf.PermCopy | pdf.PermPrint | pdf.PermAnnotate | pdf.PermModify)
		f.perm = permClosure(q)
	}
	f.P = pFromPerm(f.perm, R)
	f.emd = !(R >= 4 && r.P(1, 4))
	f.id0, f.id1 = r.Bytes(16), r.Bytes(16)
	pick := func() string {
		for {
			pw := genPassword(r)
			if _, ok := prepKey(R, pw); ok {
				return pw
			}
		}
	}
	f.user, f.owner = pick(), pick()
	if r.P(1, 6) {
		f.user = ""
	}
	if f.owner == "" {
		f.owner = "owner"
	}
	f.fkey, f.salts, f.rnd = r.Bytes(32), r.Bytes(32), r.Bytes(4)
	n := 2 + r.Intn(4)
	for i := 0; i < n; i++ {
		ref := pdf.NewReference(uint32(3+i), 0)
		switch r.Intn(4) {
		case 0:
			ref = pdf.NewReference(uint32(3+i), uint16(1+r.Intn(65535)))
		case 1:
			ref = pdf.NewReference(uint32(70000+r.Intn(1<<23)+i), uint16(r.Intn(3)))
		}
		it := specItem{ref: ref, iv: r.Bytes(16), isStream: i == n-1, kind: 's'}
		if it.isStream {
			it.kind = 't'
		}
		switch r.Intn(4) {
		case 0:
			it.plain = nil
		case 1:
			it.plain = r.Bytes(16 * (1 + r.Intn(3)))
		default:
			it.plain = newNeedle(r, 12+r.Intn(40))
		}
		f.items = append(f.items, it)
	}
	next := uint32(3 + n)
	if f.hasCF() {
		// an embedded file stream: /EFF selects its crypt filter
		f.items = append(f.items, specItem{ref: pdf.NewReference(next, 0), iv: r.Bytes(16), isStream: true, kind: 'e',
			plain: newNeedle(r, 20+r.Intn(40))})
		next++
	}
	if f.method == "aesv2" || f.method == "aesv3" {
		// the catalog's XMP metadata as an uncompressed stream whose length is a multiple of 16:
		// its last cipher block is padding only
		f.metaText = string(newNeedle(r, 18))
		packet := xmp.NewPacket()
		dc := &xmp.DublinCore{}
		dc.Title.Set(language.Und, f.metaText)
		if packet.Set(dc) == nil {
			var raw bytes.Buffer
			if packet.Write(&raw, nil) == nil {
				packet.PadToLength = (raw.Len()/16 + 4) * 16
				var padded bytes.Buffer
				if packet.Write(&padded, nil) == nil && padded.Len()%16 == 0 {
					f.emd = true // the metadata stream is encrypted like every other stream
					f.metaRef = pdf.NewReference(next, 0)
					f.items = append(f.items, specItem{ref: f.metaRef, iv: r.Bytes(16), isStream: true, kind: 'm', plain: padded.Bytes()})
				}
			}
		}
	}
	return f
}

func (f *specFile) prepared(pw string) []byte {
	if f.method == "aesv3" {
		b, _ := pdf.VerifUtf8Passwd(pw)
		return b
	}
	s, _ := pdf.PDFDocEncode(pw)
	return []byte(s)
}

func (f *specFile) opLine() string {
	var items []string
	for _, it := range f.items {
		kind := it.kind
		if kind == 'm' {
			kind = 't' // an ordinary stream as far as the crypt filter goes (EncryptMetadata is true)
		}
		items = append(items, fmt.Sprintf("%d:%d:%s:%s:%c", it.ref.Number(), it.ref.Generation(), hexWire(it.iv), hexWire(it.plain), kind))
	}
	return fmt.Sprintf("SEC spec.file %s %s %d %d %d %d %s %s %s %s %s %s %s", f.method, f.sel, f.bits, secB2i(f.rev3), f.P, secB2i(f.emd),
		hexWire(f.id0), hexWire(f.prepared(f.user)), hexWire(f.prepared(f.owner)), hexWire(f.fkey), hexWire(f.salts), hexWire(f.rnd),
		strings.Join(items, ","))
}

func (f *specFile) describe() string {
	return fmt.Sprintf("spec file %s/%d sel=%s rev3=%v P=%d emd=%v meta=%v user=%q owner=%q items=%d", f.method, f.bits, f.sel, f.rev3, f.P, f.emd, f.metaRef != 0, f.user, f.owner, len(f.items))
}

// assemble builds a PDF file around the Spec's answer "ok <dict> <key> <c1,c2,…>".
func (f *specFile) assemble(answer string) ([]byte, error) {
	parts := strings.Split(answer, " ")
	if len(parts) != 4 || parts[0] != "ok" {
		return nil, fmt.Errorf("Spec answer %q", answer)
	}
	p := &unw{s: parts[1]}
	o, err := p.obj()
	if err != nil {
		return nil, err
	}
	encDict, ok := o.(pdf.Dict)
	if !ok {
		return nil, fmt.Errorf("Spec answer has no dictionary")
	}
	var cts [][]byte
	if parts[3] != "." {
		for _, h := range strings.Split(parts[3], ",") {
			if h == "-" {
				cts = append(cts, nil)
				continue
			}
			b, err := hex.DecodeString(h)
			if err != nil {
				return nil, err
			}
			cts = append(cts, b)
		}
	}
	if len(cts) != len(f.items) {
		return nil, fmt.Errorf("%d ciphertexts for %d items", len(cts), len(f.items))
	}
	version := "1.4"
	switch f.method {
	case "v2cf":
		version = "1.5"
	case "aesv2":
		version = "1.6"
	case "aesv3":
		version = "2.0"
	}
	var buf bytes.Buffer
	type ent struct {
		ref pdf.Reference
		pos int
	}
	var ents []ent
	fmt.Fprintf(&buf, "%%PDF-%s\n%%\x80\x80\x80\x80\n", version)
	put := func(ref pdf.Reference, body func()) {
		ents = append(ents, ent{ref, buf.Len()})
		fmt.Fprintf(&buf, "%d %d obj\n", ref.Number(), ref.Generation())
		body()
		buf.WriteString("\nendobj\n")
	}
	put(pdf.NewReference(1, 0), func() {
		if f.metaRef != 0 {
			fmt.Fprintf(&buf, "<< /Type /Catalog /Pages 2 0 R /Metadata %d 0 R >>", f.metaRef.Number())
		} else {
			buf.WriteString("<< /Type /Catalog /Pages 2 0 R >>")
		}
	})
	put(pdf.NewReference(2, 0), func() { buf.WriteString("<< /Type /Pages /Kids [] /Count 0 >>") })
	for i, it := range f.items {
		ct := cts[i]
		if it.isStream {
			put(it.ref, func() {
				extra := ""
				switch it.kind {
				case 'e':
					extra = " /Type /EmbeddedFile"
				case 'm':
					extra = " /Type /Metadata /Subtype /XML"
				}
				fmt.Fprintf(&buf, "<<%s /Length %d >>\nstream\n", extra, len(ct))
				buf.Write(ct)
				buf.WriteString("\nendstream")
			})
		} else {
			put(it.ref, func() { fmt.Fprintf(&buf, "<< /S <%x> /A [ <%x> 7 ] >>", ct, ct) })
		}
	}
	xrefPos := buf.Len()
	buf.WriteString("xref\n0 1\n0000000000 65535 f \n")
	maxNum := uint32(0)
	for _, e := range ents {
		fmt.Fprintf(&buf, "%d 1\n%010d %05d n \n", e.ref.Number(), e.pos, e.ref.Generation())
		if e.ref.Number() > maxNum {
			maxNum = e.ref.Number()
		}
	}
	buf.WriteString("trailer\n")
	trailer := pdf.Dict{
		"Size":    pdf.Integer(maxNum + 1),
		"Root":    pdf.NewReference(1, 0),
		"ID":      pdf.Array{pdf.String(f.id0), pdf.String(f.id1)},
		"Encrypt": encDict,
	}
	if err := pdf.Format(&buf, 0, trailer); err != nil {
		return nil, err
	}
	fmt.Fprintf(&buf, "\nstartxref\n%d\n%%%%EOF\n", xrefPos)
	return buf.Bytes(), nil
}

// check opens the assembled file with both passwords in the real Reader.
func (f *specFile) check(data []byte) (string, string, bool) {
	permAgree := true
	R := 3
	switch {
	case f.method == "aesv2" || f.method == "v2cf":
		R = 4
	case f.method == "aesv3":
		R = 6
	case f.bits == 40 && !f.rev3:
		R = 2
	}
	pu, _ := prepKey(R, f.user)
	po, _ := prepKey(R, f.owner)
	for _, who := range []string{"user", "owner"} {
		pw := f.user
		if who == "owner" {
			pw = f.owner
		}
		rd, err := pdf.NewReader(bytes.NewReader(data), int64(len(data)), &pdf.ReaderOptions{Password: pw, ErrorHandling: pdf.ErrorHandlingStop})
		if err != nil {
			cls := "C10-spec-file-rejected"
			if who == "owner" && R == 3 && f.bits < 128 && pu != po {
				cls = "C10-owner-key-md5-input-R3-short-key"
			}
			return cls, fmt.Sprintf("the %s password %q does not open the Spec-encrypted file: %v", who, pw, err), permAgree
		}
		for _, it := range f.items {
			obj, err := rd.Get(it.ref, true)
			if err != nil {
				rd.Close()
				return "C10-spec-file-content", fmt.Sprintf("%s password: Get(%v): %v", who, it.ref, err), permAgree
			}
			if it.isStream {
				stm, ok := obj.(*pdf.Stream)
				var body []byte
				if ok {
					body, err = pdf.ReadAll(rd, nil, stm, 1<<20)
				}
				if !ok || err != nil || !bytes.Equal(body, it.plain) {
					rd.Close()
					cls := "C10-spec-file-content"
					if it.kind == 'e' && f.sel[2] != f.sel[0] {
						cls = "C10-spec-file-eff-ignored"
					}
					return cls, fmt.Sprintf("%s password: %s stream %v (crypt filters /StmF /StrF /EFF = %s) not recovered (%v): got %.60x want %.60x", who, map[byte]string{'t': "plain", 'e': "embedded file", 'm': "metadata"}[it.kind], it.ref, f.sel, err, body, it.plain), permAgree
				}
			} else {
				dict, _ := obj.(pdf.Dict)
				s, _ := dict["S"].(pdf.String)
				arr, _ := dict["A"].(pdf.Array)
				var a0 pdf.String
				if len(arr) > 0 {
					a0, _ = arr[0].(pdf.String)
				}
				if !bytes.Equal(s, it.plain) || !bytes.Equal(a0, it.plain) {
					rd.Close()
					return "C10-spec-file-content", fmt.Sprintf("%s password: strings of %v not recovered: got %x / %x want %x", who, it.ref, []byte(s), []byte(a0), it.plain), permAgree
				}
			}
		}
		if f.metaRef != 0 {
			m := rd.GetMeta().Catalog.Metadata
			got := ""
			if m != nil && m.Data != nil {
				var dc xmp.DublinCore
				m.Data.Get(&dc)
				got = dc.Title.Best(language.Und)
			}
			if got != f.metaText {
				rd.Close()
				return "C10-spec-file-metadata-dropped", fmt.Sprintf("%s password: the catalog's XMP metadata (AES, uncompressed, %d bytes = 16·%d) is not returned by the Reader: Catalog.Metadata = %v, title %q, want %q", who, len(f.items[len(f.items)-1].plain), len(f.items[len(f.items)-1].plain)/16, m != nil, got, f.metaText), permAgree
			}
		}
		// permissions are not part of C10's statement; recorded as a statistic
		want := f.perm
		if who == "owner" || pu == po {
			want = pdf.PermAll
		}
		if e, _ := prepKey(R, ""); e == pu && who == "owner" && pu != po {
			want = f.perm // the empty password opens the file first
		}
		if rd.GetMeta().Permissions != want {
			permAgree = false
		}
		rd.Close()
	}
	return "", "", permAgree
}

func replayC10SpecFile(input string) (bool, string) {
	var seed uint64
	var idx int
	if _, err := fmt.Sscanf(input, "%d %d", &seed, &idx); err != nil {
		return true, "bad replay input"
	}
	f := genSpecFile(&Rand{s: seed}, idx)
	ans, err := askDriver([]string{f.opLine()})
	if err != nil {
		return true, "driver: " + err.Error()
	}
	data, err := f.assemble(ans[0])
	if err != nil {
		return true, "assemble: " + err.Error()
	}
	k, desc, _ := f.check(data)
	return k == "", f.describe() + ": " + desc
}

func runC10(c *Ctx) {
	nDocs := 32
	nSpec := 25
	r6budget := 4
	if c.Thorough {
		nDocs, nSpec, r6budget = 320, 250, 40
	}
	r := c.R.Fork()

	type docInfo struct {
		d                *secDoc
		genSeed, rngSeed uint64
		idx              int
	}
	var queries []specQuery
	nBoundary := 2 // revision 6 documents with passwords around the 127-byte truncation
	if c.Thorough {
		nBoundary = 20
	}
	for k := 0; k < nDocs+nBoundary; k++ {
		i := k
		if k >= nDocs {
			i = secBoundaryIdx + k
		}
		genSeed, rngSeed := r.U64(), r.U64()
		gr := &Rand{s: genSeed}
		d := genSecDoc(gr, i)
		if d.version >= pdf.V2_0 && k < nDocs {
			if r6budget == 0 {
				continue
			}
			r6budget--
		}
		d.write(&Rand{s: rngSeed}, gr)
		if d.writeErr != nil {
			c.Stat("doc-write-err")
			continue
		}
		replay := fmt.Sprintf("%d %d %d", genSeed, rngSeed, i)
		c.Stat(fmt.Sprintf("doc-R%d-%s", d.sec.R, d.strF))
		c.Case(d.describe(), len(d.written) > 0)
		if i < 3 {
			c.Sample(d.describe())
		}
		if k, desc := c10Leaks(d); k != "" {
			c.Violate("leak", k, d.describe()+": "+desc, replay)
		}
		for _, v := range d.visible {
			if bytes.Contains(d.data, v) {
				c.Stat("exempt-plaintext-visible")
			} else {
				c.Stat("exempt-plaintext-not-found")
			}
		}
		if k, desc := c10IVs(d); k != "" {
			c.Violate("iv", k, d.describe()+": "+desc, replay)
		} else if strings.HasPrefix(d.strF, "aes") {
			c.StatN("iv-checked", (len(d.rngLog)-d.setupUsed)/16)
		}
		c10ObjectLines(c, d)
		if k, desc := c10EqualPlaintexts(d); k != "" {
			c.Violate("leak", k, d.describe()+": "+desc, replay)
		}
		queries = append(queries, c10SpecQueries(d, genSeed, rngSeed, i, r)...)
	}

	// (a) one batch through the Lean driver
	ops := make([]string, len(queries))
	for i, q := range queries {
		ops[i] = q.op
	}
	answers, err := askDriver(ops)
	if err != nil {
		panic("C10 needs the compiled Lean driver: " + err.Error())
	}
	for i, q := range queries {
		if answers[i] == q.want {
			c.Emit(q.op, q.want)
			c.Stat("spec-agrees")
			continue
		}
		c.Stat("spec-differs")
		c.Violate("spec", q.key, fmt.Sprintf("%s: the Spec answers %q, the real file says %q", q.desc, answers[i], q.want), q.replay)
	}

	// (b) files made by the Spec
	var files []*specFile
	var seeds []uint64
	for i := 0; i < nSpec; i++ {
		seed := r.U64()
		f := genSpecFile(&Rand{s: seed}, i)
		if f.method == "aesv3" {
			if c.Thorough && i%10 != 4 || !c.Thorough && i > 10 {
				f = genSpecFile(&Rand{s: seed}, i+1) // keep the number of 2.B hashes down
				files = append(files, f)
				seeds = append(seeds, seed)
				ops = append(ops, "")
				continue
			}
		}
		files = append(files, f)
		seeds = append(seeds, seed)
	}
	fops := make([]string, len(files))
	for i, f := range files {
		fops[i] = f.opLine()
	}
	fans, err := askDriver(fops)
	if err != nil {
		panic("C10 needs the compiled Lean driver: " + err.Error())
	}
	for i, f := range files {
		c.Case(f.describe(), true)
		c.Stat("spec-file-" + f.method)
		data, err := f.assemble(fans[i])
		if err != nil {
			c.Violate("specfile", "C10-spec-file-assemble", f.describe()+": "+err.Error(), fmt.Sprintf("%d %d", seeds[i], i))
			continue
		}
		k, desc, permAgree := f.check(data)
		if k != "" {
			c.Violate("specfile", k, f.describe()+": "+desc, fmt.Sprintf("%d %d", seeds[i], i))
			continue
		}
		c.Emit(fops[i], fans[i])
		if permAgree {
			c.Stat("spec-file-permissions-agree")
		} else {
			// revision 2 files with the reserved bits 9-12 set (as ISO asks): stdSecPToPerm reads
			// bits 9 and 11 with their revision 3 meaning; see notes/C10.md
			c.Stat(fmt.Sprintf("spec-file-permissions-differ-%s-%d-rev3=%v", f.method, f.bits, f.rev3))
		}
	}
}

// fmtOrderStrings lists the string leaves of an object in the order Format
// visits them: arrays in order, dictionaries with /Type and /Subtype first and
// the other keys ascending, nil entries skipped.
func fmtOrderStrings(o pdf.Object, out *[][]byte) {
	switch x := o.(type) {
	case pdf.String:
		*out = append(*out, []byte(x))
	case pdf.Array:
		for _, e := range x {
			fmtOrderStrings(e, out)
		}
	case pdf.Dict:
		var rest []string
		for k, v := range x {
			if v == nil || k == "Type" || k == "Subtype" {
				continue
			}
			rest = append(rest, string(k))
		}
		sort.Strings(rest)
		keys := []string{}
		if v, ok := x["Type"]; ok && v != nil {
			keys = append(keys, "Type")
		}
		if v, ok := x["Subtype"]; ok && v != nil {
			keys = append(keys, "Subtype")
		}
		keys = append(keys, rest...)
		for _, k := range keys {
			fmtOrderStrings(x[pdf.Name(k)], out)
		}
	case *pdf.Stream:
		fmtOrderStrings(x.Dict, out)
	}
}

// c10ObjectLines: (1) the sequence of IVs in the file, in the order of
// writing, is the random stream cut into 16-byte pieces (fresh_iv's k-th
// call); (2) whole objects against the model of the encrypting formatter
// (no_plaintext_obj): given the IVs, the stored object is what encObj makes
// of the plain one.
func c10ObjectLines(c *Ctx, d *secDoc) {
	ciph, _ := cipherOfCF(d.strF)
	if ciph == "aes" {
		if ivs, err := storedIVs(d); err == nil {
			draws := d.rngLog[d.setupUsed:]
			c.Emit(fmt.Sprintf("SEC ivseq %s %d", hexWire(draws), len(ivs)), hexList(ivs))
		}
	}
	raw, err := d.open(d.user)
	if err != nil {
		raw, err = d.open(d.owner)
		if err != nil {
			return
		}
	}
	defer raw.Close()
	pdf.VerifReaderEnc(raw).DropFilters()
	keyS := hexWire(d.sec.Key)
	for _, wo := range d.written {
		if wo.inObjStm {
			continue
		}
		rawObj, err := raw.Get(wo.ref, false)
		if err != nil {
			continue
		}
		var stored pdf.Object = rawObj
		if stm, ok := rawObj.(*pdf.Stream); ok {
			// the entries the caller gave (Length, Filter, DecodeParms are the writer's and hold no strings)
			sub := pdf.Dict{}
			for k := range wo.obj.(pdf.Dict) {
				sub[k] = stm.Dict[k]
			}
			stored = sub
		}
		var ivs []byte
		if ciph == "aes" {
			var strs [][]byte
			fmtOrderStrings(stored, &strs)
			for _, s := range strs {
				if len(s) < 16 {
					return
				}
				ivs = append(ivs, s[:16]...)
			}
		}
		c.Emit(fmt.Sprintf("SEC encobj %s %d %d %s %d %d %s %s", ciph, d.sec.R, d.sec.KeyBytes, keyS, wo.ref.Number(), wo.ref.Generation(), hexWire(ivs), wire(wo.obj)),
			fmt.Sprintf("ok %s used=%d", wire(stored), len(ivs)))
		c.Stat("encobj-line")
	}
}

package main

import (
	"encoding/hex"
	"errors"
	"strconv"
	"strings"

	"seehuhn.de/go/pdf"
)

// unwireSeq parses a wire sequence back into objects (for replays).
func unwireSeq(s string) (pdf.Array, error) {
	if s == "-" {
		return pdf.Array{}, nil
	}
	// the replay input is wire(objs) where objs is an Array: "a…]"
	p := &unw{s: s}
	o, err := p.obj()
	if err != nil {
		return nil, err
	}
	if a, ok := o.(pdf.Array); ok && p.i == len(s) {
		return a, nil
	}
	return nil, errors.New("not an array wire")
}

type unw struct {
	s string
	i int
}

func (p *unw) until(stop byte) (string, error) {
	j := strings.IndexByte(p.s[p.i:], stop)
	if j < 0 {
		return "", errors.New("unterminated field")
	}
	f := p.s[p.i : p.i+j]
	p.i += j + 1
	return f, nil
}

func (p *unw) hexField() ([]byte, error) {
	f, err := p.until(';')
	if err != nil {
		return nil, err
	}
	return hex.DecodeString(f)
}

func (p *unw) obj() (pdf.Object, error) {
	if p.i >= len(p.s) {
		return nil, errors.New("eof")
	}
	c := p.s[p.i]
	p.i++
	switch c {
	case 'z':
		return nil, nil
	case 'Z':
		return pdf.Array(nil), nil
	case 'N':
		return pdf.Dict(nil), nil
	case 't':
		return pdf.Boolean(true), nil
	case 'f':
		return pdf.Boolean(false), nil
	case 'i':
		f, err := p.until(';')
		if err != nil {
			return nil, err
		}
		n, err := strconv.ParseInt(f, 10, 64)
		return pdf.Integer(n), err
	case 'r':
		b, err := p.hexField()
		if err != nil {
			return nil, err
		}
		x, err := strconv.ParseFloat(string(b), 64)
		return pdf.Real(x), err
	case 'n':
		b, err := p.hexField()
		return pdf.Name(b), err
	case 's':
		b, err := p.hexField()
		if b == nil {
			b = []byte{}
		}
		return pdf.String(b), err
	case 'o':
		b, err := p.hexField()
		return pdf.Operator(b), err
	case 'R':
		a, err := p.until(',')
		if err != nil {
			return nil, err
		}
		b, err := p.until(';')
		if err != nil {
			return nil, err
		}
		n, _ := strconv.ParseUint(a, 10, 32)
		g, _ := strconv.ParseUint(b, 10, 16)
		return pdf.NewReference(uint32(n), uint16(g)), nil
	case 'a':
		a := pdf.Array{}
		for {
			if p.i < len(p.s) && p.s[p.i] == ']' {
				p.i++
				return a, nil
			}
			o, err := p.obj()
			if err != nil {
				return nil, err
			}
			a = append(a, o)
		}
	case 'd':
		d := pdf.Dict{}
		for {
			if p.i < len(p.s) && p.s[p.i] == '>' {
				p.i++
				return d, nil
			}
			k, err := p.hexField()
			if err != nil {
				return nil, err
			}
			o, err := p.obj()
			if err != nil {
				return nil, err
			}
			d[pdf.Name(k)] = o
		}
	}
	return nil, errors.New("bad tag " + string(c))
}

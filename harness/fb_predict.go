package main

import (
	"bytes"
	"compress/zlib"
	"fmt"
	"io"
	"strings"

	"seehuhn.de/go/membudget"
	"seehuhn.de/go/pdf"
)

// ---- predictor stage (internal/filter/predict) ----

type fbPred struct{ colors, bpc, columns, pred int }

func (p fbPred) params() *pdf.VerifPredictParams {
	return &pdf.VerifPredictParams{Colors: p.colors, BitsPerComponent: p.bpc, Columns: p.columns, Predictor: p.pred}
}

func (p fbPred) String() string {
	return fmt.Sprintf("%d %d %d %d", p.colors, p.bpc, p.columns, p.pred)
}

var fbPredictors = []int{1, 2, 10, 11, 12, 13, 14, 15}

// fbGenPred: mostly small valid shapes; wide=true adds boundary and invalid values.
func fbGenPred(r *Rand, wide bool) fbPred {
	p := fbPred{
		colors:  Pick(r, []int{1, 1, 2, 3, 3, 4, 5, 7}),
		bpc:     Pick(r, []int{1, 2, 4, 8, 8, 16}),
		columns: 1 + r.Intn(24),
		pred:    Pick(r, fbPredictors),
	}
	if r.P(1, 5) {
		p.columns = Pick(r, []int{1, 2, 7, 8, 9, 63, 64, 65, 100, 255, 256, 257})
	}
	if wide {
		switch r.Intn(6) {
		case 0:
			p.colors = Pick(r, []int{0, -1, 59, 60, 61, 255, 256, 257, 1 << 20, 1<<62 + 5, 1<<63 - 1, -(1 << 63)})
		case 1:
			p.bpc = Pick(r, []int{0, -8, 3, 5, 7, 9, 15, 17, 32, 1 << 40})
		case 2:
			p.columns = Pick(r, []int{0, -1, 65535, 65536, 65537, 1 << 20, 1<<20 + 1, 1 << 40, 1<<63 - 1, -(1 << 63)})
		case 3:
			p.pred = Pick(r, []int{0, -1, 3, 9, 16, 100, 1 << 40})
		case 4:
			// jointly enormous rows around maxBytesPerRow = 4 MiB
			p.colors = Pick(r, []int{32, 60, 64, 128, 256})
			p.bpc = Pick(r, []int{8, 16})
			p.columns = Pick(r, []int{8191, 8192, 8193, 16384, 32768, 65536, 4194304 / 64, 4194304/64 + 1})
		}
	}
	return p
}

func fbPredValidateLine(p fbPred) string {
	err, rb, bpp := pdf.VerifPredictValidate(p.params())
	if err != nil {
		return "err"
	}
	if p.pred == 1 {
		return "ok - -" // the sizes are not used (and may wrap) when no predictor is selected
	}
	return fmt.Sprintf("ok %d %d", rb, bpp)
}

// fbPredEncodeHook runs predict.NewWriter directly.
func fbPredEncodeHook(p fbPred, data []byte, r *Rand, mode int) ([]byte, error) {
	buf := &bytes.Buffer{}
	w, err := pdf.VerifPredictWriter(fbNopWC{buf}, p.params())
	if err != nil {
		return nil, err
	}
	if err := fbWriteChunked(w, data, r, mode); err != nil {
		return nil, err
	}
	if err := w.Close(); err != nil {
		return nil, err
	}
	return buf.Bytes(), nil
}

// fbPredDecodeHook runs predict.NewReader directly; the error word is "ok" or "malformed".
func fbPredDecodeHook(p fbPred, enc []byte, r *Rand, mode int) ([]byte, string) {
	rd, err := pdf.VerifPredictReader(io.NopCloser(bytes.NewReader(enc)), p.params(), membudget.New(1<<28))
	if err != nil {
		return nil, "err"
	}
	out, err := fbReadChunked(rd, r, mode, 0)
	return out, fbErrWord(err)
}

// fbPredTags extracts the per-row tag bytes the real writer chose (predictor 15).
func fbPredTags(p fbPred, rowBytes int, enc []byte) []byte {
	if p.pred < 10 {
		return nil
	}
	var tags []byte
	for i := 0; i < len(enc); i += rowBytes + 1 {
		tags = append(tags, enc[i])
	}
	return tags
}

func fbGenRowData(r *Rand, n int) []byte {
	b := make([]byte, n)
	switch r.Intn(6) {
	case 0: // random
		for i := range b {
			b[i] = byte(r.U64())
		}
	case 1: // smooth gradient
		v := byte(r.U64())
		for i := range b {
			v += byte(r.Intn(5)) - 2
			b[i] = v
		}
	case 2: // constant
		v := Pick(r, []byte{0, 1, 0x7f, 0x80, 0xff})
		for i := range b {
			b[i] = v
		}
	case 3: // extremes (wrap-around of the byte arithmetic)
		for i := range b {
			b[i] = Pick(r, []byte{0, 0xff, 0x80, 0x7f, 1, 0xfe})
		}
	case 4: // period
		per := 1 + r.Intn(7)
		pat := r.Bytes(per)
		for i := range b {
			b[i] = pat[i%per]
		}
	default: // sparse
		for i := range b {
			if r.P(1, 8) {
				b[i] = byte(r.U64())
			}
		}
	}
	return b
}

// reference codecs written from the PNG and TIFF specifications (C07): see fb_c07.go

// fbFilterOf builds the public filter value for kind "flate", "lzw", "compress".
func fbFilterOf(kind string, p fbPred, obo bool) pdf.Filter {
	switch kind {
	case "lzw":
		return pdf.FilterLZW{Predictor: pdf.FlatePredictor(p.pred), Colors: p.colors, BitsPerComponent: p.bpc, Columns: p.columns, OffByOne: obo}
	case "compress":
		return pdf.FilterCompress{Predictor: pdf.FlatePredictor(p.pred), Colors: p.colors, BitsPerComponent: p.bpc, Columns: p.columns}
	}
	return pdf.FilterFlate{Predictor: pdf.FlatePredictor(p.pred), Colors: p.colors, BitsPerComponent: p.bpc, Columns: p.columns}
}

// oracleFilterRT: Encode → Info → dict → MakeFilter → Decode gives the data back.
// Returns ok, class key, description.
func oracleFilterRT(f pdf.Filter, v pdf.Version, data []byte, r *Rand, wmode, rmode int) (bool, string, string) {
	name, parms, err := f.Info(v)
	if err != nil {
		return true, "", "not validated: " + err.Error()
	}
	enc, err, pan := fbEncode(f, v, data, r, wmode)
	if pan != "" {
		return false, "panic", "Encode panicked: " + pan
	}
	if err != nil {
		key := "encode-error"
		if _, isCC := f.(pdf.FilterCCITTFax); !isCC {
			key = "predict-validate-gap"
		}
		return false, key, fmt.Sprintf("validation accepts the parameters (Info ok) but encoding fails: %v", err)
	}
	f2, err := pdf.MakeFilter(name, parms)
	if err != nil {
		return false, "makefilter-error", fmt.Sprintf("MakeFilter(%s, %v): %v", name, parms, err)
	}
	out, err, pan := fbDecode(f2, v, enc, r, rmode, 0)
	if pan != "" {
		return false, "panic", "Decode panicked: " + pan
	}
	if err != nil {
		return false, "roundtrip", fmt.Sprintf("decoding %s failed: %v (in=%s enc=%s)", name, err, fbTrunc(data), fbTrunc(enc))
	}
	if !bytes.Equal(out, data) {
		return false, "roundtrip", fmt.Sprintf("%s %v: decoded data differs (in=%s enc=%s out=%s)", name, parms, fbTrunc(data), fbTrunc(enc), fbTrunc(out))
	}
	return true, "", ""
}

func fbVersionOf(n int) pdf.Version { return pdf.Version(n) }

// replay input: "<kind> <v> <colors> <bpc> <columns> <pred> <obo> <wmode> <rmode> <datahex>"
func replayPredictRT(input string) (bool, string) {
	a := fbFields(input)
	if len(a) != 10 {
		return true, "bad replay input"
	}
	p := fbPred{fbAtoi(a[2]), fbAtoi(a[3]), fbAtoi(a[4]), fbAtoi(a[5])}
	f := fbFilterOf(a[0], p, a[6] == "1")
	ok, key, desc := oracleFilterRT(f, fbVersionOf(fbAtoi(a[1])), fbHexDecode(a[9]), NewRand(1), fbAtoi(a[7]), fbAtoi(a[8]))
	return ok, key + " " + desc
}

func runFBPredict(c *Ctx) {
	r := c.R.Fork()
	n := 1200
	nValid := 4000
	nPaeth := 3000
	if c.Thorough {
		n, nValid, nPaeth = 15000, 60000, 60000
	}

	// 1. Params.Validate and the derived sizes, incl. out-of-range and huge values
	for i := 0; i < nValid; i++ {
		p := fbGenPred(r, i%2 == 0)
		line := fbPredValidateLine(p)
		c.Emit("FB pvalid "+p.String(), line)
		c.Case("pv:"+p.String(), true)
		if line == "err" {
			c.Stat("pvalid_err")
		} else {
			c.Stat("pvalid_ok")
		}
	}

	// 2. paethPredictor: boundary triples exhaustively over a 9-value alphabet, then random
	alpha := []int{0, 1, 2, 127, 128, 129, 253, 254, 255}
	for _, a := range alpha {
		for _, b := range alpha {
			for _, cc := range alpha {
				c.Emit(fmt.Sprintf("FB paeth %d %d %d", a, b, cc), fmt.Sprint(pdf.VerifPaeth(byte(a), byte(b), byte(cc))))
			}
		}
	}
	for i := 0; i < nPaeth; i++ {
		a, b, cc := r.Intn(256), r.Intn(256), r.Intn(256)
		if r.P(1, 3) { // near ties
			b = (a + r.Intn(5) - 2 + 256) % 256
			cc = (a + r.Intn(5) - 2 + 256) % 256
		}
		c.Emit(fmt.Sprintf("FB paeth %d %d %d", a, b, cc), fmt.Sprint(pdf.VerifPaeth(byte(a), byte(b), byte(cc))))
	}

	// 2b. parameter sets the filter validates but the predictor stage rejects (known class
	// predict-validate-gap): validation and encoding must agree
	for _, p := range []fbPred{{1, 8, 100000, 12}, {61, 8, 2, 2}, {257, 8, 1, 15}, {256, 16, 65536, 11}, {60, 8, 2, 2}, {256, 8, 3, 15}} {
		for _, kind := range []string{"flate", "lzw"} {
			data := []byte{}
			if err, rb, _ := pdf.VerifPredictValidate(p.params()); err == nil {
				data = fbGenRowData(r, rb)
			}
			ok, k, desc := oracleFilterRT(fbFilterOf(kind, p, true), pdf.V1_7, data, r, 0, 0)
			c.Case(fmt.Sprintf("gap:%s:%s", kind, p), true)
			if !ok {
				c.Violate("fb-predict-rt", k, fmt.Sprintf("%s %v: %s", kind, p, desc), fmt.Sprintf("%s 8 %s 1 0 0 %s", kind, p, hexWire(data)))
			}
		}
	}

	// 2c. the complete TIFF / PNG-row-tag grid (every cell in every run)
	runFBPredGrid(c, false)

	// 3. rows through the real writer/reader, the model and the public filters
	for i := 0; i < n; i++ {
		p := fbGenPred(r, false)
		err, rb, _ := pdf.VerifPredictValidate(p.params())
		if err != nil {
			continue
		}
		nrows := r.Intn(5)
		if r.P(1, 6) {
			nrows = 1
		}
		data := fbGenRowData(r, nrows*rb)
		partial := false
		if r.P(1, 8) && rb > 1 { // a final partial row (zero padded on Close)
			data = append(data, fbGenRowData(r, 1+r.Intn(rb-1))...)
			partial = true
		}
		wmode, rmode := r.Intn(4), r.Intn(4)
		enc, err := fbPredEncodeHook(p, data, r, wmode)
		if err != nil {
			c.Violate("fb-predict-rt", "predict-writer-error", fmt.Sprintf("predict writer failed for %v: %v", p, err), "")
			continue
		}
		tags := []byte{}
		if p.pred == 15 {
			tags = fbPredTags(p, rb, enc)
			for _, t := range tags {
				c.Stat(fmt.Sprintf("png15_tag_%d", t))
			}
		}
		c.Stat(fmt.Sprintf("pred_%d_bpc_%d", p.pred, p.bpc))
		c.Emit(fmt.Sprintf("FB penc %s %s %s", p, hexWire(tags), hexWire(data)), "ok "+hexWire(enc))
		out, word := fbPredDecodeHook(p, enc, r, rmode)
		c.Emit(fmt.Sprintf("FB pdec %s %s", p, hexWire(enc)), hexWire(out)+" "+word)
		key := fmt.Sprintf("p:%s:%x", p, data)
		c.Case(key, len(data) > 0 && p.pred != 1)
		if i < 3 {
			c.Sample(fmt.Sprintf("predict %v data=%s enc=%s", p, fbTrunc(data), fbTrunc(enc)))
		}

		// the property on the implementation: whole rows come back
		want := data
		if partial && p.pred != 1 {
			pad := (rb - len(data)%rb) % rb
			want = append(append([]byte{}, data...), make([]byte, pad)...)
		}
		if word != "ok" || !bytes.Equal(out, want) {
			c.Violate("fb-predict-rt", "predict-roundtrip", fmt.Sprintf("predict %v: in=%s enc=%s out=%s %s", p, fbTrunc(data), fbTrunc(enc), fbTrunc(out), word),
				fmt.Sprintf("flate 9 %s 0 %d %d %s", p, wmode, rmode, hexWire(want)))
		}

		// through the public filters (whole rows only)
		if !partial {
			kind := Pick(r, []string{"flate", "flate", "lzw", "compress"})
			obo := r.Bool()
			v := fbVersionOf(1 + r.Intn(9))
			f := fbFilterOf(kind, p, obo)
			ok, k, desc := oracleFilterRT(f, v, data, r, wmode, rmode)
			if !ok {
				c.Violate("fb-predict-rt", k, desc, fmt.Sprintf("%s %d %s %s %d %d %s", kind, v, p, map[bool]string{true: "1", false: "0"}[obo], wmode, rmode, hexWire(data)))
			}
			c.Stat("filter_rt_" + kind)
			// Flate: the bytes handed to zlib are the predictor output
			if kind == "flate" && p.pred != 1 {
				if _, _, err := f.Info(v); err == nil {
					if z, err, _ := fbEncode(f, v, data, r, wmode); err == nil {
						if zr, err := zlib.NewReader(bytes.NewReader(z)); err == nil {
							inflated, _ := io.ReadAll(zr)
							if !bytes.Equal(inflated, enc) {
								c.Violate("fb-predict-rt", "flate-predictor-stage", fmt.Sprintf("FilterFlate %v: inflated output differs from the predictor stage", p), "")
							}
							c.Stat("flate_stage_compared")
						}
					}
				}
			}
		}

		// 4. the reader on damaged predictor data: truncations and byte changes
		if len(enc) > 0 && r.P(1, 2) {
			bad := append([]byte{}, enc...)
			switch r.Intn(4) {
			case 0:
				bad = bad[:r.Intn(len(bad))]
			case 1:
				bad[r.Intn(len(bad))] ^= byte(1 + r.Intn(255))
			case 2: // tag bytes outside 0..4
				if p.pred >= 10 {
					bad[0] = byte(5 + r.Intn(251))
				}
			default:
				bad = append(bad, r.Bytes(1+r.Intn(rb+1))...)
			}
			out, word := fbPredDecodeHook(p, bad, r, r.Intn(4))
			c.Emit(fmt.Sprintf("FB pdec %s %s", p, hexWire(bad)), hexWire(out)+" "+word)
			c.Stat("pdec_damaged_" + word)
		}
	}
	_ = strings.Fields
}

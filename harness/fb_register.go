package main

// Registration of work package FB under the properties C06, C07 and C08.

func init() {
	addRun("C06", "FB: predictor shapes (Colors x BitsPerComponent x Columns x predictor 1,2,10..15; gradients, extremes, constants, random) through predict.NewWriter/NewReader, the Lean model and FilterFlate/LZW/Compress (Encode->Info->MakeFilter->Decode) with random write/read chunkings; Params.Validate on boundary and huge values; paethPredictor on boundary and random triples; in EVERY run the complete grid Predictor 2 x BitsPerComponent {1,2,4,8,16} x Colors {1..4} x Columns {1..17, 24, 31..33, 40, 63..65, 128} x rows {1,2,3,5} x {all ones, every row ending in a 1 sample, alternating, random} and PNG 10..15 over a small geometry grid with 2..5 rows through writer and reader (oracle fb-predict-grid; cell counts in the evidence stats tiffgrid_*, pnggrid_*). Non-trivial: at least one data byte and a predictor other than 1; distinct by parameters and data.", runFBPredict)
	addRun("C06", "FB: CCITTFax K<0,0,>0 x EndOfLine x EncodedByteAlign x BlackIs1 x EndOfBlock x Rows x Columns (1..300, 1728, 2560..5120), rows of random bits, byte runs, runs that are multiples of 64, near copies of the previous row, all white/black, rows of 200000 pixels with runs of 161344 pixels and more; encoder and decoder compared with the model, round trip through Info->MakeFilter required for EVERY parameter class: a failure inside one of the classes that failed before the reader was repaired is reported under that class key (ccitt-noeob, ccitt-bytealign, ccitt-kpos-rows, ccitt-1d-final-run-64, ccitt-2d-long-run: regression detectors), any other under roundtrip. Non-trivial: at least one row.", runFBCCITT)
	addRun("C06", "FB: filter parameter values (valid, shorthand 0, out of range, version dependent) through Info, the emitted dictionary through MakeFilter; arbitrary DecodeParms dictionaries (type confusion, magnitudes up to int64 limits) through MakeFilter; /Filter and /DecodeParms of any shape through GetFilters (chain cap 8, Crypt position); appendFilter from arbitrary entries. Non-trivial: a non-empty dictionary.", runFBParams)
	addRun("C06", "FB: chains of up to 3 filters through Writer.OpenStream and Reader/DecodeStream with random chunkings.", runFBChains)
	addRun("C06", "FB: every encoder (CCITTFax K<0/0/>0 with all option sets, Flate/LZW/Compress with predictor rows, ASCII85, ASCIIHex, RunLength) fed from ONE reused caller buffer that is overwritten after every Write — sizes 1,2,3,5,7, row-1, row, row+1, 2.5 rows, 2 rows+1, 3 rows-1, 13, 127, 4095, random — and through io.CopyBuffer: output byte-identical to the single-Write encoding; the encoding read back with 1/3/5/7-byte reused destination buffers and (CCITTFax G4, G3 1-D+EOL) by x/image/ccitt. Non-trivial: data not empty.", runFBChunking)
	addReplay("C06", "fb-predict-grid", replayPredGrid)
	addReplay("C06", "fb-chunking", replayChunking)
	addReplay("C06", "fb-predict-rt", replayPredictRT)
	addReplay("C06", "fb-ccitt-rt", replayCCITTRT)
	addReplay("C06", "fb-params-rt", replayParamsRT)
	addReplay("C06", "fb-chain-rt", replayChainRT)
	addReplay("C06", "fb-getfilters", replayGetFilters)

	addRun("C07", "FB: library PNG/TIFF predictor output decoded by, and input encoded by, reference codecs written from the PNG and TIFF specifications (random parameter sets AND the complete TIFF/PNG grid of fb_predgrid.go in every run; for /Predictor 10..14 the reference encoder also chooses the filter type per row, tags differing from the declared predictor: key foreign-predict-rowtag) (Go, in the harness, and Lean Spec/FBCodecs through the driver); library CCITTFax Group 4 (with and without EncodedByteAlign) and Group 3 1-D (EndOfLine) output, with and without the end-of-block pattern, decoded by golang.org/x/image/ccitt; the ten Group 4 / Group 3 sample files of x/image/ccitt's test data (written by an unrelated encoder: plain, inverted, byte-aligned Group 4, EOFB-less) decoded by the library and by x/image/ccitt with BlackIs1 and EndOfBlock varied: identical bytes (key foreign-ccitt-sample), the same files through the Lean reader model. Non-trivial: at least one row.", runFBForeign)
	addRun("C07", "FB: the reused-buffer / io.CopyBuffer encodings of CCITTFax (all K classes) and of the predictor filters equal the single-Write encoding and are read by x/image/ccitt (G4, G3 1-D+EOL).", runFBChunking)
	addReplay("C07", "fb-predict-grid", replayPredGrid)
	addReplay("C07", "fb-chunking", replayChunking)
	addReplay("C07", "fb-foreign-predict", replayForeignPredict)
	addReplay("C07", "fb-foreign-ccitt", replayForeignCCITT)
	addReplay("C07", "fb-foreign-sample", replayXImageSample)

	addRun("C08", "FB: hostile DecodeParms (type confusion, huge Columns/Rows/Colors), dimension bombs, truncated and mutated Flate+predictor and CCITTFax bodies, /Filter chains up to and beyond 8 entries through GetFilters/DecodeStream: data or a malformed error, no panic, output bounded by rows x row size. Non-trivial: the decoder was built.", runFBHostile)
	addRun("C08", "FB: CCITTFax output bound: every combination of /Rows {absent, 3, cap+1, 2^20, 2^40, negative} x /EndOfBlock {absent, true, false} x K {<0, 0, 1} x EndOfLine x /Columns {1, 8, 1728, 65536, 2^20} with an all-white / all-black body that encodes more rows than the geometric cap, drained with a hard read budget: decoded bytes <= cap rows x ceil(Columns/8). Non-trivial: every case.", runFBBombs)
	addRun("C08", "FB: DCTDecode on synthetic JPEGs (SOI, APP14, DQT, SOF0/1/2 with 1, 3 and 4 components and all sampling factor combinations H,V in {1,2,4}, DHT with one-code tables, DRI, SOS, a few entropy bytes, AC scans), truncated at every marker boundary, hostile dimensions/precision/selectors/counts, progressive files with 1..2500 first-pass and refinement scans of EOB-run tokens at up to 2048x2048 (rejected, or decoded with scans x blocks <= 4 x (input+output) and CPU time <= 3 s + 200 ns x (input+output)), and JBIG2Decode on hostile segment headers and on pages from the library's encoder (text region over symbol dictionaries, generic, halftone over pattern dictionaries) with mutated counts, flags, referred-to lists, geometry and starved coded data; JBIG2 memory accounting on structured streams (symbol dictionary with 256 KiB..1 MiB symbols, 2..16 rounds of intermediate generic region + further dictionary + Huffman or arithmetic text region with SBREFINE=1 and mixed RI bits): retained heap (HeapAlloc after forced GC, sampled and at every pool event) <= budget + 2 MiB and <= charged bytes + 2 MiB, pool ledger consistent (every freeBitmap names a live bitmap that is unreachable three events later); filter chains of length 2-3 with the goroutine-owning DCT decoder at every position, 50 DecodeStream/Close cycles per life cycle (construction fails above DCT, read to EOF, read 10 bytes, unread): goroutines back at the baseline, heap growth <= 8 MiB; run in child processes (a helper-goroutine panic would kill the harness): data or malformed error, no crash, no hang (10 s watchdog, attributed to the running case), output within width x height x components, no goroutine left after Close (also after an early Close). Non-trivial: data was produced.", runFBChild)
	addRun("C08", "FB: CCITTFax 2-D rows at the right edge: token sequences of vertical (VR1..3, VL1..3, V0), pass and horizontal modes (short runs, first runs longer than the line) for Columns around multiples of 8 (5..24, 62..72, 1726..1728), Group 4 and Group 3 2-D rows, with and without /Rows, BlackIs1, EOFB, trailing bytes; read row by row: every row <= ceil(Columns/8) bytes, total <= rows x row size (class ccitt-row-overrun); every body also through the Lean reader model (FB cdec), for which row_length is a theorem. Non-trivial: at least one row decoded.", runFBCCEdge)
	addReplay("C08", "fb-ccitt-edge", replayCCEdge)
	addReplay("C08", "fb-hostile-child", replayChild)
	addReplay("C08", "fb-bomb", replayBomb)
	addReplay("C08", "fb-hostile", replayHostile)
	addReplay("C08", "fb-getfilters", replayGetFilters)
}

// replay input: "<filter wire> <parms wire>"
func replayGetFilters(input string) (bool, string) {
	a := fbFields(input)
	if len(a) != 2 {
		return true, "bad replay input"
	}
	fo, err1 := fbUnwireOne(a[0])
	po, err2 := fbUnwireOne(a[1])
	if err1 != nil || err2 != nil {
		return true, "bad replay input"
	}
	line := fbGetFiltersLine(fo, po)
	return !(line == "err other" || len(line) > 5 && line[:5] == "panic"), line
}

package main

// C18 on the library's own decoders: a read-only decode must not change a value which is
// already published in the Extractor's cache, and what the decoders return must not depend on
// the order of the calls.
//
// Documents: (F) pages with widgets of one field on several pages, a field merged with its
// widget which inherits /FT through /Kids without /Parent, markup annotations with /IRT on and
// off their page, interactive form given as indirect reference or as DIRECT dictionary;
// (I) images naming each other as alternates; (O) optional-content properties with an alternate
// configuration.  Entry points: page.Decode, decode.Annotation, decode.Form, image.ExtractDict,
// oc.ExtractProperties, oc.ExtractConfiguration.
//
// Deterministic oracle: for every single entry point and every ordered pair, on a fresh Reader and
// Extractor, the published values (every cache entry's pointee, walked up to other published values,
// conc_snap.go) are snapshotted at every Getter.Get inside the calls and after each call; a value
// which was published at one snapshot and differs at a later one is the violation
// `published-value-changed` with reference, type and field path.  Allowed: the documented late
// links of the interactive form (Widget.Field set from nil, Field.Widgets).  Afterwards all pages
// are decoded and the form links are checked (each widget once, one Field value per field, merged
// field and widget are halves of one pair).  The same with real goroutines (also under -race).

import (
	"bytes"
	"fmt"
	"reflect"
	"sort"
	"strings"
	"sync"
	"unsafe"

	"seehuhn.de/go/pdf"
	"seehuhn.de/go/pdf/acroform"
	"seehuhn.de/go/pdf/annotation"
	"seehuhn.de/go/pdf/annotation/decode"
	"seehuhn.de/go/pdf/graphics/image"
	"seehuhn.de/go/pdf/oc"
	"seehuhn.de/go/pdf/page"
)

func init() {
	addRun("C18", "library decoders (page.Decode, decode.Annotation, decode.Form, image.ExtractDict, oc.ExtractProperties/ExtractConfiguration) on documents with form fields on several pages (indirect and DIRECT /AcroForm), merged field/widget dictionaries, /IRT annotations, image alternates and optional-content configurations: every single call and every ordered pair on a fresh Extractor, with snapshots of all published values at every Getter.Get and after every call (a published value must not change), then the form links are checked; plus concurrent page decodes. A case is one ordered pair of calls on one document.", runConcLib)
	addReplay("C18", "lib", replayConcLib)
}

type concLibCall struct {
	name string
	f    func(x *pdf.Extractor) error
}

type concLibDoc struct {
	name    string
	data    []byte
	calls   []concLibCall
	pages   []pdf.Reference
	widgets []pdf.Reference // pure widget kids of one field
	field   pdf.Reference
	kid     pdf.Reference // merged field/widget
}

func concLibRect() pdf.Array {
	return pdf.Array{pdf.Integer(10), pdf.Integer(10), pdf.Integer(50), pdf.Integer(50)}
}

func concLibFormDoc(direct bool) (*concLibDoc, error) {
	d := &concLibDoc{name: "form-indirect"}
	if direct {
		d.name = "form-direct"
	}
	buf := &bytes.Buffer{}
	id := bytes.Repeat([]byte{7}, 16)
	w, err := pdf.NewWriter(buf, pdf.V1_7, &pdf.WriterOptions{ID: [][]byte{id, id}})
	if err != nil {
		return nil, err
	}
	put := func(ref pdf.Reference, obj pdf.Object) {
		if err == nil {
			err = w.Put(ref, obj)
		}
	}
	pagesRef := w.Alloc()
	d.field = w.Alloc()
	group := w.Alloc()
	d.kid = w.Alloc()
	const nPages = 3
	for i := 0; i < nPages; i++ {
		d.pages = append(d.pages, w.Alloc())
	}
	a0, r0, rs := w.Alloc(), w.Alloc(), w.Alloc()
	put(a0, pdf.Dict{"Type": pdf.Name("Annot"), "Subtype": pdf.Name("Text"), "Rect": concLibRect()})
	put(r0, pdf.Dict{"Type": pdf.Name("Annot"), "Subtype": pdf.Name("Text"), "Rect": concLibRect(), "IRT": a0})
	put(rs, pdf.Dict{"Type": pdf.Name("Annot"), "Subtype": pdf.Name("Text"), "Rect": concLibRect(), "IRT": a0})
	var kids pdf.Array
	for i, pRef := range d.pages {
		wRef := w.Alloc()
		d.widgets = append(d.widgets, wRef)
		kids = append(kids, wRef)
		put(wRef, pdf.Dict{"Type": pdf.Name("Annot"), "Subtype": pdf.Name("Widget"), "Rect": concLibRect(), "Parent": d.field, "P": pRef})
		annots := pdf.Array{wRef}
		switch i {
		case 0:
			annots = append(annots, a0, r0)
		case 1:
			annots = append(annots, rs, d.kid) // rs replies to an annotation of page 0
		case 2:
			annots = append(annots, rs)
		}
		put(pRef, pdf.Dict{"Type": pdf.Name("Page"), "Parent": pagesRef,
			"MediaBox":  pdf.Array{pdf.Integer(0), pdf.Integer(0), pdf.Integer(100), pdf.Integer(100)},
			"Resources": pdf.Dict{}, "Annots": annots})
	}
	put(d.field, pdf.Dict{"FT": pdf.Name("Tx"), "T": pdf.String("name"), "Kids": kids})
	// a field merged with its widget which inherits /FT from the group that lists it, no /Parent
	put(d.kid, pdf.Dict{"Type": pdf.Name("Annot"), "Subtype": pdf.Name("Widget"), "Rect": concLibRect(), "T": pdf.String("kid")})
	put(group, pdf.Dict{"FT": pdf.Name("Tx"), "T": pdf.String("grp"), "Kids": pdf.Array{d.kid}})
	pk := pdf.Array{}
	for _, r := range d.pages {
		pk = append(pk, r)
	}
	put(pagesRef, pdf.Dict{"Type": pdf.Name("Pages"), "Kids": pk, "Count": pdf.Integer(nPages)})
	formDict := pdf.Dict{"Fields": pdf.Array{d.field, group}}
	cat := w.GetMeta().Catalog
	cat.Pages = pagesRef
	var formRef pdf.Reference
	if direct {
		cat.AcroForm = formDict
	} else {
		formRef = w.Alloc()
		put(formRef, formDict)
		cat.AcroForm = formRef
	}
	if err != nil {
		return nil, err
	}
	if err := w.Close(); err != nil {
		return nil, err
	}
	d.data = buf.Bytes()
	for i, ref := range d.pages {
		ref := ref
		d.calls = append(d.calls, concLibCall{fmt.Sprintf("page.Decode(page %d)", i), func(x *pdf.Extractor) error {
			_, err := pdf.Decode(pdf.CursorAt(x, nil), ref, page.Decode)
			return err
		}})
	}
	for _, ar := range []struct {
		n string
		r pdf.Reference
	}{{"widget 0", d.widgets[0]}, {"widget 2", d.widgets[2]}, {"merged kid", d.kid}, {"text a0", a0}, {"reply r0", r0}, {"reply rs", rs}} {
		ar := ar
		d.calls = append(d.calls, concLibCall{"decode.Annotation(" + ar.n + ")", func(x *pdf.Extractor) error {
			_, err := pdf.Decode(pdf.CursorAt(x, nil), ar.r, decode.Annotation)
			return err
		}})
	}
	if !direct {
		d.calls = append(d.calls, concLibCall{"decode.Form", func(x *pdf.Extractor) error {
			_, err := pdf.DecodeExclusive(pdf.CursorAt(x, nil), formRef, decode.Form)
			return err
		}})
	}
	return d, nil
}

func concLibImageDoc() (*concLibDoc, error) {
	d := &concLibDoc{name: "image-alternates"}
	buf := &bytes.Buffer{}
	w, err := pdf.NewWriter(buf, pdf.V1_7, nil)
	if err != nil {
		return nil, err
	}
	pagesRef := w.Alloc()
	w.GetMeta().Catalog.Pages = pagesRef
	if err := w.Put(pagesRef, pdf.Dict{"Type": pdf.Name("Pages"), "Kids": pdf.Array{}, "Count": pdf.Integer(0)}); err != nil {
		return nil, err
	}
	img := func(extra pdf.Dict) pdf.Dict {
		dd := pdf.Dict{"Type": pdf.Name("XObject"), "Subtype": pdf.Name("Image"), "Width": pdf.Integer(1), "Height": pdf.Integer(1),
			"ColorSpace": pdf.Name("DeviceGray"), "BitsPerComponent": pdf.Integer(8)}
		for k, v := range extra {
			dd[k] = v
		}
		return dd
	}
	low, mid, top := w.Alloc(), w.Alloc(), w.Alloc()
	for _, it := range []struct {
		ref pdf.Reference
		d   pdf.Dict
	}{{low, img(nil)}, {mid, img(pdf.Dict{"Alternates": pdf.Array{pdf.Dict{"Image": low}}})}, {top, img(pdf.Dict{"Alternates": pdf.Array{pdf.Dict{"Image": mid}}})}} {
		stm, err := w.OpenStream(it.ref, it.d)
		if err != nil {
			return nil, err
		}
		stm.Write([]byte{0})
		if err := stm.Close(); err != nil {
			return nil, err
		}
	}
	if err := w.Close(); err != nil {
		return nil, err
	}
	d.data = buf.Bytes()
	for _, it := range []struct {
		n string
		r pdf.Reference
	}{{"low", low}, {"mid", mid}, {"top", top}} {
		it := it
		d.calls = append(d.calls, concLibCall{"image.ExtractDict(" + it.n + ")", func(x *pdf.Extractor) error {
			_, err := pdf.Decode(pdf.CursorAt(x, nil), it.r, image.ExtractDict)
			return err
		}})
	}
	return d, nil
}

func concLibOCDoc() (*concLibDoc, error) {
	d := &concLibDoc{name: "optional-content"}
	buf := &bytes.Buffer{}
	w, err := pdf.NewWriter(buf, pdf.V1_7, nil)
	if err != nil {
		return nil, err
	}
	pagesRef := w.Alloc()
	w.GetMeta().Catalog.Pages = pagesRef
	g, alt, props := w.Alloc(), w.Alloc(), w.Alloc()
	for _, it := range []struct {
		ref pdf.Reference
		d   pdf.Dict
	}{{pagesRef, pdf.Dict{"Type": pdf.Name("Pages"), "Kids": pdf.Array{}, "Count": pdf.Integer(0)}},
		{g, pdf.Dict{"Type": pdf.Name("OCG"), "Name": pdf.String("layer")}},
		{alt, pdf.Dict{"Name": pdf.String("alternate")}},
		{props, pdf.Dict{"OCGs": pdf.Array{g}, "D": pdf.Dict{"Order": pdf.Array{g}}, "Configs": pdf.Array{alt}}}} {
		if err := w.Put(it.ref, it.d); err != nil {
			return nil, err
		}
	}
	if err := w.Close(); err != nil {
		return nil, err
	}
	d.data = buf.Bytes()
	d.calls = []concLibCall{
		{"oc.ExtractConfiguration(alt)", func(x *pdf.Extractor) error {
			_, err := pdf.Decode(pdf.CursorAt(x, nil), alt, oc.ExtractConfiguration)
			return err
		}},
		{"oc.ExtractProperties", func(x *pdf.Extractor) error {
			_, err := pdf.Decode(pdf.CursorAt(x, nil), props, oc.ExtractProperties)
			return err
		}},
	}
	return d, nil
}

// ---- published values

type concPubKey struct {
	ref pdf.Reference
	tp  string
}

type concPubSnap map[concPubKey]map[string]uint64

func concPublishedSnap(x *pdf.Extractor) concPubSnap {
	type ent struct {
		k concPubKey
		v any
	}
	var ents []ent
	stop := map[unsafe.Pointer]bool{}
	pdf.VerifCacheEach(x, func(ref pdf.Reference, tp reflect.Type, v any) {
		ents = append(ents, ent{concPubKey{ref, tp.String()}, v})
		rv := reflect.ValueOf(v)
		if rv.IsValid() && rv.Kind() == reflect.Pointer && !rv.IsNil() {
			stop[rv.UnsafePointer()] = true
		}
	})
	out := concPubSnap{}
	for _, e := range ents {
		out[e.k] = concSnapValue(e.v, stop)
	}
	return out
}

// concPubDiff: entries present in both snapshots whose content differs.
func concPubDiff(before, after concPubSnap) []string {
	var out []string
	for k, b := range before {
		a, ok := after[k]
		if !ok {
			out = append(out, fmt.Sprintf("(%v, %s) vanished from the cache", k.ref, k.tp))
			continue
		}
		changed := map[string]bool{}
		for p, h := range b {
			if a[p] != h {
				changed[p] = true
			}
		}
		for p := range a {
			if _, ok := b[p]; !ok {
				changed[p] = true
			}
		}
		for p := range changed {
			deepest := true
			for q := range changed {
				if q != p && strings.HasPrefix(q, p) {
					deepest = false
				}
			}
			if !deepest {
				continue
			}
			// documented late links of the interactive form: Widget.Field set from nil (and
			// everything that becomes reachable through it), Field.Widgets
			late := strings.Contains(p, ".Widgets")
			parts := strings.Split(p, ".")
			for i := range parts {
				if parts[i] == "Field" {
					q := strings.Join(parts[:i+1], ".")
					if h, ok := b[q]; !ok || concNilHashes[h] {
						late = true
					}
				}
			}
			if late {
				continue
			}
			out = append(out, fmt.Sprintf("(%v, %s): %s", k.ref, k.tp, p))
		}
	}
	sort.Strings(out)
	return out
}

// concSnapGetter calls hook at every Get.
type concSnapGetter struct {
	inner pdf.Getter
	hook  func()
}

func (g *concSnapGetter) GetMeta() *pdf.MetaInfo { return g.inner.GetMeta() }
func (g *concSnapGetter) Get(ref pdf.Reference, canObjStm bool) (pdf.Native, error) {
	if g.hook != nil {
		g.hook()
	}
	return g.inner.Get(ref, canObjStm)
}

// concLibFormLinks checks the links between widgets and fields after everything was decoded.
func concLibFormLinks(d *concLibDoc, x *pdf.Extractor) []string {
	var out []string
	if len(d.widgets) == 0 {
		return nil
	}
	var field acroform.Field
	seen := map[*annotation.Widget]bool{}
	for i, ref := range d.widgets {
		a, err := pdf.Decode(pdf.CursorAt(x, nil), ref, decode.Annotation)
		wd, ok := a.(*annotation.Widget)
		if err != nil || !ok {
			out = append(out, fmt.Sprintf("form-links-inconsistent\x00widget %d does not decode: %v", i, err))
			continue
		}
		seen[wd] = true
		switch {
		case wd.Field == nil:
			out = append(out, fmt.Sprintf("form-links-inconsistent\x00widget %d has no Field although the form has been read", i))
		case field == nil:
			field = wd.Field
		case field != wd.Field:
			out = append(out, fmt.Sprintf("form-links-inconsistent\x00widgets 0 and %d of one field are linked to different Field values", i))
		}
	}
	if field != nil {
		ws := field.GetCommon().Widgets
		count := map[*annotation.Widget]int{}
		for _, w := range ws {
			if aw, ok := w.(*annotation.Widget); ok {
				count[aw]++
			}
		}
		for w := range seen {
			if count[w] != 1 {
				out = append(out, fmt.Sprintf("form-links-inconsistent\x00the field lists one of its widgets %d times (%d entries for %d widgets)", count[w], len(ws), len(d.widgets)))
				break
			}
		}
	}
	// the merged field/widget
	a, err := pdf.Decode(pdf.CursorAt(x, nil), d.kid, decode.Annotation)
	if kw, ok := a.(*annotation.Widget); err == nil && ok {
		if kw.Field == nil {
			out = append(out, "pair-halves-mixed\x00the merged field/widget: the widget handed out for the reference has no Field although the form has been read")
		} else if ws := kw.Field.GetCommon().Widgets; len(ws) != 1 || ws[0] != acroform.Widget(kw) {
			out = append(out, fmt.Sprintf("pair-halves-mixed\x00the merged field/widget: the field lists %d widgets and not exactly the widget handed out for the reference", len(ws)))
		}
	}
	return out
}

// concLibScenario runs the calls in order on a fresh Extractor; returns "key\x00description" items.
func concLibScenario(d *concLibDoc, order []int) []string {
	rd, err := pdf.NewReader(bytes.NewReader(d.data), int64(len(d.data)), nil)
	if err != nil {
		return []string{"lib-fixture\x00cannot open: " + err.Error()}
	}
	g := &concSnapGetter{inner: rd}
	x := pdf.NewExtractor(g)
	var viol []string
	prev := concPublishedSnap(x)
	current := ""
	check := func(where string) {
		now := concPublishedSnap(x)
		for _, df := range concPubDiff(prev, now) {
			key := "published-value-changed"
			if strings.HasSuffix(df, ".InReplyTo") {
				key = "published-value-changed-irt"
			}
			if len(viol) < 8 {
				viol = append(viol, fmt.Sprintf("%s\x00during %s (%s) the value already published for %s changed", key, current, where, df))
			}
		}
		prev = now
	}
	g.hook = func() { check("at a Getter.Get inside the call") }
	var names []string
	for _, i := range order {
		current = d.calls[i].name
		names = append(names, current)
		func() {
			defer func() {
				if r := recover(); r != nil {
					viol = append(viol, fmt.Sprintf("lib-call-panicked\x00%s panicked: %v", current, r))
				}
			}()
			if err := d.calls[i].f(x); err != nil {
				viol = append(viol, fmt.Sprintf("lib-call-failed\x00%s: %v", current, err))
			}
		}()
		check("after the call returned")
	}
	// read the rest (all pages), then check the links
	g.hook = nil
	for i := range d.pages {
		d.calls[i].f(x)
	}
	for _, v := range concLibFormLinks(d, x) {
		kd := strings.SplitN(v, "\x00", 2)
		viol = append(viol, fmt.Sprintf("%s\x00after [%s] and then all pages: %s", kd[0], strings.Join(names, "; "), kd[1]))
	}
	return viol
}

func concLibDocs() ([]*concLibDoc, error) {
	var docs []*concLibDoc
	for _, mk := range []func() (*concLibDoc, error){
		func() (*concLibDoc, error) { return concLibFormDoc(false) },
		func() (*concLibDoc, error) { return concLibFormDoc(true) },
		concLibImageDoc, concLibOCDoc} {
		d, err := mk()
		if err != nil {
			return nil, err
		}
		docs = append(docs, d)
	}
	return docs, nil
}

// concLibConcurrent decodes all pages of a form document at once.
func concLibConcurrent(d *concLibDoc, iters int) []string {
	var viol []string
	for it := 0; it < iters && len(viol) == 0; it++ {
		rd, err := pdf.NewReader(bytes.NewReader(d.data), int64(len(d.data)), nil)
		if err != nil {
			return []string{"lib-fixture\x00" + err.Error()}
		}
		x := pdf.NewExtractor(rd)
		var wg sync.WaitGroup
		for i := range d.pages {
			for rep := 0; rep < 2; rep++ {
				wg.Add(1)
				go func(i int) {
					defer wg.Done()
					defer func() { recover() }()
					d.calls[i].f(x)
				}(i)
			}
		}
		wg.Wait()
		for _, v := range concLibFormLinks(d, x) {
			kd := strings.SplitN(v, "\x00", 2)
			viol = append(viol, fmt.Sprintf("%s\x00all pages decoded concurrently (iteration %d): %s", kd[0], it, kd[1]))
		}
	}
	return viol
}

// ---- one-preemption schedules of two library calls (deterministic)

// concCoop runs library calls in goroutines of which exactly one runs at a time; a goroutine stops
// at every Getter.Get and, through the verif hooks of DecodeExclusive, when it has to wait for
// another goroutine's exclusive decode.
type concCoop struct {
	cur     int
	resume  []chan struct{}
	parked  chan int // thread id; -1-id: finished
	done    []bool
	blocked []bool // parked at ex:wait
	owners  int    // exclusive decodes registered and not yet closed
	steps   []int
	off     bool // all goroutines have finished: the getter passes through
}

var concCoopActive *concCoop

func (cp *concCoop) park() {
	t := cp.cur
	cp.steps[t]++
	cp.parked <- t
	<-cp.resume[t]
}

func (cp *concCoop) yield(point string) {
	switch point {
	case "ex:owner":
		cp.owners++
	case "ex:closed":
		cp.owners--
	case "ex:wait":
		// wait (parked) until no exclusive decode is in progress any more
		t := cp.cur
		for cp.owners > 0 {
			cp.blocked[t] = true
			cp.parked <- t
			<-cp.resume[t]
		}
		cp.blocked[t] = false
	}
}

func (cp *concCoop) Get(inner pdf.Getter, ref pdf.Reference, canObjStm bool) (pdf.Native, error) {
	if !cp.off {
		cp.park()
	}
	return inner.Get(ref, canObjStm)
}

type concCoopGetter struct {
	inner pdf.Getter
	cp    *concCoop
}

func (g *concCoopGetter) GetMeta() *pdf.MetaInfo { return g.inner.GetMeta() }
func (g *concCoopGetter) Get(ref pdf.Reference, canObjStm bool) (pdf.Native, error) {
	return g.cp.Get(g.inner, ref, canObjStm)
}

// concCoopRun runs calls a and b of d: `first` runs k steps, then the other runs as far as it
// can, then whoever can run, lowest id first.  It returns the number of steps `first` made in total.
func concCoopRun(d *concLibDoc, a, b int, first int, k int) (viol []string, firstSteps int) {
	rd, err := pdf.NewReader(bytes.NewReader(d.data), int64(len(d.data)), nil)
	if err != nil {
		return []string{"lib-fixture\x00" + err.Error()}, 0
	}
	cp := &concCoop{resume: []chan struct{}{make(chan struct{}), make(chan struct{})}, parked: make(chan int),
		done: make([]bool, 2), blocked: make([]bool, 2), steps: make([]int, 2)}
	x := pdf.NewExtractor(&concCoopGetter{inner: rd, cp: cp})
	concCoopActive = cp
	defer func() { concCoopActive = nil }()
	calls := []int{a, b}
	for t := 0; t < 2; t++ {
		t := t
		go func() {
			<-cp.resume[t]
			func() {
				defer func() { recover() }()
				d.calls[calls[t]].f(x)
			}()
			cp.parked <- -1 - t
		}()
	}
	run := func(t int) {
		cp.cur = t
		cp.resume[t] <- struct{}{}
		if m := <-cp.parked; m < 0 {
			cp.done[-1-m] = true
		}
	}
	other := 1 - first
	for i := 0; i <= k && !cp.done[first] && !cp.blocked[first]; i++ {
		run(first)
	}
	for guard := 0; guard < 100000; guard++ {
		t := -1
		switch {
		case !cp.done[other] && !(cp.blocked[other] && cp.owners > 0):
			t = other
		case !cp.done[first] && !(cp.blocked[first] && cp.owners > 0):
			t = first
		}
		if t < 0 {
			break
		}
		run(t)
	}
	if !cp.done[0] || !cp.done[1] {
		viol = append(viol, fmt.Sprintf("lib-coop-deadlock\x00%s and %s block each other (first %d, %d steps)", d.calls[a].name, d.calls[b].name, first, k))
		return viol, cp.steps[first]
	}
	concCoopActive = nil
	cp.off = true
	for i := range d.pages {
		d.calls[i].f(x)
	}
	for _, v := range concLibFormLinks(d, x) {
		kd := strings.SplitN(v, "\x00", 2)
		viol = append(viol, fmt.Sprintf("%s\x00%s and %s in two goroutines, goroutine %d preempted after %d Getter.Get calls, the other then runs as far as it can: %s", kd[0], d.calls[a].name, d.calls[b].name, first, k, kd[1]))
	}
	return viol, cp.steps[first]
}

// concCoopAll: every one-preemption schedule of every pair of page decodes.
func concCoopAll(d *concLibDoc) (viol []string, runs int) {
	for a := range d.pages {
		for b := range d.pages {
			for first := 0; first < 2; first++ {
				for k := 0; k < 200; k++ {
					v, steps := concCoopRun(d, a, b, first, k)
					runs++
					viol = append(viol, v...)
					if steps <= k || len(viol) > 6 {
						break
					}
				}
			}
		}
	}
	return viol, runs
}

func runConcLib(c *Ctx) {
	docs, err := concLibDocs()
	if err != nil {
		c.Violate("lib", "lib-fixture", "cannot write the documents: "+err.Error(), "")
		return
	}
	report := func(d *concLibDoc, input string, viol []string) {
		for _, v := range viol {
			kd := strings.SplitN(v, "\x00", 2)
			c.Violate("lib", kd[0], d.name+": "+kd[1], input)
		}
	}
	inRace := c.rep.Property == "C18race"
	for _, d := range docs {
		if !inRace {
			for i := range d.calls {
				report(d, fmt.Sprintf("%s %d", d.name, i), concLibScenario(d, []int{i}))
				c.Case(d.name+" "+d.calls[i].name, true)
				for j := range d.calls {
					if i == j {
						continue
					}
					report(d, fmt.Sprintf("%s %d,%d", d.name, i, j), concLibScenario(d, []int{i, j}))
					c.Case(d.name+" "+d.calls[i].name+" then "+d.calls[j].name, true)
					c.Stat("library decoder scenarios (ordered pairs)")
				}
			}
		}
		if len(d.pages) > 0 && !inRace {
			v, runs := concCoopAll(d)
			report(d, d.name+" coop", v)
			c.StatN("one-preemption schedules of two page decodes", runs)
		}
		if len(d.pages) > 0 && !concUnlocked {
			iters := 30
			if c.Thorough || inRace {
				iters = 150
			}
			report(d, d.name+" concurrent", concLibConcurrent(d, iters))
			c.StatN("concurrent page decodes (iterations)", iters)
		}
	}
}

func replayConcLib(input string) (bool, string) {
	docs, err := concLibDocs()
	if err != nil {
		return false, err.Error()
	}
	f := strings.Fields(input)
	if len(f) != 2 {
		return true, "bad input"
	}
	for _, d := range docs {
		if d.name != f[0] {
			continue
		}
		var viol []string
		if f[1] == "concurrent" {
			viol = concLibConcurrent(d, 200)
		} else {
			var order []int
			for _, s := range strings.Split(f[1], ",") {
				var i int
				fmt.Sscan(s, &i)
				order = append(order, i)
			}
			viol = concLibScenario(d, order)
		}
		if len(viol) == 0 {
			return true, d.name + " " + f[1] + ": no published value changed, the form links are consistent"
		}
		return false, strings.ReplaceAll(strings.Join(viol, "\n"), "\x00", ": ")
	}
	return true, "unknown document"
}

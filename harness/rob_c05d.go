package main

import (
	"bytes"
	"fmt"
	"io"
	"os"
	"os/exec"
	"strconv"
	"strings"
	"time"

	"seehuhn.de/go/pdf"
	"seehuhn.de/go/pdf/font/cmap"
	"seehuhn.de/go/pdf/font/glyphdata"
	"seehuhn.de/go/pdf/font/glyphdata/type1glyphs"
	"seehuhn.de/go/pdf/function"
	"seehuhn.de/go/pdf/graphics/content"
	"seehuhn.de/go/pdf/page"
	"seehuhn.de/go/pdf/pagetree"
)

// Property C05, depth attacks on every recursive descent that input can
// drive, run in a CHILD process: a Go stack overflow ("goroutine stack
// exceeds 1000000000-byte limit") is fatal, recover() does not see it, so a
// case that overflows would take the harness with it.  The child is this
// binary re-executed with VERIF_ROB_CHILD=<descriptor>; it builds the input
// from the descriptor, runs the library on it and prints one line
// "E <outcome>".  A child that dies (any exit without that line) or does not
// finish within the watchdog is a violation with the descriptor as replay.
//
// The recursive functions were listed with tools/recfuncs (syntactic call
// graph per package; notes/C05.md has the reviewed list).  Families:
//
//	content  graphics/content scanner.readValueDepth <-> readDictBody
//	         (cap maxValueDepth = 10): operands and inline-image dictionaries
//	         nested as arrays only, dictionaries only and alternating,
//	         `BI /W 1 /H 1 /DP <</a<</a … >>>> ID x EI`; the page content is a
//	         Flate stream, so 4·10^6 levels are a file of a few kilobytes;
//	         walked through NewReader, the page tree, page.Decode and
//	         Page.NewIter, and directly through content.NewScanner
//	object   scanner.ReadObject <-> ReadArray <-> ReadDict (cap
//	         maxScannerNestDepth = 256): a direct value in the page
//	         dictionary and a member of a Flate object stream
//	func4    function.compileBlock: `{ { … } }` in a Type 4 function stream
//	func3    function.extractType3 (Type 3 functions nested by reference)
//	tree     the walkers of rob_c05w.go over chains of 10^3 and 10^5 nodes:
//	         page tree, name tree, number tree, outline
//	cmap     the PostScript interpreter behind font/cmap.Extract and
//	         ExtractToUnicode: nested arrays, procedures and dictionaries
//	type1    the same interpreter behind type1glyphs.FromStream

const c05dWatchdog = 90 * time.Second

func init() {
	if d := os.Getenv("VERIF_ROB_CHILD"); d != "" {
		fmt.Println("E " + c05dChild(d))
		os.Exit(0)
	}
}

// ---- input construction ----

func c05dNest(variant string, n int, leaf string) []byte {
	var b bytes.Buffer
	b.Grow(5*n + 16)
	open := func(i int) {
		switch {
		case variant == "arr" || (variant == "mixed" && i%2 == 1):
			b.WriteString("[")
		default:
			b.WriteString("<</a")
		}
	}
	closeIt := func(i int) {
		switch {
		case variant == "arr" || (variant == "mixed" && i%2 == 1):
			b.WriteString("]")
		default:
			b.WriteString(">>")
		}
	}
	for i := 0; i < n; i++ {
		open(i)
	}
	b.WriteString(" " + leaf + " ")
	for i := n - 1; i >= 0; i-- {
		closeIt(i)
	}
	return b.Bytes()
}

// c05dPDF assembles a file with a classic cross-reference table from object
// bodies (index = object number, "" = free) and stream objects.
type c05dObj struct {
	dict string // without << >> and /Length
	data []byte // nil: not a stream; then dict is the whole body
}

func c05dPDF(objs []c05dObj, root int) []byte {
	var f bytes.Buffer
	f.WriteString("%PDF-1.7\n%\x80\x80\x80\x80\n")
	offs := make([]int, len(objs))
	for n := 1; n < len(objs); n++ {
		o := objs[n]
		if o.dict == "" && o.data == nil {
			continue
		}
		offs[n] = f.Len()
		if o.data == nil {
			fmt.Fprintf(&f, "%d 0 obj\n%s\nendobj\n", n, o.dict)
		} else {
			fmt.Fprintf(&f, "%d 0 obj\n<<%s/Length %d>>\nstream\n", n, o.dict, len(o.data))
			f.Write(o.data)
			f.WriteString("\nendstream\nendobj\n")
		}
	}
	x := f.Len()
	fmt.Fprintf(&f, "xref\n0 %d\n0000000000 65535 f\r\n", len(objs))
	for n := 1; n < len(objs); n++ {
		if offs[n] == 0 {
			f.WriteString("0000000000 00000 f\r\n")
		} else {
			fmt.Fprintf(&f, "%010d 00000 n\r\n", offs[n])
		}
	}
	fmt.Fprintf(&f, "trailer\n<</Size %d/Root %d 0 R>>\nstartxref\n%d\n%%%%EOF\n", len(objs), root, x)
	return f.Bytes()
}

func c05dPageDoc(pageExtra string, contentData []byte, more ...c05dObj) []byte {
	objs := []c05dObj{{},
		{dict: "<</Type/Catalog/Pages 2 0 R>>"},
		{dict: "<</Type/Pages/Kids[3 0 R]/Count 1>>"},
		{dict: "<</Type/Page/Parent 2 0 R/MediaBox[0 0 10 10]/Resources<<>>/Contents 4 0 R" + pageExtra + ">>"},
		{dict: "/Filter/FlateDecode", data: c05ZlibFast(contentData)},
	}
	objs = append(objs, more...)
	return c05dPDF(objs, 1)
}

// ---- the child ----

// c05dWalkPages opens the file, decodes every page and iterates its content.
func c05dWalkPages(data []byte) string {
	ops, pages := 0, 0
	for mode := 0; mode < 3; mode += 2 {
		r, err := pdf.NewReader(bytes.NewReader(data), int64(len(data)), &pdf.ReaderOptions{ErrorHandling: c05ModeValue(mode)})
		if err != nil {
			return "open-error " + truncTo(err.Error(), 80)
		}
		x := pdf.NewExtractor(r)
		for n := 1; n < 12; n++ {
			obj, err := r.Get(pdf.NewReference(uint32(n), 0), true)
			if stm, ok := obj.(*pdf.Stream); ok && err == nil && stm != nil {
				if rd, err := pdf.DecodeStream(r, nil, stm); err == nil {
					io.Copy(io.Discard, io.LimitReader(rd, 64<<20))
					rd.Close()
				}
			}
		}
		for _, dict := range pagetree.NewIterator(r).All() {
			pages++
			p, err := pdf.Decode(pdf.CursorAt(x, nil), dict, page.Decode)
			if err != nil || p == nil {
				continue
			}
			it := p.NewIter()
			for range it.All() {
				ops++
				if ops > 1<<20 {
					break
				}
			}
		}
		r.Close()
	}
	return fmt.Sprintf("ok pages=%d ops=%d", pages, ops)
}

func c05dChild(desc string) (out string) {
	defer func() {
		if e := recover(); e != nil {
			out = "panic " + strings.ReplaceAll(truncTo(fmt.Sprint(e), 200), "\n", " ")
		}
	}()
	f := strings.Fields(desc)
	if len(f) != 3 {
		return "bad-descriptor"
	}
	fam, variant := f[0], f[1]
	n, _ := strconv.Atoi(f[2])
	switch fam {
	case "growth":
		return c05eChildGrowth(variant, n)
	case "selfref":
		return c05eChildSelfRef(variant)
	case "content":
		var body []byte
		kind, shape, _ := strings.Cut(variant, "-")
		nest := c05dNest(shape, n, "1")
		switch kind {
		case "bi": // inline image dictionary
			body = append(append([]byte("q BI /W 1 /H 1 /BPC 8 /CS /G /DP "), nest...), []byte(" ID x EI Q 0 0 m\n")...)
		case "bikey": // the nesting in key position
			body = append(append([]byte("q BI /W 1 /H 1 "), nest...), []byte(" 1 ID x EI Q 0 0 m\n")...)
		default: // operand of an operator
			body = append(append([]byte("/P "), nest...), []byte(" BDC EMC 0 0 m [(a)] TJ\n")...)
		}
		res := c05dWalkPages(c05dPageDoc("", body))
		// and the scanner alone
		stm := content.NewScanner(func() (io.ReadCloser, error) { return io.NopCloser(bytes.NewReader(body)), nil })
		k := 0
		for range stm.NewIter().All() {
			k++
		}
		return fmt.Sprintf("%s direct-ops=%d", res, k)
	case "object":
		nest := c05dNest(variant, n, "1")
		if n <= 100000 {
			// a direct value of the page dictionary
			res := c05dWalkPages(c05dPageDoc("/Nest "+string(nest), []byte("0 0 m\n")))
			if !strings.HasPrefix(res, "ok") && !strings.HasPrefix(res, "open-error") {
				return res
			}
		}
		// a member of a Flate object stream, referenced from the page dictionary
		idx := "6 0 "
		ostm := c05dObj{dict: fmt.Sprintf("/Type/ObjStm/N 1/First %d/Filter/FlateDecode", len(idx)), data: c05ZlibFast(append([]byte(idx), nest...))}
		data := c05dObjStmDoc(ostm)
		return c05dWalkObjStm(data)
	case "func4":
		code := append(append(bytes.Repeat([]byte("{"), n), []byte(" 1 ")...), bytes.Repeat([]byte("}"), n)...)
		if variant == "if" { // nested conditionals, syntactically valid
			code = append(append(bytes.Repeat([]byte("{ true "), n), []byte(" 1 pop ")...), bytes.Repeat([]byte("} if "), n)...)
			code = append(append([]byte("{ "), code...), []byte(" }")...)
		}
		data := c05dPageDoc("", []byte("0 0 m\n"), c05dObj{dict: "/FunctionType 4/Domain[0 1]/Range[0 1]/Filter/FlateDecode", data: c05ZlibFast(code)})
		return c05dExtract(data, 5, "function")
	case "func3":
		objs := []c05dObj{{}, {dict: "<</Type/Catalog/Pages 2 0 R>>"}, {dict: "<</Type/Pages/Kids[]/Count 0>>"}}
		for i := 0; i < n; i++ {
			objs = append(objs, c05dObj{dict: fmt.Sprintf("<</FunctionType 3/Domain[0 1]/Functions[%d 0 R]/Bounds[]/Encode[0 1]>>", 4+i)})
		}
		leaf := "<</FunctionType 2/Domain[0 1]/N 1>>"
		if variant == "loop" {
			leaf = "<</FunctionType 3/Domain[0 1]/Functions[3 0 R]/Bounds[]/Encode[0 1]>>"
		}
		objs = append(objs, c05dObj{dict: leaf})
		return c05dExtract(c05dPDF(objs, 1), 3, "function")
	case "tree":
		data, nObj := c05wCase(variant, "chain", n, 1)
		if data == nil {
			return "bad-descriptor"
		}
		var res []string
		for _, w := range c05wWalkers {
			if w.structure != variant {
				continue
			}
			key, d, fetches := c05wEval(data, nObj, w)
			if key != "" {
				return "violation " + key + " " + strings.ReplaceAll(truncTo(d, 200), "\n", " ")
			}
			res = append(res, fmt.Sprintf("%s=%d", w.name, fetches))
		}
		return "ok " + strings.Join(res, ",")
	case "cmap":
		o, c := c05dBrackets(variant)
		code := []byte("/CIDInit /ProcSet findresource begin 12 dict begin begincmap /CMapName /X def /X ")
		code = append(code, bytes.Repeat([]byte(o), n)...)
		code = append(code, []byte(" 1 ")...)
		code = append(code, bytes.Repeat([]byte(c), n)...)
		code = append(code, []byte(" def 1 begincodespacerange <00> <ff> endcodespacerange endcmap end end\n")...)
		data := c05dPageDoc("", []byte("0 0 m\n"), c05dObj{dict: "/Type/CMap/CMapName/X/Filter/FlateDecode", data: c05ZlibFast(code)})
		a := c05dExtract(data, 5, "cmap")
		b := c05dExtract(data, 5, "tounicode")
		return a + " | " + b
	case "type1":
		o, c := c05dBrackets(variant)
		var prog bytes.Buffer
		prog.WriteString("%!PS-AdobeFont-1.0: X 001.000\n11 dict begin /FontName /X def /X ")
		prog.Write(bytes.Repeat([]byte(o), n))
		prog.WriteString(" 1 ")
		prog.Write(bytes.Repeat([]byte(c), n))
		prog.WriteString(" def currentdict end\n")
		stm := &glyphdata.Stream{Type: glyphdata.Type1, WriteTo: func(w io.Writer, _ *glyphdata.Lengths) error {
			_, err := w.Write(prog.Bytes())
			return err
		}}
		font, err := type1glyphs.FromStream(stm)
		return fmt.Sprintf("ok font=%v err=%v", font != nil, truncTo(fmt.Sprint(err), 80))
	}
	return "bad-descriptor"
}

func c05dBrackets(variant string) (string, string) {
	switch variant {
	case "proc":
		return "{", "}"
	case "dict":
		return "<< /a ", ">>"
	}
	return "[", "]"
}

func c05dObjStmDoc(ostm c05dObj) []byte {
	// 5 = object stream holding 6; classic table cannot point into it, so a
	// cross-reference stream is used
	var f bytes.Buffer
	f.WriteString("%PDF-1.7\n%\x80\x80\x80\x80\n")
	offs := make([]int, 8)
	obj := func(n int, text string) {
		offs[n] = f.Len()
		fmt.Fprintf(&f, "%d 0 obj\n%s\nendobj\n", n, text)
	}
	obj(1, "<</Type/Catalog/Pages 2 0 R>>")
	obj(2, "<</Type/Pages/Kids[3 0 R]/Count 1>>")
	obj(3, "<</Type/Page/Parent 2 0 R/MediaBox[0 0 10 10]/Resources<<>>/Nest 6 0 R>>")
	offs[5] = f.Len()
	fmt.Fprintf(&f, "5 0 obj\n<<%s/Length %d>>\nstream\n", ostm.dict, len(ostm.data))
	f.Write(ostm.data)
	f.WriteString("\nendstream\nendobj\n")
	x := f.Len()
	offs[4] = x
	var xd bytes.Buffer
	put := func(tp byte, a int, b byte) {
		xd.Write([]byte{tp, byte(a >> 24), byte(a >> 16), byte(a >> 8), byte(a), b})
	}
	put(0, 0, 255)
	for n := 1; n <= 5; n++ {
		put(1, offs[n], 0)
	}
	put(2, 5, 0)
	fmt.Fprintf(&f, "4 0 obj\n<</Type/XRef/Size 7/W[1 4 1]/Root 1 0 R/Length %d>>\nstream\n", xd.Len())
	f.Write(xd.Bytes())
	fmt.Fprintf(&f, "\nendstream\nendobj\nstartxref\n%d\n%%%%EOF\n", x)
	return f.Bytes()
}

func c05dWalkObjStm(data []byte) string {
	r, err := pdf.NewReader(bytes.NewReader(data), int64(len(data)), &pdf.ReaderOptions{ErrorHandling: pdf.ErrorHandlingReport})
	if err != nil {
		return "open-error " + truncTo(err.Error(), 80)
	}
	defer r.Close()
	obj, err := r.Get(pdf.NewReference(6, 0), true)
	res := c05dWalkPages(data)
	return fmt.Sprintf("ok member=%T err=%v | %s", obj, truncTo(fmt.Sprint(err), 60), res)
}

func c05dExtract(data []byte, num int, what string) string {
	r, err := pdf.NewReader(bytes.NewReader(data), int64(len(data)), &pdf.ReaderOptions{ErrorHandling: pdf.ErrorHandlingReport})
	if err != nil {
		return "open-error " + truncTo(err.Error(), 80)
	}
	defer r.Close()
	x := pdf.NewExtractor(r)
	ref := pdf.NewReference(uint32(num), 0)
	switch what {
	case "function":
		fn, err := pdf.Decode(pdf.CursorAt(x, nil), ref, function.Extract)
		if err == nil && fn != nil {
			m, nOut := fn.Shape()
			out := make([]float64, nOut)
			fn.Apply(out, make([]float64, m)...)
		}
		return fmt.Sprintf("ok fn=%v err=%v", fn != nil, truncTo(fmt.Sprint(err), 80))
	case "cmap":
		cm, err := pdf.Decode(pdf.CursorAt(x, nil), ref, cmap.Extract)
		return fmt.Sprintf("ok cmap=%v err=%v", cm != nil, truncTo(fmt.Sprint(err), 80))
	default:
		cm, err := pdf.Decode(pdf.CursorAt(x, nil), ref, cmap.ExtractToUnicode)
		return fmt.Sprintf("ok tounicode=%v err=%v", cm != nil, truncTo(fmt.Sprint(err), 80))
	}
}

// ---- the parent ----

func c05dRunChild(desc string) (outcome string, died bool, stderrTail string, dur time.Duration) {
	cmd := exec.Command(os.Args[0])
	cmd.Env = append(os.Environ(), "VERIF_ROB_CHILD="+desc, "GOMAXPROCS=4")
	var stdout, stderr bytes.Buffer
	cmd.Stdout, cmd.Stderr = &stdout, &stderr
	t0 := time.Now()
	if err := cmd.Start(); err != nil {
		return "nochild " + err.Error(), false, "", 0
	}
	done := make(chan error, 1)
	go func() { done <- cmd.Wait() }()
	select {
	case <-done:
	case <-time.After(c05dWatchdog):
		cmd.Process.Kill()
		<-done
		return "hang", true, "", time.Since(t0)
	}
	dur = time.Since(t0)
	for _, l := range strings.Split(stdout.String(), "\n") {
		if strings.HasPrefix(l, "E ") {
			return l[2:], false, "", dur
		}
	}
	e := stderr.String()
	// the first lines of a fatal error name it; keep the innermost library frames too
	lines := strings.Split(e, "\n")
	var keep []string
	for i, l := range lines {
		if i < 3 {
			keep = append(keep, strings.TrimSpace(l))
		} else if strings.Contains(l, "seehuhn.de/go/") && !strings.HasPrefix(l, "\t") && len(keep) < 8 {
			keep = append(keep, strings.TrimSpace(l))
		}
	}
	return "died", true, truncTo(strings.Join(keep, " | "), 600), dur
}

func c05dCases(thorough bool) []string {
	var cs []string
	add := func(fam string, variants []string, depths []int) {
		for _, v := range variants {
			for _, d := range depths {
				cs = append(cs, fmt.Sprintf("%s %s %d", fam, v, d))
			}
		}
	}
	big := []int{1000, 100000, 4000000}
	if !thorough {
		// quick: 4*10^6 levels only where the input is cheap to build and to refuse
		big = []int{1000, 100000}
		add("content", []string{"bi-dict", "op-mixed"}, []int{4000000})
		add("object", []string{"dict"}, []int{4000000})
	}
	add("content", []string{"bi-dict", "bi-arr", "bi-mixed", "bikey-dict", "op-dict", "op-arr", "op-mixed"}, append([]int{9, 10, 11}, big...))
	add("object", []string{"dict", "arr", "mixed"}, append([]int{255, 256, 257}, big...))
	add("func4", []string{"brace", "if"}, append([]int{10, 100}, big...))
	add("func3", []string{"chain", "loop"}, []int{10, 1000, 100000})
	add("tree", []string{"pagetree", "nametree", "numtree", "outline"}, []int{1000, 100000})
	add("cmap", []string{"arr", "proc", "dict"}, append([]int{100}, big...))
	add("type1", []string{"arr", "proc", "dict"}, append([]int{100}, big...))
	return cs
}

func c05dJudge(desc string) (ok bool, key, detail string) {
	outcome, died, tail, dur := c05dRunChild(desc)
	switch {
	case died && outcome == "hang":
		return false, "C05-hang-child-" + strings.Fields(desc)[0], fmt.Sprintf("the child did not finish %q within %v", desc, c05dWatchdog)
	case died:
		key := "C05-child-died-" + strings.Fields(desc)[0]
		if strings.Contains(tail, "stack exceeds") || strings.Contains(tail, "stack overflow") {
			key = "C05-stack-overflow-" + strings.Fields(desc)[0]
		}
		return false, key, fmt.Sprintf("the child process died on %q after %v: %s", desc, dur.Round(time.Millisecond), tail)
	case strings.HasPrefix(outcome, "panic"):
		return false, "C05-panic-child-" + strings.Fields(desc)[0], fmt.Sprintf("%q: %s", desc, outcome)
	case strings.HasPrefix(outcome, "violation"):
		f := strings.Fields(outcome)
		return false, f[1], fmt.Sprintf("%q: %s", desc, outcome)
	case strings.HasPrefix(outcome, "nochild"), strings.HasPrefix(outcome, "bad-descriptor"):
		return true, "", outcome
	}
	return true, "", fmt.Sprintf("%s (%v)", outcome, dur.Round(time.Millisecond))
}

func robC05dRun(c *Ctx) {
	fails := map[string]int{}
	for _, desc := range c05dCases(c.Thorough) {
		fam := strings.Fields(desc)[0]
		if fails[fam] >= 3 {
			continue
		}
		ok, key, detail := c05dJudge(desc)
		c.Case("c05d "+desc, true)
		c.Stat("c05d_" + fam)
		if !ok {
			fails[fam]++
			c.Violate("c05d", key, detail, desc)
		}
	}
}

func replayC05d(input string) (bool, string) {
	ok, key, detail := c05dJudge(strings.TrimSpace(input))
	if ok {
		return true, input + ": " + detail
	}
	return false, key + ": " + detail
}

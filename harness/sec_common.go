package main

import (
	"bytes"
	"crypto/rand"
	"fmt"
	"io"
	"os"
	"os/exec"
	"path/filepath"
	"strconv"
	"strings"

	"github.com/xdg-go/stringprep"
	"seehuhn.de/go/pdf"
)

// Shared pieces of the security work package (properties C09 and C10;
// driver key SEC).

// recRand replaces crypto/rand.Reader: bytes come from the run's seed and
// are recorded, so that the model can be fed the very same random stream.
type recRand struct {
	r   *Rand
	log []byte
}

func (x *recRand) Read(p []byte) (int, error) {
	for i := range p {
		p[i] = byte(x.r.U64() >> 24)
	}
	x.log = append(x.log, p...)
	return len(p), nil
}

// withRecRand runs f with crypto/rand.Reader replaced.
func withRecRand(r *Rand, f func(rec *recRand)) {
	old := rand.Reader
	rec := &recRand{r: r}
	rand.Reader = rec
	defer func() { rand.Reader = old }()
	f(rec)
}

// memWriter is an in-memory output with Flush, so that the Writer does not
// put its own bufio layer in between.
type memWriter struct{ bytes.Buffer }

func (m *memWriter) Flush() error { return nil }

type secOutput interface {
	io.Writer
	Flush() error
	Bytes() []byte
}

// memSeekWriter is a seekable in-memory output (io.WriteSeeker + Flush): with
// it the Writer fills stream lengths in afterwards instead of writing them as
// separate objects.
type memSeekWriter struct {
	buf []byte
	pos int64
}

func (m *memSeekWriter) Write(p []byte) (int, error) {
	end := m.pos + int64(len(p))
	if end > int64(len(m.buf)) {
		m.buf = append(m.buf, make([]byte, end-int64(len(m.buf)))...)
	}
	copy(m.buf[m.pos:], p)
	m.pos = end
	return len(p), nil
}

func (m *memSeekWriter) Seek(off int64, whence int) (int64, error) {
	switch whence {
	case io.SeekStart:
		m.pos = off
	case io.SeekCurrent:
		m.pos += off
	case io.SeekEnd:
		m.pos = int64(len(m.buf)) + off
	}
	if m.pos < 0 {
		return 0, fmt.Errorf("negative position")
	}
	return m.pos, nil
}

func (m *memSeekWriter) Flush() error  { return nil }
func (m *memSeekWriter) Bytes() []byte { return m.buf }

func optHex(b []byte, err error) string {
	if err != nil {
		return "!"
	}
	return hexWire(b)
}

func secB2i(b bool) int {
	if b {
		return 1
	}
	return 0
}

// prepared forms of a password as the handler computes them: PDFDocEncode
// (for R<=4) and SASLprep (R>=5); "!" when the password cannot be prepared.
func pwPDFDoc(pw string) string {
	s, ok := pdf.PDFDocEncode(pw)
	if !ok {
		return "!"
	}
	return hexWire([]byte(s))
}

func pwSASL(pw string) string {
	// the untruncated SASLprep form: the model does the 127-byte truncation itself
	prepped, err := stringprep.SASLprep.Prepare(pw)
	if err != nil {
		return "!"
	}
	return hexWire([]byte(prepped))
}

// secPadString is the padding string of ISO 32000-2 7.6.4.3.2 (typed from the
// standard, not taken from crypto.go).
var secPadString = []byte{
	0x28, 0xBF, 0x4E, 0x5E, 0x4E, 0x75, 0x8A, 0x41, 0x64, 0x00, 0x4E, 0x56, 0xFF, 0xFA, 0x01, 0x08,
	0x2E, 0x2E, 0x00, 0xB6, 0xD0, 0x68, 0x3E, 0x80, 0x2F, 0x0C, 0xA9, 0xFE, 0x64, 0x53, 0x69, 0x7A,
}

// prepKey returns the password in the form the standard compares: for R <= 4
// the PDFDocEncoding bytes padded/truncated to 32 bytes, for R >= 5 the
// SASLprep form truncated to 127 bytes (bytes, not characters).  It does not
// use crypto.go's padPasswd/utf8Passwd, so that a defect there shows up as a
// failing input of the oracle.
func prepKey(R int, pw string) (string, bool) {
	if R < 5 {
		enc, ok := pdf.PDFDocEncode(pw)
		if !ok {
			return "", false
		}
		b := append([]byte(enc), secPadString...)
		return string(b[:32]), true
	}
	prepped, err := stringprep.SASLprep.Prepare(pw)
	if err != nil {
		return "", false
	}
	b := []byte(prepped)
	if len(b) > 127 {
		b = b[:127]
	}
	return string(b), true
}

func permClosure(p pdf.Perm) pdf.Perm {
	if p&pdf.PermPrint != 0 {
		p |= pdf.PermPrintDegraded
	}
	if p&pdf.PermAnnotate != 0 {
		p |= pdf.PermForms
	}
	if p&pdf.PermModify != 0 {
		p |= pdf.PermAssemble
	}
	return p
}

func secShow(s *pdf.VerifSec) string {
	key := "!"
	if s.Key != nil {
		key = hexWire(s.Key)
	}
	return fmt.Sprintf("R=%d P=%d kb=%d um=%d O=%s U=%s OE=%s UE=%s Perms=%s key=%s",
		s.R, s.P, s.KeyBytes, secB2i(s.UnencMeta), hexWire(s.O), hexWire(s.U), hexWire(s.OE), hexWire(s.UE), hexWire(s.Perms), key)
}

func hexList(l [][]byte) string {
	if len(l) == 0 {
		return "."
	}
	parts := make([]string, len(l))
	for i, b := range l {
		parts[i] = hexWire(b)
	}
	return strings.Join(parts, ",")
}

func intList(l []int) string {
	if len(l) == 0 {
		return "."
	}
	parts := make([]string, len(l))
	for i, n := range l {
		parts[i] = strconv.Itoa(n)
	}
	return strings.Join(parts, ",")
}

// ---- passwords ----

var secPwPool = []string{
	"", "a", "user", "owner", "secret", "Passw0rd!", "x y z",
	"0123456789abcdef0123456789abcdef",        // exactly 32
	"0123456789abcdef0123456789abcdefX",       // 33: equals the previous one after padding
	"0123456789abcdef0123456789abcdefYYYYYYY", // > 32
	"p\u00e4ssw\u00f6rd",                      // Latin-1
	"\u20ac100\u2022",                         // PDFDocEncoding specials (Euro, bullet)
	"na\u00efve caf\u00e9",
	"\u5bc6\u7801",       // CJK: no PDFDocEncoding
	"pass\U0001F511word", // emoji: no PDFDocEncoding
	"a\u00adb",           // soft hyphen: SASLprep maps to nothing
	"ab",                 // ... and what it is mapped to
	"a\u00a0b",           // no-break space: SASLprep maps to space
	"a b",
	"\u2168", // ROMAN NUMERAL NINE: NFKC -> "IX"
	"IX",
	"\u00aa",                     // feminine ordinal: NFKC -> "a"
	"bell\u0007",                 // control character: SASLprep prohibits
	"\u05d0b",                    // bidi violation
	strings.Repeat("long", 40),   // 160 bytes
	strings.Repeat("\u00e9", 70), // 140 bytes UTF-8, 70 PDFDoc
	strings.Repeat("z", 127),
	strings.Repeat("z", 128),
	strings.Repeat("z", 127) + "y",
	"(paren) \\ <hex>",
}

func genPassword(r *Rand) string {
	switch r.Intn(10) {
	case 0, 1, 2, 3:
		return Pick(r, secPwPool)
	case 4:
		return ""
	case 5:
		n := 1 + r.Intn(40)
		b := make([]byte, n)
		for i := range b {
			b[i] = byte(0x21 + r.Intn(0x5e))
		}
		return string(b)
	case 6:
		// Latin-1 letters
		n := 1 + r.Intn(50)
		rs := make([]rune, n)
		for i := range rs {
			rs[i] = rune(0xc0 + r.Intn(0x3f))
			if rs[i] == 0xd7 || rs[i] == 0xf7 {
				rs[i] = 'x'
			}
		}
		return string(rs)
	case 7:
		// long ASCII around the 32 and 127 byte borders
		n := Pick(r, []int{31, 32, 33, 64, 126, 127, 128, 129, 200})
		b := make([]byte, n)
		for i := range b {
			b[i] = byte('a' + r.Intn(26))
		}
		return string(b)
	case 8:
		// arbitrary runes from a few blocks
		n := 1 + r.Intn(12)
		rs := make([]rune, n)
		for i := range rs {
			switch r.Intn(5) {
			case 0:
				rs[i] = rune(0x20 + r.Intn(0x5f))
			case 1:
				rs[i] = rune(0xa0 + r.Intn(0x60))
			case 2:
				rs[i] = rune(0x391 + r.Intn(24)) // Greek
			case 3:
				rs[i] = rune(0x4e00 + r.Intn(200))
			default:
				rs[i] = Pick(r, []rune{0x20ac, 0x2022, 0x2014, 0x152, 0x141, 0xad, 0xa0, 0x2168, 0xfb01})
			}
		}
		return string(rs)
	default:
		return Pick(r, secPwPool) + Pick(r, []string{"", "1", " ", "é"})
	}
}

// ---- driver as a sub-process (C10: values produced by the Lean Spec are
// needed while the run is still going on, to build files from them) ----

func driverPath() string {
	if p := os.Getenv("VERIF_DRIVER"); p != "" {
		return p
	}
	var cands []string
	if exe, err := os.Executable(); err == nil {
		cands = append(cands, filepath.Join(filepath.Dir(exe), "..", "lean", ".lake", "build", "bin", "pdfdriver"))
	}
	cands = append(cands, filepath.Join("lean", ".lake", "build", "bin", "pdfdriver"),
		filepath.Join("..", "lean", ".lake", "build", "bin", "pdfdriver"))
	for _, c := range cands {
		if st, err := os.Stat(c); err == nil && !st.IsDir() {
			return c
		}
	}
	return ""
}

// askDriver runs the compiled Lean driver on a batch of lines.
func askDriver(lines []string) ([]string, error) {
	p := driverPath()
	if p == "" {
		return nil, fmt.Errorf("pdfdriver not found (set VERIF_DRIVER)")
	}
	cmd := exec.Command(p)
	cmd.Stdin = strings.NewReader(strings.Join(lines, "\n") + "\n")
	var out bytes.Buffer
	cmd.Stdout = &out
	cmd.Stderr = io.Discard
	if err := cmd.Run(); err != nil {
		return nil, err
	}
	res := strings.Split(strings.TrimRight(out.String(), "\n"), "\n")
	if len(res) != len(lines) {
		return nil, fmt.Errorf("driver answered %d lines for %d", len(res), len(lines))
	}
	return res, nil
}

// ---- passwords around the 127-byte truncation of revision 6 ----

var secWideChars = map[int][]rune{
	2: {0xe9, 0xe8, 0xea, 0x100, 0x107, 0x3b1, 0x3b2, 0x416},
	3: {0x6f22, 0x6f23, 0x5b57, 0x5b58, 0x4e2d, 0x20ac, 0x3042, 0x3043},
	4: {0x1d11e, 0x1d11f, 0x10300, 0x10301, 0x20000, 0x20001, 0x2000b},
}

type boundaryPw struct {
	pw       string
	variants []string
}

// genBoundaryPassword makes a password whose SASLprep form has 120..135 bytes
// with a 2-, 3- or 4-byte character around byte 127 (straddling it, ending
// just before it, or starting at it), and variants which differ from it only
// in that character, only before it, or only after it.
func genBoundaryPassword(r *Rand) boundaryPw {
	for {
		w := 2 + r.Intn(3)
		// start index of the wide character: from "ends at byte 126" to "starts at byte 127"
		s := 127 - w + r.Intn(w+1)
		total := 120 + r.Intn(16)
		if total < s+w {
			total = s + w + r.Intn(4)
		}
		letters := func(n int) []rune {
			rs := make([]rune, n)
			for i := range rs {
				rs[i] = rune('a' + r.Intn(26))
			}
			return rs
		}
		pre := letters(s)
		// sometimes more wide characters earlier on (keeping the byte position)
		if r.P(1, 2) && s > 12 {
			w2 := 2 + r.Intn(3)
			at := r.Intn(s - w2 - 2)
			pre = append(append(append([]rune{}, pre[:at]...), Pick(r, secWideChars[w2])), pre[at+w2:]...)
		}
		c := Pick(r, secWideChars[w])
		tail := letters(total - s - w)
		mk := func(pre []rune, c rune, tail []rune) string {
			return string(pre) + string(c) + string(tail)
		}
		pw := mk(pre, c, tail)
		prepped, err := stringprep.SASLprep.Prepare(pw)
		if err != nil || prepped != pw {
			continue
		}
		res := boundaryPw{pw: pw}
		// the wide character replaced by every other one of its width
		for _, c2 := range secWideChars[w] {
			if c2 != c {
				res.variants = append(res.variants, mk(pre, c2, tail))
			}
		}
		// ... by one of another width (shifts what follows)
		res.variants = append(res.variants, mk(pre, Pick(r, secWideChars[2+(w-1)%3]), tail))
		// only before it
		if len(pre) > 0 {
			p2 := append([]rune{}, pre...)
			p2[len(p2)-1] = 'A'
			res.variants = append(res.variants, mk(p2, c, tail))
			p3 := append([]rune{}, pre...)
			p3[r.Intn(len(p3))] = 'B'
			res.variants = append(res.variants, mk(p3, c, tail))
		}
		// only after it
		if len(tail) > 0 {
			t2 := append([]rune{}, tail...)
			t2[0] = 'C'
			res.variants = append(res.variants, mk(pre, c, t2))
			t3 := append([]rune{}, tail...)
			t3[len(t3)-1] = 'D'
			res.variants = append(res.variants, mk(pre, c, t3))
		}
		res.variants = append(res.variants, mk(pre, c, nil), mk(pre, c, append(tail, 'z', 'z')), string(pre), string(pre)+"q")
		return res
	}
}

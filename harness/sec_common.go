package main

import (
	"bytes"
	"crypto/rand"
	"fmt"
	"io"
	"os"
	"os/exec"
	"path/filepath"
	"strconv"
	"strings"

	"github.com/xdg-go/stringprep"
	"seehuhn.de/go/pdf"
)

// Shared pieces of the security work package (properties C09 and C10;
// driver key SEC).

// recRand replaces crypto/rand.Reader: bytes come from the run's seed and
// are recorded, so that the model can be fed the very same random stream.
type recRand struct {
	r   *Rand
	log []byte
}

func (x *recRand) Read(p []byte) (int, error) {
	for i := range p {
		p[i] = byte(x.r.U64() >> 24)
	}
	x.log = append(x.log, p...)
	return len(p), nil
}

// withRecRand runs f with crypto/rand.Reader replaced.
func withRecRand(r *Rand, f func(rec *recRand)) {
	old := rand.Reader
	rec := &recRand{r: r}
	rand.Reader = rec
	defer func() { rand.Reader = old }()
	f(rec)
}

// memWriter is an in-memory output with Flush, so that the Writer does not
// put its own bufio layer in between.
type memWriter struct{ bytes.Buffer }

func (m *memWriter) Flush() error { return nil }

func optHex(b []byte, err error) string {
	if err != nil {
		return "!"
	}
	return hexWire(b)
}

func secB2i(b bool) int {
	if b {
		return 1
	}
	return 0
}

// prepared forms of a password as the handler computes them: PDFDocEncode
// (for R<=4) and SASLprep (R>=5); "!" when the password cannot be prepared.
func pwPDFDoc(pw string) string {
	s, ok := pdf.PDFDocEncode(pw)
	if !ok {
		return "!"
	}
	return hexWire([]byte(s))
}

func pwSASL(pw string) string {
	// the untruncated SASLprep form: the model does the 127-byte truncation itself
	prepped, err := stringprep.SASLprep.Prepare(pw)
	if err != nil {
		return "!"
	}
	return hexWire([]byte(prepped))
}

// prepKey returns the password as the handler of revision R compares it.
func prepKey(R int, pw string) (string, bool) {
	if R < 5 {
		b, err := pdf.VerifPadPasswd(pw)
		if err != nil {
			return "", false
		}
		return string(b), true
	}
	b, err := pdf.VerifUtf8Passwd(pw)
	if err != nil {
		return "", false
	}
	return string(b), true
}

func permClosure(p pdf.Perm) pdf.Perm {
	if p&pdf.PermPrint != 0 {
		p |= pdf.PermPrintDegraded
	}
	if p&pdf.PermAnnotate != 0 {
		p |= pdf.PermForms
	}
	if p&pdf.PermModify != 0 {
		p |= pdf.PermAssemble
	}
	return p
}

func secShow(s *pdf.VerifSec) string {
	key := "!"
	if s.Key != nil {
		key = hexWire(s.Key)
	}
	return fmt.Sprintf("R=%d P=%d kb=%d um=%d O=%s U=%s OE=%s UE=%s Perms=%s key=%s",
		s.R, s.P, s.KeyBytes, secB2i(s.UnencMeta), hexWire(s.O), hexWire(s.U), hexWire(s.OE), hexWire(s.UE), hexWire(s.Perms), key)
}

func hexList(l [][]byte) string {
	if len(l) == 0 {
		return "."
	}
	parts := make([]string, len(l))
	for i, b := range l {
		parts[i] = hexWire(b)
	}
	return strings.Join(parts, ",")
}

func intList(l []int) string {
	if len(l) == 0 {
		return "."
	}
	parts := make([]string, len(l))
	for i, n := range l {
		parts[i] = strconv.Itoa(n)
	}
	return strings.Join(parts, ",")
}

// ---- passwords ----

var secPwPool = []string{
	"", "a", "user", "owner", "secret", "Passw0rd!", "x y z",
	"0123456789abcdef0123456789abcdef",        // exactly 32
	"0123456789abcdef0123456789abcdefX",       // 33: equals the previous one after padding
	"0123456789abcdef0123456789abcdefYYYYYYY", // > 32
	"p\u00e4ssw\u00f6rd",                      // Latin-1
	"\u20ac100\u2022",                         // PDFDocEncoding specials (Euro, bullet)
	"na\u00efve caf\u00e9",
	"\u5bc6\u7801",       // CJK: no PDFDocEncoding
	"pass\U0001F511word", // emoji: no PDFDocEncoding
	"a\u00adb",           // soft hyphen: SASLprep maps to nothing
	"ab",                 // ... and what it is mapped to
	"a\u00a0b",           // no-break space: SASLprep maps to space
	"a b",
	"\u2168", // ROMAN NUMERAL NINE: NFKC -> "IX"
	"IX",
	"\u00aa",                     // feminine ordinal: NFKC -> "a"
	"bell\u0007",                 // control character: SASLprep prohibits
	"\u05d0b",                    // bidi violation
	strings.Repeat("long", 40),   // 160 bytes
	strings.Repeat("\u00e9", 70), // 140 bytes UTF-8, 70 PDFDoc
	strings.Repeat("z", 127),
	strings.Repeat("z", 128),
	strings.Repeat("z", 127) + "y",
	"(paren) \\ <hex>",
}

func genPassword(r *Rand) string {
	switch r.Intn(10) {
	case 0, 1, 2, 3:
		return Pick(r, secPwPool)
	case 4:
		return ""
	case 5:
		n := 1 + r.Intn(40)
		b := make([]byte, n)
		for i := range b {
			b[i] = byte(0x21 + r.Intn(0x5e))
		}
		return string(b)
	case 6:
		// Latin-1 letters
		n := 1 + r.Intn(50)
		rs := make([]rune, n)
		for i := range rs {
			rs[i] = rune(0xc0 + r.Intn(0x3f))
			if rs[i] == 0xd7 || rs[i] == 0xf7 {
				rs[i] = 'x'
			}
		}
		return string(rs)
	case 7:
		// long ASCII around the 32 and 127 byte borders
		n := Pick(r, []int{31, 32, 33, 64, 126, 127, 128, 129, 200})
		b := make([]byte, n)
		for i := range b {
			b[i] = byte('a' + r.Intn(26))
		}
		return string(b)
	case 8:
		// arbitrary runes from a few blocks
		n := 1 + r.Intn(12)
		rs := make([]rune, n)
		for i := range rs {
			switch r.Intn(5) {
			case 0:
				rs[i] = rune(0x20 + r.Intn(0x5f))
			case 1:
				rs[i] = rune(0xa0 + r.Intn(0x60))
			case 2:
				rs[i] = rune(0x391 + r.Intn(24)) // Greek
			case 3:
				rs[i] = rune(0x4e00 + r.Intn(200))
			default:
				rs[i] = Pick(r, []rune{0x20ac, 0x2022, 0x2014, 0x152, 0x141, 0xad, 0xa0, 0x2168, 0xfb01})
			}
		}
		return string(rs)
	default:
		return Pick(r, secPwPool) + Pick(r, []string{"", "1", " ", "é"})
	}
}

// ---- driver as a sub-process (C10: values produced by the Lean Spec are
// needed while the run is still going on, to build files from them) ----

func driverPath() string {
	if p := os.Getenv("VERIF_DRIVER"); p != "" {
		return p
	}
	var cands []string
	if exe, err := os.Executable(); err == nil {
		cands = append(cands, filepath.Join(filepath.Dir(exe), "..", "lean", ".lake", "build", "bin", "pdfdriver"))
	}
	cands = append(cands, filepath.Join("lean", ".lake", "build", "bin", "pdfdriver"),
		filepath.Join("..", "lean", ".lake", "build", "bin", "pdfdriver"))
	for _, c := range cands {
		if st, err := os.Stat(c); err == nil && !st.IsDir() {
			return c
		}
	}
	return ""
}

// askDriver runs the compiled Lean driver on a batch of lines.
func askDriver(lines []string) ([]string, error) {
	p := driverPath()
	if p == "" {
		return nil, fmt.Errorf("pdfdriver not found (set VERIF_DRIVER)")
	}
	cmd := exec.Command(p)
	cmd.Stdin = strings.NewReader(strings.Join(lines, "\n") + "\n")
	var out bytes.Buffer
	cmd.Stdout = &out
	cmd.Stderr = io.Discard
	if err := cmd.Run(); err != nil {
		return nil, err
	}
	res := strings.Split(strings.TrimRight(out.String(), "\n"), "\n")
	if len(res) != len(lines) {
		return nil, fmt.Errorf("driver answered %d lines for %d", len(res), len(lines))
	}
	return res, nil
}

package main

// C06 (part A): decode(encode(x)) = x for ASCIIHex, ASCII85, RunLength and
// LZW (both EarlyChange settings) through the public Filter API, however the
// writes and reads are chunked, with the decoder rebuilt from Info's name and
// dictionary.  Correspondence: the Lean model must produce byte-identical
// encoded output and identical decoded output.

import (
	"bytes"
	"encoding/hex"
	"fmt"
	"strings"

	"seehuhn.de/go/pdf"
)

func init() {
	addRun("C06", "FA: byte strings (random, runs, all-equal, text, few symbols, zero-rich, ramps; boundary lengths 0..4 around 4, 5, 39, 79, 128, 129, 256, 512 and around 4094..4096 LZW codes) x {ASCIIHex, ASCII85, RunLength, LZW EarlyChange 0/1} x write chunkings x read chunkings; decoder rebuilt via Info -> MakeFilter. Non-trivial: at least 2 bytes; distinct by codec+data.", runFAC06)
	addReplay("C06", "fa-roundtrip", replayFAC06)
	addReplay("C06", "fa-write-chunking", replayFAC06)
	addReplay("C06", "fa-read-chunking", replayFAC06)
}

// faC06Check evaluates the C06 oracles for one case on the implementation.
// It returns the encoded bytes and the reference-read result (for the
// correspondence lines) and the list of failures (oracle, key, description).
type faFailure struct{ oracle, key, desc string }

func faC06Check(cd faCodec, data []byte, wch []int, rchs [][]int) (enc []byte, ref faDecoded, fails []faFailure) {
	enc, err := faEncode(cd.filter, data, wch)
	if err != nil {
		fails = append(fails, faFailure{"fa-roundtrip", cd.name + "-encode-error", fmt.Sprintf("%s: Encode failed: %v", cd.name, err)})
		return nil, ref, fails
	}
	// write chunking must not matter
	for _, alt := range [][]int{nil, {1}} {
		enc2, err := faEncode(cd.filter, data, alt)
		if err != nil || !bytes.Equal(enc, enc2) {
			fails = append(fails, faFailure{"fa-write-chunking", cd.name + "-write-chunking",
				fmt.Sprintf("%s: %d bytes written as %s and as %s give different encodings (err=%v)", cd.name, len(data), faChunksStr(wch), faChunksStr(alt), err)})
			break
		}
	}
	// the decoder is rebuilt from the emitted name and parameter dictionary
	dec, err := faRebuilt(cd.filter)
	if err != nil {
		fails = append(fails, faFailure{"fa-roundtrip", cd.name + "-info-makefilter", fmt.Sprintf("%s: Info/MakeFilter failed: %v", cd.name, err)})
		return enc, ref, fails
	}
	limit := len(data) + 4096
	ref = faDecode(dec, enc, nil, limit)
	if ref.class != "eof" || !bytes.Equal(ref.data, data) {
		fails = append(fails, faFailure{"fa-roundtrip", cd.name + "-roundtrip",
			fmt.Sprintf("%s: %d bytes %s… encode to %d bytes which decode to %d bytes %s… ending with %s (%v)", cd.name, len(data), hx(head(data, 24)), len(enc), len(ref.data), hx(head(ref.data, 24)), ref.class, ref.err)})
	}
	for _, rch := range rchs {
		got := faDecode(dec, enc, rch, limit)
		if got.class == "eof" && bytes.Equal(got.data, data) {
			continue
		}
		key := cd.name + "-read-chunking"
		// the known ASCII85 defect: the tail of the final partial group is lost
		if cd.name == "a85" && got.class == "eof" && len(data)%4 != 0 && len(got.data) < len(data) &&
			len(got.data) >= len(data)-len(data)%4 && bytes.Equal(got.data, data[:len(got.data)]) {
			key = "ascii85-tail-lost-on-short-read"
		}
		fails = append(fails, faFailure{"fa-read-chunking", key,
			fmt.Sprintf("%s: %d bytes read back in pieces of %s give %d bytes ending with %s (%v); want the %d bytes written; encoded tail %q", cd.name, len(data), faChunksStr(rch), len(got.data), got.class, got.err, len(data), tail(enc, 12))})
	}
	return enc, ref, fails
}

func head(b []byte, n int) []byte {
	if len(b) > n {
		return b[:n]
	}
	return b
}

func tail(b []byte, n int) []byte {
	if len(b) > n {
		return b[len(b)-n:]
	}
	return b
}

func faC06Replay(cd faCodec, data []byte, wch []int, rchs [][]int) string {
	parts := make([]string, len(rchs))
	for i, r := range rchs {
		parts[i] = faChunksStr(r)
	}
	return cd.name + "|" + hexWire(data) + "|" + faChunksStr(wch) + "|" + strings.Join(parts, ";")
}

func replayFAC06(input string) (bool, string) {
	p := strings.Split(input, "|")
	if len(p) != 4 {
		return true, "bad replay input"
	}
	cd, ok := faCodecByName(p[0])
	if !ok {
		return true, "bad codec in replay input"
	}
	var data []byte
	if p[1] != "-" {
		var err error
		data, err = hex.DecodeString(p[1])
		if err != nil {
			return true, "bad hex in replay input"
		}
	}
	var rchs [][]int
	for _, s := range strings.Split(p[3], ";") {
		rchs = append(rchs, faParseChunks(s))
	}
	_, _, fails := faC06Check(cd, data, faParseChunks(p[2]), rchs)
	if len(fails) == 0 {
		return true, "round trip and chunking independence hold"
	}
	var sb strings.Builder
	for _, f := range fails {
		sb.WriteString("[" + f.key + "] " + f.desc + "\n")
	}
	return false, strings.TrimRight(sb.String(), "\n")
}

// faLZWBoundaryInputs: inputs whose encoding has about `codes` codes before
// the table is full (all-distinct pairs make one code per byte after the
// first), for lengths around the 4094..4096-code boundary.
func faLZWBoundaryInput(r *Rand, n int) []byte {
	b := make([]byte, n)
	// a de-Bruijn-like walk: every adjacent pair is new for the first 65536
	// steps, so the encoder emits one code per input byte and fills its table
	x, y := 0, 1
	for i := range b {
		b[i] = byte(x)
		x = (x + y) & 0xff
		if x == 0 {
			y = (y + 1) & 0xff
			if y == 0 {
				y = 1
			}
		}
	}
	if r.Bool() {
		for i := range b {
			b[i] ^= 0x55
		}
	}
	return b
}

func runFAC06(c *Ctx) {
	r := c.R.Fork()
	nRandom := 1200
	maxLen := 2500
	nBig := 2
	if c.Thorough {
		nRandom = 20000
		maxLen = 9000
		nBig = 30
	}
	sampleLeft := 3

	one := func(cd faCodec, data []byte, kind string) {
		wch := faGenChunks(r)
		if wch != nil && r.P(1, 10) {
			wch[0] = 0
			wch = append(wch, 1+r.Intn(50))
		}
		rchs := [][]int{{1}, faGenChunks(r), faGenChunks(r)}
		if r.P(1, 2) {
			rchs = append(rchs, []int{Pick(r, []int{2, 3, 5, 7})})
		}
		// chunk size 0 is not a valid Read buffer for a progress-making loop
		for _, rc := range rchs {
			for i := range rc {
				if rc[i] <= 0 {
					rc[i] = 1
				}
			}
		}
		key := cd.name + " " + string(data)
		c.Case(key, len(data) >= 2)
		c.Stat("codec_" + cd.name)
		c.Stat("kind_" + kind)
		switch {
		case len(data) < 8:
			c.Stat("len_0-7")
		case len(data) < 130:
			c.Stat("len_8-129")
		case len(data) < 1000:
			c.Stat("len_130-999")
		default:
			c.Stat("len_1000+")
		}
		enc, ref, fails := faC06Check(cd, data, wch, rchs)
		for _, f := range fails {
			c.Violate(f.oracle, f.key, f.desc, faC06Replay(cd, data, wch, rchs))
		}
		if enc == nil {
			return
		}
		// correspondence: the model's encoder output and decoder result
		c.Emit("FA enc "+cd.name+" "+hexWire(data), "ok "+hexWire(enc))
		faEmitDec(c, cd.name, enc, ref)
		if sampleLeft > 0 && len(data) > 3 && len(data) < 40 {
			sampleLeft--
			c.Sample(fmt.Sprintf("%s %s write=%s: %x -> %q", cd.name, kind, faChunksStr(wch), data, enc))
		}
	}

	// 1. boundary lengths, every codec, several data kinds
	for _, n := range faBoundaryLens {
		for _, cd := range faCodecs {
			for k := 0; k < 2; k++ {
				data, kind := faGenData(r, n)
				one(cd, data, kind)
			}
		}
	}
	// 2. fixed delicate cases
	fixed := [][]byte{
		{0, 0, 0, 0}, {0, 0, 0, 0, 0}, {0, 0, 0}, {0xff, 0xff, 0xff, 0xff}, {0xff, 0xff, 0xff, 0xff, 0xff},
		{0, 0, 0, 1}, {1, 0, 0, 0}, {0x80}, {0x80, 0x80}, {0x80, 0x80, 0x80}, {'~', '>'}, {'>'}, {'z', 'z', 'z', 'z'},
		bytes.Repeat([]byte{7}, 127), bytes.Repeat([]byte{7}, 128), bytes.Repeat([]byte{7}, 129), bytes.Repeat([]byte{7}, 130), bytes.Repeat([]byte{7}, 256), bytes.Repeat([]byte{7}, 257),
		append(bytes.Repeat([]byte{1, 2}, 64), 3, 3, 3), append(bytes.Repeat([]byte{1, 2}, 63), 9, 3, 3, 3),
		append(append([]byte{5, 5}, bytes.Repeat([]byte{1, 2}, 63)...), 5, 5, 5), append(bytes.Repeat([]byte{1, 2}, 62), 4, 4, 9, 3),
		[]byte("ababababababababababababababab"), []byte("aaaaaaaaaaaaaaaaaaaaaaaaaaaaaaaaaaaaaaaaaaaaaa"),
	}
	for _, data := range fixed {
		for _, cd := range faCodecs {
			one(cd, data, "fixed")
		}
	}
	// 3. random lengths and kinds
	for i := 0; i < nRandom; i++ {
		n := r.Intn(maxLen)
		if r.P(1, 2) {
			n = r.Intn(300)
		}
		data, kind := faGenData(r, n)
		one(Pick(r, faCodecs), data, kind)
	}
	// 4. LZW: inputs around the point where the encoder's table fills up
	// (it sends a clear code after 3837/3838 codes) and around the width
	// switches (after 254/255, 766/767, 1790/1791 codes)
	lzwLens := []int{253, 254, 255, 256, 257, 765, 766, 767, 768, 769, 1789, 1790, 1791, 1792, 3835, 3836, 3837, 3838, 3839, 3840, 3841, 4093, 4094, 4095, 4096, 4097}
	if c.Thorough {
		for d := -3; d <= 3; d++ {
			lzwLens = append(lzwLens, 2*3838+d, 3*3838+d)
		}
	}
	for _, n := range lzwLens {
		for _, cd := range faCodecs[3:] {
			one(cd, faLZWBoundaryInput(r, n), "lzw-table")
		}
	}
	// 5. a few large inputs (several clear cycles)
	for i := 0; i < nBig; i++ {
		data, kind := faGenData(r, 12000+r.Intn(8000))
		for _, cd := range faCodecs {
			one(cd, data, kind+"-big")
		}
	}
	_ = pdf.V1_7
}

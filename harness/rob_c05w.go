package main

import (
	"bytes"
	"fmt"
	"runtime/debug"
	"strings"
	"time"

	"seehuhn.de/go/pdf"
	"seehuhn.de/go/pdf/nametree"
	"seehuhn.de/go/pdf/numtree"
	"seehuhn.de/go/pdf/outline"
	"seehuhn.de/go/pdf/pagetree"
)

// C05, "terminates within a time proportional to the input", for the
// walkers of linked document structures.  Random byte mutation reaches a
// rewired graph of a particular structure only by luck, and wall time cannot
// tell linear from exponential work on files of a few kilobytes.  This run
// is therefore systematic in two directions:
//
//   - SHAPES: a family of graphs over n node objects (chain, every child
//     listed twice, child and grandchild listed, diamond lattice, self loop,
//     2-cycle, back edge to the root, fan, random DAG) is rendered into
//     every linked structure the library walks: page tree (/Kids), name tree
//     and number tree (/Kids, streaming and in-memory readers, Size),
//     outline (/First /Next).
//   - WORK: every walker runs over a metering Getter which counts object
//     fetches and refuses service beyond an allowance proportional to the
//     number of objects in the file.  More than that is a violation
//     (C05-superlinear-work-<walker>); panics and a watchdog as elsewhere.

type c05wShape struct {
	name string
	kids func(i, n int, r *Rand) []int // indices of the children of node i (0..n-1); n = leaf index
}

var c05wShapes = []c05wShape{
	{"chain", func(i, n int, r *Rand) []int { return []int{i + 1} }},
	{"doubled", func(i, n int, r *Rand) []int { return []int{i + 1, i + 1} }},
	{"tripled", func(i, n int, r *Rand) []int { return []int{i + 1, i + 1, i + 1} }},
	{"skip", func(i, n int, r *Rand) []int { return []int{i + 1, i + 2} }},
	{"skip-rev", func(i, n int, r *Rand) []int { return []int{i + 2, i + 1} }},
	{"lattice", func(i, n int, r *Rand) []int { return []int{i + 1, i + 2, i + 3} }},
	{"self", func(i, n int, r *Rand) []int { return []int{i, i + 1} }},
	{"two-cycle", func(i, n int, r *Rand) []int {
		if i > 0 {
			return []int{i - 1, i + 1}
		}
		return []int{i + 1}
	}},
	{"back-to-root", func(i, n int, r *Rand) []int { return []int{i + 1, 0} }},
	{"fan", func(i, n int, r *Rand) []int {
		if i == 0 {
			k := make([]int, 0, n)
			for j := 1; j <= n; j++ {
				k = append(k, j)
			}
			return k
		}
		return nil
	}},
	{"random-dag", func(i, n int, r *Rand) []int {
		var k []int
		for j := 0; j < 1+r.Intn(3); j++ {
			k = append(k, i+1+r.Intn(4))
		}
		return k
	}},
	{"random-graph", func(i, n int, r *Rand) []int {
		var k []int
		for j := 0; j < 1+r.Intn(3); j++ {
			k = append(k, r.Intn(n+1))
		}
		return k
	}},
}

// c05wFile builds a plain PDF file: objects 1..3 catalog/pages/page, then
// the nodes.  structure selects how the graph is rendered.
func c05wFile(structure string, shape c05wShape, n int, r *Rand) (data []byte, nObj int) {
	const first = 4 // object number of node 0
	ref := func(i int) string {
		if i > n {
			i = n
		}
		if i < 0 {
			i = 0
		}
		return fmt.Sprintf("%d 0 R", first+i)
	}
	catalog := "<< /Type /Catalog /Pages 2 0 R"
	pagesKids := "3 0 R"
	var nodes []string
	switch structure {
	case "nametree", "numtree":
		if structure == "nametree" {
			catalog += " /Names << /Dests 4 0 R >>"
		} else {
			catalog += " /PageLabels 4 0 R"
		}
		for i := 0; i < n; i++ {
			var ks []string
			for _, k := range shape.kids(i, n, r) {
				ks = append(ks, ref(k))
			}
			body := "<< /Kids [" + strings.Join(ks, " ") + "]"
			if i > 0 {
				if structure == "nametree" {
					body += " /Limits [(a) (a)]"
				} else {
					body += " /Limits [0 0]"
				}
			}
			nodes = append(nodes, body+" >>")
		}
		if structure == "nametree" {
			nodes = append(nodes, "<< /Limits [(a) (a)] /Names [(a) [3 0 R /Fit]] >>")
		} else {
			nodes = append(nodes, "<< /Limits [0 0] /Nums [0 << /S /D >>] >>")
		}
	case "pagetree":
		pagesKids = "3 0 R 4 0 R"
		for i := 0; i < n; i++ {
			var ks []string
			for _, k := range shape.kids(i, n, r) {
				ks = append(ks, ref(k))
			}
			parent := "2 0 R"
			if i > 0 {
				parent = ref(i - 1)
			}
			nodes = append(nodes, "<< /Type /Pages /Parent "+parent+" /Count 1 /Kids ["+strings.Join(ks, " ")+"] >>")
		}
		nodes = append(nodes, "<< /Type /Page /Parent "+ref(n-1)+" /MediaBox [0 0 10 10] >>")
	case "outline":
		catalog += " /Outlines 4 0 R"
		// node 0 is the outline root; children of a node: /First = first kid,
		// the kids are chained by /Next in the order of the list
		next := map[int]int{}
		firstKid := map[int]int{}
		for i := 0; i < n; i++ {
			ks := shape.kids(i, n, r)
			if len(ks) > 0 {
				firstKid[i] = ks[0]
				for j := 0; j+1 < len(ks); j++ {
					next[ks[j]] = ks[j+1]
				}
			}
		}
		for i := 0; i <= n; i++ {
			body := "<<"
			if i == 0 {
				body += " /Type /Outlines"
			} else {
				body += fmt.Sprintf(" /Title (item %d) /Parent %s", i, ref(i-1))
			}
			if k, ok := firstKid[i]; ok {
				body += " /First " + ref(k) + " /Last " + ref(k) + " /Count 1"
			}
			if k, ok := next[i]; ok {
				body += " /Next " + ref(k)
			}
			nodes = append(nodes, body+" >>")
		}
	}
	bodies := append([]string{
		catalog + " >>",
		"<< /Type /Pages /Kids [" + pagesKids + "] /Count 1 >>",
		"<< /Type /Page /Parent 2 0 R /MediaBox [0 0 612 792] >>",
	}, nodes...)

	var buf bytes.Buffer
	buf.WriteString("%PDF-1.7\n")
	offs := make([]int, len(bodies))
	for i, b := range bodies {
		offs[i] = buf.Len()
		fmt.Fprintf(&buf, "%d 0 obj\n%s\nendobj\n", i+1, b)
	}
	xrefPos := buf.Len()
	fmt.Fprintf(&buf, "xref\n0 %d\n0000000000 65535 f\r\n", len(bodies)+1)
	for _, o := range offs {
		fmt.Fprintf(&buf, "%010d 00000 n\r\n", o)
	}
	fmt.Fprintf(&buf, "trailer\n<< /Size %d /Root 1 0 R >>\nstartxref\n%d\n%%%%EOF\n", len(bodies)+1, xrefPos)
	return buf.Bytes(), len(bodies)
}

// c05wMeter counts object fetches and refuses service beyond the allowance.
type c05wMeter struct {
	pdf.Getter
	fetches, allowance int
}

var errC05wAllowance = fmt.Errorf("fetch allowance exhausted")

func (g *c05wMeter) Get(ref pdf.Reference, canObjStm bool) (pdf.Native, error) {
	g.fetches++
	if g.fetches > g.allowance {
		return nil, errC05wAllowance
	}
	return g.Getter.Get(ref, canObjStm)
}

type c05wWalker struct {
	name      string
	structure string
	walk      func(g pdf.Getter, cat *pdf.Catalog, limit *int)
}

// every walker stops consuming after `limit` yielded items, so that an
// unbounded stream of duplicates ends even without the meter
var c05wWalkers = []c05wWalker{
	{"pagetree.Iterator", "pagetree", func(g pdf.Getter, cat *pdf.Catalog, limit *int) {
		for range pagetree.NewIterator(g).All() {
			if *limit--; *limit < 0 {
				break
			}
		}
	}},
	{"pagetree.FindPages", "pagetree", func(g pdf.Getter, cat *pdf.Catalog, limit *int) { pagetree.FindPages(g) }},
	{"nametree.FromFile.All", "nametree", func(g pdf.Getter, cat *pdf.Catalog, limit *int) {
		names, _ := pdf.NewCursor(g).Dict(cat.Names)
		t, err := nametree.ExtractFromFile(g, names["Dests"])
		if err != nil || t == nil {
			return
		}
		for range t.All() {
			if *limit--; *limit < 0 {
				break
			}
		}
	}},
	{"nametree.FromFile.Lookup", "nametree", func(g pdf.Getter, cat *pdf.Catalog, limit *int) {
		names, _ := pdf.NewCursor(g).Dict(cat.Names)
		t, err := nametree.ExtractFromFile(g, names["Dests"])
		if err != nil || t == nil {
			return
		}
		t.Lookup("a")
		t.Lookup("zz")
	}},
	{"nametree.ExtractInMemory", "nametree", func(g pdf.Getter, cat *pdf.Catalog, limit *int) {
		names, _ := pdf.NewCursor(g).Dict(cat.Names)
		nametree.ExtractInMemory(g, names["Dests"])
	}},
	{"nametree.Size", "nametree", func(g pdf.Getter, cat *pdf.Catalog, limit *int) {
		names, _ := pdf.NewCursor(g).Dict(cat.Names)
		nametree.Size(g, names["Dests"])
	}},
	{"numtree.FromFile.All", "numtree", func(g pdf.Getter, cat *pdf.Catalog, limit *int) {
		t, err := numtree.ExtractFromFile(g, cat.PageLabels)
		if err != nil || t == nil {
			return
		}
		for range t.All() {
			if *limit--; *limit < 0 {
				break
			}
		}
	}},
	{"numtree.ExtractInMemory", "numtree", func(g pdf.Getter, cat *pdf.Catalog, limit *int) { numtree.ExtractInMemory(g, cat.PageLabels) }},
	{"numtree.Size", "numtree", func(g pdf.Getter, cat *pdf.Catalog, limit *int) { numtree.Size(g, cat.PageLabels) }},
	{"outline.Decode", "outline", func(g pdf.Getter, cat *pdf.Catalog, limit *int) {
		if cat.Outlines != 0 {
			pdf.Decode(pdf.NewCursor(g), cat.Outlines, outline.Decode)
		}
	}},
}

// c05wEval runs one walker over one file.  ok=false: key and description of
// the violation.
func c05wEval(data []byte, nObj int, w c05wWalker) (key, desc string, fetches int) {
	type out struct {
		key, desc string
		fetches   int
	}
	ch := make(chan out, 1)
	go func() {
		m := &c05wMeter{allowance: 64*nObj + 256}
		defer func() {
			if e := recover(); e != nil {
				ch <- out{"C05-panic-" + c05PanicSite(string(debug.Stack())), fmt.Sprintf("panic: %v | %s", e, c05ShortStack(string(debug.Stack()))), m.fetches}
			}
		}()
		r, err := pdf.NewReader(bytes.NewReader(data), int64(len(data)), nil)
		if err != nil {
			ch <- out{"", "", 0}
			return
		}
		m.Getter = r
		limit := 100 * nObj
		w.walk(m, r.GetMeta().Catalog, &limit)
		r.Close()
		if m.fetches > m.allowance {
			ch <- out{"C05-superlinear-work-" + w.name, fmt.Sprintf("more than %d object fetches for a file with %d objects (%d bytes)", m.allowance, nObj, len(data)), m.fetches}
			return
		}
		ch <- out{"", "", m.fetches}
	}()
	select {
	case o := <-ch:
		return o.key, o.desc, o.fetches
	case <-time.After(30 * time.Second):
		return "C05-hang", "walker did not return within 30 s", 0
	}
}

func c05wCase(structure, shape string, n int, seed uint64) ([]byte, int) {
	for _, sh := range c05wShapes {
		if sh.name == shape {
			return c05wFile(structure, sh, n, &Rand{s: seed})
		}
	}
	return nil, 0
}

func robC05wRun(c *Ctx) {
	r := c.R.Fork()
	depths := []int{1, 2, 5, 12, 24, 40}
	if c.Thorough {
		depths = []int{1, 2, 3, 5, 8, 12, 17, 24, 33, 40, 64, 128, 254, 255, 256, 257, 300}
	}
	maxFetch := 0
	hangs := 0
	for _, structure := range []string{"pagetree", "nametree", "numtree", "outline"} {
		for _, sh := range c05wShapes {
			for _, n := range depths {
				seed := r.U64()
				data, nObj := c05wFile(structure, sh, n, &Rand{s: seed})
				for _, w := range c05wWalkers {
					if w.structure != structure || hangs >= 2 {
						continue
					}
					key, desc, fetches := c05wEval(data, nObj, w)
					input := fmt.Sprintf("%s %s %d %d %s", structure, sh.name, n, seed, w.name)
					c.Case(input, true)
					c.Stat("c05w_" + structure + "_" + sh.name)
					if fetches*1000/(64*nObj+256) > maxFetch {
						maxFetch = fetches * 1000 / (64*nObj + 256)
					}
					if key != "" {
						if key == "C05-hang" {
							hangs++
						}
						c.Violate("c05w", key, desc+": "+input, input)
					}
				}
			}
		}
	}
	c.StatN("c05w_max_fetches_permille_of_allowance", maxFetch)
}

// replay input: "<structure> <shape> <n> <seed> <walker>"
func replayC05w(input string) (bool, string) {
	f := strings.Fields(input)
	if len(f) != 5 {
		return true, "bad replay input"
	}
	var n int
	var seed uint64
	fmt.Sscan(f[2], &n)
	fmt.Sscan(f[3], &seed)
	data, nObj := c05wCase(f[0], f[1], n, seed)
	if data == nil {
		return true, "bad replay input"
	}
	for _, w := range c05wWalkers {
		if w.name == f[4] {
			key, desc, fetches := c05wEval(data, nObj, w)
			if key != "" {
				return false, key + ": " + desc
			}
			return true, fmt.Sprintf("%d object fetches for %d objects", fetches, nObj)
		}
	}
	return true, "unknown walker"
}

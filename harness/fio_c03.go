package main

import (
	"bytes"
	"fmt"
	"io"
	"sort"
	"strconv"
	"strings"

	"seehuhn.de/go/pdf"
)

// FIO work package, property C03: every file produced by the real Writer is
// judged by the independent strict checker Spec/FIOFileWF.lean (compiled into
// the driver).  The harness supplies what the checker cannot compute itself —
// inflated (and, for encrypted files, decrypted) bytes of xref and object
// streams — and states what it expects the checker to find: the writer's own
// cross-reference information and the values the program wrote.

func init() {
	addRun("C03", "the writer programs of C02 (valid ones only), each file given to the independent checker checkFile (Lean, from ISO 32000-2 7.5): expected result = the Writer's internal cross-reference table (kind, offset, generation / object stream and index for every number below Size) and, for unencrypted files, the value of every object the program wrote; plus files damaged on purpose (startxref, entry offset, line length, EOF marker, header, /Length) which the checker must refuse. Non-trivial: at least one object written; distinct by program text.", runFIOC03)
	addReplay("C03", "file-wf", replayFIOC03)
	setCanon("C03", canonReals)
}

// fioInflateTable returns the raw=plain pairs for the xref stream and the
// object streams of a written file.
func fioInflateTable(res *fioResult) (string, error) {
	disk := &fioDisk{file: res.file, xref: map[uint32]pdf.VerifFIOEntry{}, cache: map[uint32]pdf.Object{}}
	stms := map[uint32]bool{}
	for _, e := range res.xref {
		disk.xref[e.Num] = e
		if e.InStream != 0 {
			stms[e.InStream] = true
		}
	}
	var pairs []string
	_, xrefRaw, err := fioTrailer(res.file, disk)
	if err != nil {
		return "", err
	}
	if xrefRaw != nil {
		plain, err := fioInflate(xrefRaw)
		if err != nil {
			return "", fmt.Errorf("xref stream does not inflate: %w", err)
		}
		pairs = append(pairs, hexWire(xrefRaw)+"="+hexWire(plain))
	}
	var nums []int
	for n := range stms {
		nums = append(nums, int(n))
	}
	sort.Ints(nums)
	var rd *pdf.Reader
	for _, n := range nums {
		_, raw, err := disk.rawStream(uint32(n))
		if err != nil {
			return "", err
		}
		var plain []byte
		if !res.prog.encrypt {
			plain, err = fioInflate(raw)
			if err != nil {
				return "", fmt.Errorf("object stream %d does not inflate: %w", n, err)
			}
		} else {
			// ciphers are parameters: decrypt and inflate with the library
			if rd == nil {
				rd, err = fioReopen(res)
				if err != nil {
					return "", err
				}
			}
			o, err := rd.Get(pdf.NewReference(uint32(n), 0), false)
			if err != nil {
				return "", err
			}
			stm, ok := o.(*pdf.Stream)
			if !ok {
				return "", fmt.Errorf("object stream %d is %T", n, o)
			}
			dr, err := pdf.DecodeStream(rd, nil, stm)
			if err != nil {
				return "", err
			}
			plain, err = io.ReadAll(dr)
			if err != nil {
				return "", err
			}
		}
		pairs = append(pairs, hexWire(raw)+"="+hexWire(plain))
	}
	if len(pairs) == 0 {
		return "-", nil
	}
	return strings.Join(pairs, ","), nil
}

// fioExpectedFacts renders the Writer's own cross-reference table in the
// format printed by the checker.
func fioExpectedFacts(res *fioResult) string {
	p := res.prog
	stream := !p.human && p.version >= pdf.V1_5
	byNum := map[uint32]pdf.VerifFIOEntry{}
	for _, e := range res.xref {
		byNum[e.Num] = e
	}
	var parts []string
	for n := uint32(0); n < res.nextRef; n++ {
		e, ok := byNum[n]
		switch {
		case !ok || (e.Pos < 0 && e.InStream == 0):
			parts = append(parts, fmt.Sprintf("%d:f", n))
		case stream && n == res.nextRef-1:
			// the cross-reference stream lists itself as free (its rows are
			// produced before its own entry exists)
			parts = append(parts, fmt.Sprintf("%d:f", n))
		case e.InStream != 0:
			parts = append(parts, fmt.Sprintf("%d:c:%d:%d", n, e.InStream, e.Pos))
		default:
			parts = append(parts, fmt.Sprintf("%d:u:%d:%d", n, e.Pos, e.Gen))
		}
	}
	vs, _ := p.version.ToString()
	return fmt.Sprintf("ok %s %d %s", vs, res.nextRef, strings.Join(parts, ","))
}

func fioChkLines(res *fioResult) (chk, want string, val, wantVal string, err error) {
	tbl, err := fioInflateTable(res)
	if err != nil {
		return "", "", "", "", err
	}
	fileHex := hexWire(res.file)
	chk = "FIO chk " + fileHex + " " + tbl
	want = fioExpectedFacts(res)
	if !res.prog.encrypt {
		var nums []string
		var vals []string
		refs := append([]pdf.Reference(nil), res.order...)
		sort.Slice(refs, func(i, j int) bool { return refs[i].Number() < refs[j].Number() })
		for _, ref := range refs {
			wr := res.written[ref]
			if wr.isStream && len(wr.filters) > 0 {
				continue
			}
			nums = append(nums, fmt.Sprint(ref.Number()))
			if wr.isStream {
				vals = append(vals, fmt.Sprintf("%d=S%s:%d", ref.Number(), wireNorm(wr.dict), len(wr.data)))
			} else {
				vals = append(vals, fmt.Sprintf("%d=%s", ref.Number(), wireNorm(wr.obj)))
			}
		}
		if len(nums) > 0 {
			val = "FIO chkval " + fileHex + " " + tbl + " " + strings.Join(nums, ",")
			wantVal = "ok " + strings.Join(vals, ",")
		}
	}
	return chk, want, val, wantVal, nil
}

// fioDamage returns copies of the file with one structural defect each.
func fioDamage(r *Rand, res *fioResult) [][]byte {
	file := res.file
	var out [][]byte
	clone := func() []byte { return append([]byte(nil), file...) }
	i := bytes.LastIndex(file, []byte("startxref\n"))
	if i < 0 {
		return nil
	}
	j := i + 10 + bytes.IndexByte(file[i+10:], '\n')
	pos, _ := strconv.Atoi(string(file[i+10 : j]))
	// 1. startxref off by one
	f := append(clone()[:i+10], []byte(fmt.Sprintf("%d\n%%%%EOF\n", pos+1))...)
	out = append(out, f)
	// 2. no EOF marker
	out = append(out, clone()[:len(file)-6])
	// 3. header
	f = clone()
	f[3] = 'G'
	out = append(out, f)
	if bytes.HasPrefix(file[pos:], []byte("xref\n")) {
		// 4. an in-use entry points one byte off
		lines := file[pos:]
		k := bytes.Index(lines, []byte(" n\r\n"))
		if k > 0 {
			f = clone()
			d := pos + k - 7 // last digit of the offset
			if f[d] == '9' {
				f[d] = '8'
			} else {
				f[d]++
			}
			out = append(out, f)
		}
		// 5. 19-byte lines
		f = bytes.Replace(clone()[pos:], []byte("\r\n"), []byte("\n"), 1)
		out = append(out, append(clone()[:pos], f...))
		// 6. /Size one too large
		k = bytes.LastIndex(file, []byte("/Size "))
		if k > 0 {
			f = clone()
			e := k + 6
			for e < len(f) && f[e] >= '0' && f[e] <= '9' {
				e++
			}
			n, _ := strconv.Atoi(string(f[k+6 : e]))
			f = append(append(append([]byte(nil), f[:k+6]...), []byte(fmt.Sprint(n+1))...), f[e:]...)
			// keep startxref valid: the table precedes the trailer, so pos is unchanged
			out = append(out, f)
		}
	}
	// 7. a direct /Length that is one too small (first stream with a direct length before its data)
	// (only when that /Length can be nothing but the length of the file's single stream)
	nStreams := 0
	lengthKeys := 0
	for _, wr := range res.written {
		if wr.isStream {
			nStreams++
			lengthKeys += strings.Count(wire(wr.dict), "4c656e677468")
		} else {
			lengthKeys += strings.Count(wire(wr.obj), "4c656e677468")
		}
	}
	single := nStreams == 1 && lengthKeys == 0 && bytes.Count(file, []byte("/Length ")) == 1 &&
		(res.prog.human || res.prog.version < pdf.V1_5)
	if k := bytes.Index(file, []byte("/Length ")); k > 0 && !res.prog.encrypt && single {
		e := k + 8
		for e < len(file) && file[e] >= '0' && file[e] <= '9' {
			e++
		}
		if e > k+8 && e < len(file) && file[e] != ' ' {
			n, _ := strconv.Atoi(string(file[k+8 : e]))
			s := fmt.Sprint(n + 1)
			if len(s) == e-(k+8) {
				f = clone()
				copy(f[k+8:e], s)
				out = append(out, f)
			}
		}
	}
	return out
}

func replayFIOC03(input string) (bool, string) {
	p, err := fioParseProg(input)
	if err != nil {
		return true, "bad replay input: " + err.Error()
	}
	res := fioExec(p, nil)
	if res.failedAt != -1 {
		return true, fmt.Sprintf("writer refused the program at op %d: %v (nothing to check)", res.failedAt, res.err)
	}
	chk, want, _, _, err := fioChkLines(res)
	if err != nil {
		return false, "file cannot be taken apart: " + err.Error()
	}
	return true, "run the checker on:\n" + chk + "\nexpected:\n" + want
}

// fioC03Fixed builds the programs that reach the corners the random generator
// does not: (c) object streams together with object numbers above 65535 in a
// small file (field 2 of the xref stream must be sized for the object-stream
// numbers, not only for the offsets), (d) many uncompressed objects so that the
// compressed xref stream data exceeds the 1024-byte buffering limit, on both
// kinds of sink.
func fioC03Fixed(r *Rand, thorough bool) []*fioProg {
	var progs []*fioProg
	mk := func(v pdf.Version, seekable bool) *fioProg {
		return &fioProg{version: v, seekable: seekable, layout: ""}
	}
	small := func() pdf.Object {
		switch r.Intn(4) {
		case 0:
			return pdf.Integer(r.Intn(1 << uint(1+r.Intn(40))))
		case 1:
			return pdf.String(genBytes(r, 30))
		case 2:
			return pdf.Array{pdf.Name("N"), pdf.Integer(r.Intn(1000)), pdf.Boolean(r.Bool())}
		default:
			return pdf.Dict{"K": pdf.Integer(r.Intn(100000)), "S": pdf.String(genBytes(r, 8))}
		}
	}
	// (c) sparse numbering + object streams
	for _, v := range []pdf.Version{pdf.V1_5, pdf.V1_7, pdf.V2_0} {
		for _, seekable := range []bool{true, false} {
			p := mk(v, seekable)
			base := uint32(70000 + r.Intn(500))
			p.ops = append(p.ops, fioOp{kind: 'A', same: -1}) // 2
			p.ops = append(p.ops, fioOp{kind: 'P', ref: pdf.NewReference(base, 0), obj: small(), same: -1})
			n := 2 + r.Intn(3)
			z := fioOp{kind: 'Z', same: -1}
			for i := 0; i < n; i++ {
				p.ops = append(p.ops, fioOp{kind: 'A', same: -1})
				z.refs = append(z.refs, pdf.NewReference(base+1+uint32(i), 0))
				z.objs = append(z.objs, small())
			}
			p.ops = append(p.ops, z)
			p.ops = append(p.ops, fioOp{kind: 'P', ref: pdf.NewReference(2, 0), obj: small(), same: -1})
			// a second object stream, allocated after the first
			p.ops = append(p.ops, fioOp{kind: 'A', same: -1})
			p.ops = append(p.ops, fioOp{kind: 'Z', same: -1, refs: []pdf.Reference{pdf.NewReference(base+uint32(n)+2, 0)}, objs: []pdf.Object{small()}})
			progs = append(progs, p)
		}
	}
	// (c') many unused Allocs before WriteCompressed
	{
		p := mk(pdf.V1_7, false)
		n := 66000
		for i := 0; i < n; i++ {
			p.ops = append(p.ops, fioOp{kind: 'A', same: -1})
		}
		p.ops = append(p.ops, fioOp{kind: 'Z', same: -1,
			refs: []pdf.Reference{pdf.NewReference(uint32(n), 0), pdf.NewReference(uint32(n+1), 0)},
			objs: []pdf.Object{small(), small()}})
		progs = append(progs, p)
	}
	// (e) stream objects (and plain objects next to them) under references with
	// non-zero generation, in table and xref-stream files, short and long data
	for _, v := range []pdf.Version{pdf.V1_3, pdf.V1_7} {
		for _, seekable := range []bool{true, false} {
			p := mk(v, seekable)
			for i := 0; i < 9; i++ {
				p.ops = append(p.ops, fioOp{kind: 'A', same: -1}) // 2..10
			}
			gens := []uint16{1, 2, 65535}
			long := make([]byte, 1500)
			for i := range long {
				long[i] = byte('a' + i%26)
			}
			for i, g := range gens {
				n := uint32(2 + 3*i)
				data := []byte("short stream")
				if i == 1 {
					data = long
				}
				p.ops = append(p.ops, fioOp{kind: 'S', same: -1, userLen: -1, ref: pdf.NewReference(n, g), dict: pdf.Dict{"K": pdf.Integer(i)}, data: data})
				p.ops = append(p.ops, fioOp{kind: 'P', same: -1, ref: pdf.NewReference(n+1, g), obj: small()})
				p.ops = append(p.ops, fioOp{kind: 'O', same: -1, userLen: -1, ref: pdf.NewReference(n+2, gens[(i+1)%3]), dict: pdf.Dict{"T": pdf.Name("x")}})
				if i == 0 {
					p.ops = append(p.ops, fioOp{kind: 'W', data: long})
				}
				p.ops = append(p.ops, fioOp{kind: 'W', data: []byte("tail")})
				p.ops = append(p.ops, fioOp{kind: 'C'})
			}
			progs = append(progs, p)
		}
	}
	// (d) many uncompressed objects of irregular sizes
	sizes := []int{50, 300, 1000, 4000}
	for _, n := range sizes {
		for _, seekable := range []bool{true, false} {
			p := mk(pdf.V1_7, seekable)
			for i := 0; i < n; i++ {
				p.ops = append(p.ops, fioOp{kind: 'A', same: -1})
			}
			for i := 0; i < n; i++ {
				p.ops = append(p.ops, fioOp{kind: 'P', ref: pdf.NewReference(uint32(2+i), 0), obj: small(), same: -1})
			}
			progs = append(progs, p)
		}
	}
	return progs
}

func runFIOC03Fixed(c *Ctx) {
	r := c.R.Fork()
	for _, p := range fioC03Fixed(r, c.Thorough) {
		res := fioExec(p, nil)
		key := fmt.Sprintf("fixed v=%d seek=%v ops=%d", int(p.version), p.seekable, len(p.ops))
		c.Case(key+" "+fmt.Sprint(r.U64()), true)
		c.Stat("c03_fixed_programs")
		if res.failedAt != -1 {
			c.Violate("file-wf", "writer-rejects-valid-program", fmt.Sprintf("%s: op %d failed: %v", key, res.failedAt, res.err), p.String())
			continue
		}
		chk, want, val, wantVal, err := fioChkLines(res)
		if err != nil {
			c.Violate("file-wf", "file-not-parseable", key+": "+err.Error(), p.String())
			continue
		}
		if _, xrefRaw, err := fioTrailer(res.file, &fioDisk{file: res.file}); err == nil && xrefRaw != nil {
			switch {
			case len(xrefRaw) >= 1024:
				c.Stat("xref_stream_raw_ge_1024")
			default:
				c.Stat("xref_stream_raw_lt_1024")
			}
		}
		c.Emit(chk, want)
		if val != "" && len(p.ops) <= 700 {
			c.Emit(val, wantVal)
		}
	}
}

func runFIOC03(c *Ctx) {
	runFIOC03Fixed(c)
	r := c.R.Fork()
	n := 300
	if c.Thorough {
		n = 8000
	}
	for i := 0; i < n; i++ {
		mode := 0
		if r.P(1, 4) {
			mode = -1 // error-then-continue: operations which fail are followed by others and by Close
		}
		res := fioGenProg(r.Fork(), c.Thorough, mode)
		text := res.prog.String()
		c.Case(text, len(res.written) > 0)
		fioStatProg(c, res)
		fioStatCont(c, res)
		if res.failedAt != -1 {
			c.Stat("prog_failed")
			continue
		}
		chk, want, val, wantVal, err := fioChkLines(res)
		if err != nil && res.prog.encrypt && res.nextRef > 8192 && strings.Contains(err.Error(), "invalid cross-reference table") {
			// finding F2 (reported under C02): the library's reader, which the
			// harness needs to decrypt object streams, refuses the file
			c.Stat("skipped_library_reader_refuses_file")
			continue
		}
		if err != nil {
			c.Violate("file-wf", "file-not-parseable", "taking the written file apart: "+err.Error(), text)
			continue
		}
		c.Emit(chk, want)
		if val != "" {
			c.Emit(val, wantVal)
		}
		if i < 3 {
			c.Sample("checker line expected: " + want)
		}
		if i%4 == 0 {
			tbl := strings.SplitN(chk, " ", 4)[3]
			for _, bad := range fioDamage(r, res) {
				c.Stat("damaged_files")
				c.Emit("FIO chkbad "+hexWire(bad)+" "+tbl, "fail")
			}
		}
	}
}

package main

// Registration of the robustness work package (driver key ROB): properties
// C05 (arbitrary bytes never crash, hang, leak or explode) and C19 (I/O
// faults surface as I/O faults).

func init() {
	addRun("C05", "scanner buffer on token soups and long runs across the 1024-byte window under chunked readers, three quarters fault-free and one quarter failing from/at call k (lines 'ROB scan'), compared with Model/ROBScanBuf; hang/panic of a scanner call is a violation", func(c *Ctx) { robScanRun(c, false) })
	addRun("C05", "Resolve over scripted object graphs (chains up to 300 references, cycles, failing Get; lines 'ROB resolve') compared with Model/ROBErr.resolveLoop; more than MaxExtractDepth Get calls is a violation", robResolveRun)
	addRun("C05", c05Rule, robC05Run)
	addRun("C05", "targeted whole files: Writer output that ENDS inside a cross-reference table (every cut position in the first two entries), right after an object header or inside the header line; object streams whose integer members are followed by every variant of a (non-)reference tail inside and across the member extent and the 64-byte look-ahead of getFromObjStm/scanner.readReferenceTail ('2 0 R' at the end, comments, 2000-byte comments and 5000 blanks inside the tail, signed and 300-digit generations, next offset inside the integer, equal and unordered offsets, 63/70 blanks, 6/7 generation digits, '2 0 Rx', high bytes), plain and Flate; same walk and oracle as the mutation run", robC05xRun)
	addRun("C05", "GetFilters on /Filter arrays of 1..40 names: more than maxFilterChainLength (8, documented cap) must be refused", robFilterChainRun)
	addRun("C05", "EXHAUSTIVE token sequences up to length 8 (array body) / 6 (dictionary value) over {integer, R, name} read by ReadObject (lines 'ROB scan … o'), compared with Model/Scan; a panic is a violation", robTokenSeqRun)
	addRun("C05", "linked structures x graph shapes x walkers: page tree, name tree, number tree and outline rendered from 12 graph families (chain, child listed twice/thrice, child+grandchild, lattice, self loop, 2-cycle, back edge, fan, random DAG, random graph) of depth 1..40 (thorough ..300); pagetree.Iterator/FindPages, nametree and numtree FromFile.All/Lookup/ExtractInMemory/Size, outline.Decode run over a metering Getter; more than 64*objects+256 object fetches, a panic or a hang is a violation", robC05wRun)
	addRun("C05", "goroutine lifetime on SUCCESS paths of the two pipe producers of the library (type1glyphs.FromStream, DCTDecode): the repository's Type 1 test font in PDF, PFA, PFB, binary and no-eexec form followed by 0..64 KiB of trailing zeros, noise or text, written into the stream in one piece, in two pieces or in 1 KiB chunks; valid JPEGs (grey 32x32, RGB 64x64, RGB 400x400) followed by 0..64 KiB of trailing zeros, noise or a second JPEG, read completely, in part, one byte or not at all and then closed; goroutines are counted before the call and after it (settle loop of one second, library frames confirmed on the stacks); a goroutine left behind, a panic, (nil, nil) or a hang is a violation, the case descriptor is the replay", robC05gRun)
	addRun("C05", "allocation budget of cross-reference streams with arithmetically hostile /Index arrays: subsection sizes that sum to a multiple of 2^32 or 2^31 or just above ([0 16777216] x 256, x 512, x 128, [0 1048576] x 4096, plus 5 / 8192 / 8193), hundreds of repeated and overlapping subsections, single values at the uint32 and int64 boundaries, over a body of 2 (thorough 6) million all-zero entries in a few kilobytes on disk, and control files within the budget that must open; NewReader in each ErrorHandling mode, growth of runtime.MemStats.TotalAlloc against 32 MiB + 128 bytes x limits.MaxXRefEntries(rawLen) + 1024 x rawLen; allocation beyond that, a panic, a hang or a refused control is a violation, the descriptor (index spec, body entries, /Size, mode) is the replay", robC05iRun)
	addReplay("C05", "c05g", replayC05g)
	addReplay("C05", "c05i", replayC05i)
	addReplay("C05", "c05w", replayC05w)
	addReplay("C05", "c05", replayC05)
	addReplay("C05", "filterchain", replayFilterChain)
	addReplay("C05", "scan", replayScan)
	addReplay("C05", "resolve", replayResolve)

	addRun("C19", "ReadObject under ALL-k faults: every text of a corpus of objects (all token kinds, escapes, '#' names, nesting, references, stream dictionaries) through readers serving 1 or 3 bytes per call and failing from/at call k for every k (lines 'ROB scan … o', modes f/o), compared with the buffer-level parser model Model/ROBScanObj.lean; oracle (theorem readObject_fault): the fault-free result or the injected error", robObjFaultRun)
	addRun("C19", "scanner buffer under readers that fail from call k on / only at call k, with 0..n bytes delivered together with the error (lines 'ROB scan', modes f/o), compared with Model/ROBScanBuf; oracle: every call returns the fault-free result or the injected error", func(c *Ctx) { robScanRun(c, true) })
	addRun("C19", "error trees (sentinels, *MalformedFileError, %w wrappers, opaque errors) through Wrap^n, IsMalformed, errors.Is, Optional, IsReadError (lines 'ROB err'); scripted raw readers and scripted filter layers above the real sourceErrChecker/sourceAwareReader (lines 'ROB chain'); oracles: Wrap preserves class, Optional hides only malformed errors, the source's first error wins", robErrRun)
	addRun("C19", "documents from the real Writer (xref tables / xref streams + object streams, six filter chains, RC4/AES encryption with empty and non-empty user password, page tree) opened by NewReader or SequentialScan+MakeReader in a random ErrorHandling mode, then Get of every object, DecodeStream+ReadAll of every stream, page tree walk: EVERY ReadAt index k of the fault-free session x {fail from k on, fail only k, short read with error only at k, from k on}; a case is non-trivial when the fault was reached; oracle: every step equals the fault-free step or returns an error that errors.Is the injected error and is not IsMalformed", robC19ReadRun)
	addRun("C19", "the same documents written through a sink whose k-th Write/Seek fails (from k on / only k / short write), EVERY k, seekable and non-seekable sinks; oracle: some Writer call up to Close returns an error that errors.Is the sink's error", robC19WriteRun)
	addRun("C19", "the closure shouldExit of NewReader and MakeReader observed through the decoding of the Info dictionary (made malformed by a same-length byte patch, or hit by an I/O fault below ExtractInfo) in all three ErrorHandling modes (lines 'ROB exit'), compared with Model/ROBErr.shouldExit", robExitRun)
	addRun("C19", "bufio.Writer (buffer sizes 1..4096) over scripted sinks that fail or write short at chosen calls, sequences of Write calls and the final Flush (lines 'ROB sink'), compared with Model/ROBSink (validates the model of the standard library that sink_fault is proved over)", robSinkRun)
	addReplay("C19", "c19read", replayC19Read)
	addReplay("C19", "c19write", replayC19Write)
	addReplay("C19", "scan", replayScan)
	addReplay("C19", "erralgebra", replayErr)
	addReplay("C19", "chain", replayChain)
}

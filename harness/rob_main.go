package main

// Registration of the robustness work package (driver key ROB): properties
// C05 (arbitrary bytes never crash, hang, leak or explode) and C19 (I/O
// faults surface as I/O faults).

func init() {
	addRun("C05", "scanner buffer on token soups and long runs across the 1024-byte window under chunked readers, three quarters fault-free and one quarter failing from/at call k (lines 'ROB scan'), compared with Model/ROBScanBuf; hang/panic of a scanner call is a violation", func(c *Ctx) { robScanRun(c, false) })
	addRun("C05", "Resolve over scripted object graphs (chains up to 300 references, cycles, failing Get; lines 'ROB resolve') compared with Model/ROBErr.resolveLoop; more than MaxExtractDepth Get calls is a violation", robResolveRun)
	addRun("C05", c05Rule, robC05Run)
	addRun("C05", "targeted whole files: Writer output that ENDS inside a cross-reference table (every cut position in the first two entries), right after an object header or inside the header line; same walk and oracle as the mutation run", robC05xRun)
	addRun("C05", "GetFilters on /Filter arrays of 1..40 names: more than maxFilterChainLength (8, documented cap) must be refused", robFilterChainRun)
	addRun("C05", "EXHAUSTIVE token sequences up to length 8 (array body) / 6 (dictionary value) over {integer, R, name} read by ReadObject (lines 'ROB scan … o'), compared with Model/Scan; a panic is a violation", robTokenSeqRun)
	addRun("C05", "linked structures x graph shapes x walkers: page tree, name tree, number tree and outline rendered from 12 graph families (chain, child listed twice/thrice, child+grandchild, lattice, self loop, 2-cycle, back edge, fan, random DAG, random graph) of depth 1..40 (thorough ..300); pagetree.Iterator/FindPages, nametree and numtree FromFile.All/Lookup/ExtractInMemory/Size, outline.Decode run over a metering Getter; more than 64*objects+256 object fetches, a panic or a hang is a violation", robC05wRun)
	addReplay("C05", "c05w", replayC05w)
	addReplay("C05", "c05", replayC05)
	addReplay("C05", "filterchain", replayFilterChain)
	addReplay("C05", "scan", replayScan)
	addReplay("C05", "resolve", replayResolve)

	addRun("C19", "scanner buffer under readers that fail from call k on / only at call k, with 0..n bytes delivered together with the error (lines 'ROB scan', modes f/o), compared with Model/ROBScanBuf; oracle: every call returns the fault-free result or the injected error", func(c *Ctx) { robScanRun(c, true) })
	addRun("C19", "error trees (sentinels, *MalformedFileError, %w wrappers, opaque errors) through Wrap^n, IsMalformed, errors.Is, Optional, IsReadError (lines 'ROB err'); scripted raw readers and scripted filter layers above the real sourceErrChecker/sourceAwareReader (lines 'ROB chain'); oracles: Wrap preserves class, Optional hides only malformed errors, the source's first error wins", robErrRun)
	addRun("C19", "documents from the real Writer (xref tables / xref streams + object streams, six filter chains, RC4/AES encryption with empty and non-empty user password, page tree) opened by NewReader or SequentialScan+MakeReader in a random ErrorHandling mode, then Get of every object, DecodeStream+ReadAll of every stream, page tree walk: EVERY ReadAt index k of the fault-free session x {fail from k on, fail only k, short read with error only at k, from k on}; a case is non-trivial when the fault was reached; oracle: every step equals the fault-free step or returns an error that errors.Is the injected error and is not IsMalformed", robC19ReadRun)
	addRun("C19", "the same documents written through a sink whose k-th Write/Seek fails (from k on / only k / short write), EVERY k, seekable and non-seekable sinks; oracle: some Writer call up to Close returns an error that errors.Is the sink's error", robC19WriteRun)
	addRun("C19", "the closure shouldExit of NewReader and MakeReader observed through the decoding of the Info dictionary (made malformed by a same-length byte patch, or hit by an I/O fault below ExtractInfo) in all three ErrorHandling modes (lines 'ROB exit'), compared with Model/ROBErr.shouldExit", robExitRun)
	addRun("C19", "bufio.Writer (buffer sizes 1..4096) over scripted sinks that fail or write short at chosen calls, sequences of Write calls and the final Flush (lines 'ROB sink'), compared with Model/ROBSink (validates the model of the standard library that sink_fault is proved over)", robSinkRun)
	addReplay("C19", "c19read", replayC19Read)
	addReplay("C19", "c19write", replayC19Write)
	addReplay("C19", "scan", replayScan)
	addReplay("C19", "erralgebra", replayErr)
	addReplay("C19", "chain", replayChain)
}

package main

import (
	"fmt"
	"runtime"
	"runtime/metrics"
	"strings"
	"time"
	"unsafe"
	"weak"

	"bytes"
	"io"

	"seehuhn.de/go/membudget"
	"seehuhn.de/go/pdf"
	"seehuhn.de/go/pdf/graphics/bitmap"
)

// ---- C08: JBIG2 decoder memory stays within the stream budget ----
//
// Structured streams (built with the library's internal segment encoders through the verif
// hook): page information, a symbol dictionary with large symbols, then several rounds of
// [intermediate generic region of about the symbol size (stays alive), optionally a further
// symbol dictionary (stays alive), text region with SBREFINE=1 whose instances mix RI=0
// (dictionary symbol placed as it is) and RI=1 (refined copy, a temporary)] — Huffman coded
// (SBHUFF=1) and arithmetic coded.
//
// Measured in the child, per case:
//   budget     the documented stream budget 8 MiB + min(1024 x input, 256 MiB) handed to Decode
//   accounted  what the decoder charged (budget - Available() afterwards)
//   heap       peak of the really retained heap above the baseline (HeapAlloc right after a
//              forced GC, sampled by a goroutine and at every pool event)
//   ledger     pool events (hook): every freeBitmap must name a bitmap that was allocated, not yet
//              freed, and that is unreachable a few events later (weak pointer after GC); the
//              pool's live counter must equal the sum of the ledger
// Violations: heap > budget + slack (memory beyond the budget), heap > accounted + slack (the
// accounting lies), any ledger inconsistency.

const fbPoolSlack = 2 << 20

type fbPoolSpec struct {
	w, h      int
	rounds    int
	huff      bool
	ri        int // 0 mixed, 1 all RI=0, 2 all RI=1
	generic   bool
	extraDict bool
	insts     int
}

func (s fbPoolSpec) String() string {
	return fmt.Sprintf("%dx%d rounds=%d huff=%v ri=%d generic=%v extradict=%v insts=%d", s.w, s.h, s.rounds, s.huff, s.ri, s.generic, s.extraDict, s.insts)
}

func fbSparse(w, h int, seed int) *bitmap.Bitmap {
	bm := bitmap.New(w, h)
	for y := seed % 97; y < h; y += 4099 {
		bm.SetPixel((y+seed)%w, y, true)
	}
	return bm
}

func (s fbPoolSpec) build() (page []byte, err error) {
	defer func() {
		if p := recover(); p != nil {
			err = fmt.Errorf("encoder panic: %v", p)
		}
	}()
	var out []byte
	seg := func(num uint32, typ int, refs []uint32, data []byte) {
		out = pdf.VerifJBIG2SegmentHeader(out, num, typ, 1, refs, uint32(len(data)))
		out = append(out, data...)
	}
	seg(0, 48, nil, pdf.VerifJBIG2PageInfo(nil, s.w, s.h))
	syms := []*bitmap.Bitmap{fbSparse(s.w, s.h, 1), fbSparse(s.w, s.h, 2)}
	seg(1, 0, nil, pdf.VerifJBIG2SymbolDict(syms, 0))
	num := uint32(2)
	for r := 0; r < s.rounds; r++ {
		if s.generic {
			seg(num, 36, nil, pdf.VerifJBIG2GenericRegion(fbSparse(s.w, s.h, 10+r), 0, 0, 0, bitmap.CombOpOR, false, false))
			num++
		}
		if s.extraDict {
			seg(num, 0, nil, pdf.VerifJBIG2SymbolDict([]*bitmap.Bitmap{fbSparse(s.w, s.h, 50+r)}, 0))
			num++
		}
		var insts []pdf.VerifJBIG2SymbolInstance
		for i := 0; i < s.insts; i++ {
			in := pdf.VerifJBIG2SymbolInstance{SymID: i % 2, T: i, S: 0, Wi: s.w, Hi: s.h}
			refined := s.ri == 2 || (s.ri == 0 && i%2 == 1)
			if refined {
				in.Bitmap = fbSparse(s.w, s.h, 100+r+i)
			}
			insts = append(insts, in)
		}
		var data []byte
		if s.huff {
			data, err = pdf.VerifJBIG2TextRegionHuffman(s.w, s.h, 0, 0, insts, syms, 1, false, bitmap.CombOpOR, 1, 0, 0)
			if err != nil {
				return nil, err
			}
		} else {
			data = pdf.VerifJBIG2TextRegion(s.w, s.h, 0, 0, insts, syms, 1, false, bitmap.CombOpOR, 1, 0, 0)
		}
		seg(num, 6, []uint32{1}, data)
		num++
	}
	seg(num, 49, nil, nil)
	return out, nil
}

// trueRetained: bytes that are alive at the end of the last round if nothing is credited wrongly
// (page + dictionary + per round the intermediate region and the extra dictionary).
func (s fbPoolSpec) trueRetained() int {
	b := (s.w + 7) / 8 * s.h
	per := 0
	if s.generic {
		per += b
	}
	if s.extraDict {
		per += b
	}
	return b*3 + s.rounds*per
}

func fbPoolSpecs(r *Rand, thorough bool) []fbPoolSpec {
	var specs []fbPoolSpec
	// quick: 256 KiB bitmaps (1 x 2^18), 2 and 16 rounds; thorough: up to 1 MiB bitmaps and square
	// symbols, 1..16 rounds
	type grid struct {
		w, h   int
		rounds []int
	}
	grids := []grid{{1, 1 << 18, []int{2, 16}}}
	if thorough {
		grids = []grid{{1, 1 << 18, []int{2, 8, 16}}, {1, 1 << 20, []int{16}}, {1024, 1024, []int{16}}, {3, 300000, []int{8}}}
	}
	for _, g := range grids {
		for _, n := range g.rounds {
			for _, huff := range []bool{true, false} {
				for ri := 0; ri < 3; ri++ {
					if !thorough && ri != 0 && n != 16 {
						continue
					}
					s := fbPoolSpec{w: g.w, h: g.h, rounds: n, huff: huff, ri: ri, generic: true, insts: 3 + r.Intn(2)}
					specs = append(specs, s)
					if ri == 0 && (thorough || n == 16) {
						s2 := s
						s2.extraDict = true
						s2.generic = r.Bool()
						specs = append(specs, s2)
					}
				}
			}
		}
	}
	return specs
}

// ---- measurement in the child ----

type fbLedgerEntry struct {
	n     int
	freed bool
	at    int
	wp    weak.Pointer[byte]
}

type fbPoolMeter struct {
	base      uint64
	peakHeap  uint64
	events    int
	live      int                        // ledger: bitmaps
	liveSmall int                        // ledger: int and pointer slices
	entries   map[uintptr]*fbLedgerEntry // keyed by address as an integer: the ledger must not keep bitmaps alive
	freedList []*fbLedgerEntry
	poolPeak  int
	problems  []string
	lastGC    int
}

// fbLiveHeap: bytes of heap objects found alive by a garbage collection that is run now
// (runtime/metrics /gc/heap/live:bytes: what the last completed GC marked; unlike HeapAlloc it does
// not include what was allocated since, so a descheduled sampler cannot over-read).
func fbLiveHeap() uint64 {
	runtime.GC()
	s := []metrics.Sample{{Name: "/gc/heap/live:bytes"}}
	metrics.Read(s)
	if s[0].Value.Kind() == metrics.KindUint64 {
		return s[0].Value.Uint64()
	}
	var ms runtime.MemStats
	runtime.ReadMemStats(&ms)
	return ms.HeapAlloc
}

func (m *fbPoolMeter) sample() {
	if h := fbLiveHeap(); h > m.peakHeap {
		m.peakHeap = h
	}
}

func (m *fbPoolMeter) problem(format string, a ...any) {
	if len(m.problems) < 4 {
		m.problems = append(m.problems, fmt.Sprintf(format, a...))
	}
}

func (m *fbPoolMeter) hook(ev byte, id unsafe.Pointer, n, live, peak int) {
	m.events++
	switch ev {
	case 'A':
		if e := m.entries[uintptr(id)]; e != nil && !e.freed {
			m.problem("event %d: a bitmap of %d bytes that was never released has been garbage collected (its address is in use again): its bytes stay charged", m.events, e.n)
		}
		m.entries[uintptr(id)] = &fbLedgerEntry{n: n, at: m.events}
		m.live += n
	case 'F':
		e := m.entries[uintptr(id)]
		switch {
		case e == nil:
			m.problem("event %d: freeBitmap of a bitmap the pool never allocated (%d bytes)", m.events, n)
		case e.freed:
			m.problem("event %d: bitmap of %d bytes freed twice (first at event %d)", m.events, n, e.at)
		default:
			if e.n != n {
				m.problem("event %d: %d bytes charged, %d released", m.events, e.n, n)
			}
			e.freed, e.at = true, m.events
			e.wp = weak.Make((*byte)(id))
			m.freedList = append(m.freedList, e)
			m.live -= n
		}
	case 'a':
		m.liveSmall += n
	case 'f':
		m.liveSmall -= n
	}
	if live != m.live+m.liveSmall {
		m.problem("event %d (%c): the pool's live counter is %d, the ledger has %d", m.events, ev, live, m.live+m.liveSmall)
	}
	if peak > m.poolPeak {
		m.poolPeak = peak
	}
	// retained heap and reachability of released bitmaps (a forced GC: only on bitmap events, at
	// most every second one)
	if (ev == 'A' || ev == 'F') && m.events-m.lastGC >= 2 {
		m.lastGC = m.events
		m.sample()
		keep := m.freedList[:0]
		for _, e := range m.freedList {
			if m.events-e.at < 3 {
				keep = append(keep, e)
				continue
			}
			if e.wp.Value() != nil {
				m.problem("a bitmap of %d bytes released at event %d is still referenced at event %d (its bytes were credited back to the pool while the memory stays alive)", e.n, e.at, m.events)
			}
		}
		m.freedList = keep
	}
}

// fbChildPoolCase runs one memory-measured JBIG2 case.
func fbChildPoolCase(kind string, body []byte, useLedger bool) (word string, n int, detail string) {
	defer func() {
		if p := recover(); p != nil {
			word, detail = "panic", strings.ReplaceAll(fmt.Sprint(p), "\n", " ")
		}
	}()
	total := fbStreamBudgetOf(len(body))
	budget := membudget.New(total)
	m := &fbPoolMeter{entries: map[uintptr]*fbLedgerEntry{}}
	m.base = fbLiveHeap()
	if useLedger {
		pdf.VerifJBIG2SetPoolHook(m.hook)
		defer pdf.VerifJBIG2SetPoolHook(nil)
	}
	// independent sampler (works without the hook)
	stop, done := make(chan struct{}), make(chan uint64)
	go func() {
		var peak uint64
		t := time.NewTicker(2 * time.Millisecond)
		defer t.Stop()
		for {
			select {
			case <-stop:
				done <- peak
				return
			case <-t.C:
				peak = max(peak, fbLiveHeap())
			}
		}
	}()
	word = "data"
	var f pdf.Filter = &pdf.FilterJBIG2{}
	if kind == "dctmem" {
		f = pdf.FilterDCT{}
	}
	rd, err := f.Decode(pdf.V2_0, bytes.NewReader(body), budget)
	if err != nil {
		word, detail = "other", err.Error()
		if pdf.IsMalformed(err) {
			word = "malformed"
		}
	} else {
		buf := make([]byte, 1<<16)
		for {
			k, err := rd.Read(buf)
			n += k
			if err != nil {
				if err != io.EOF {
					word, detail = "other", err.Error()
					if pdf.IsMalformed(err) {
						word = "malformed"
					}
				}
				break
			}
			if n > fbChildReadBudget {
				word = "budget"
				break
			}
		}
		rd.Close()
	}
	close(stop)
	sampled := <-done
	peak := max(sampled, m.peakHeap)
	heap := int64(0)
	if peak > m.base {
		heap = int64(peak - m.base)
	}
	accounted := total - budget.Available()
	detail = fmt.Sprintf("budget=%d accounted=%d heap=%d poolpeak=%d events=%d %s", total, accounted, heap, m.poolPeak, m.events, strings.ReplaceAll(detail, "\n", " "))
	switch {
	case len(m.problems) > 0:
		word = "ledger"
		detail = strings.Join(m.problems, "; ") + " | " + detail
	case heap > total+fbPoolSlack:
		word = "overbudget"
	case heap > accounted+fbPoolSlack:
		word = "accounting"
	}
	return word, n, detail
}

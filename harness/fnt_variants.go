package main

// C14 (FNT) — font variants with special advance widths, derived in the harness
// from the repository's own test fonts (the bundled fonts have no zero-advance
// glyphs): the advance of a few USED glyphs is patched in the font program
// (hmtx / CFF charstring width / Type 1 hsbw + AFM / Type 3 d0) to
//
//	0 (with DW / MissingWidth != 0: combining accents), exactly the notdef
//	width (= DW / MissingWidth candidates), 1 unit, a very large value,
//
// or every glyph gets the same width.  Simple and composite kinds, the
// composite ones with the sequential (identity-like) and with ROS-based CID
// mappings.  The end-to-end oracle is unchanged: the reader-side width per
// code equals the glyph's advance — an explicit W / Widths entry of 0 must be
// honoured, not replaced by DW / MissingWidth — and writer and reader agree.

import (
	"fmt"
	"strings"

	"seehuhn.de/go/geom/matrix"
	"seehuhn.de/go/pdf"
	"seehuhn.de/go/pdf/font"
	"seehuhn.de/go/pdf/font/cff"
	"seehuhn.de/go/pdf/font/cmap"
	"seehuhn.de/go/pdf/font/encoding/cidenc"
	"seehuhn.de/go/pdf/font/opentype"
	"seehuhn.de/go/pdf/font/truetype"
	"seehuhn.de/go/pdf/font/type1"
	"seehuhn.de/go/pdf/font/type3"
	"seehuhn.de/go/pdf/font/verifhook"
	"seehuhn.de/go/pdf/graphics/content"
	"seehuhn.de/go/pdf/graphics/content/builder"
	"seehuhn.de/go/postscript/funit"
	"seehuhn.de/go/postscript/type1/names"
	"seehuhn.de/go/sfnt"
	sfntcff "seehuhn.de/go/sfnt/cff"
	"seehuhn.de/go/sfnt/glyf"
)

// the characters whose glyphs are patched, and the class of width each gets in the "mix" pattern
const fntPatchRunes = "abcdefghijABCDEFGHIJ .,"

// fntPatchedWidth: the patched advance of the i-th patch character; ok=false leaves the glyph alone.
// notdef is the advance of glyph 0, huge a very large advance, all in the units of the font program.
func fntPatchedWidth(pattern string, i int, orig, notdef, huge float64) (float64, bool) {
	switch pattern {
	case "zero":
		if i%2 == 0 {
			return 0, true
		}
		return orig, false
	case "mono":
		return notdef, true
	default: // mix
		switch i % 5 {
		case 0:
			return 0, true
		case 1:
			return notdef, true
		case 2:
			return 1, true
		case 3:
			return huge, true
		}
		return orig, false
	}
}

// fntPatchSfnt patches hmtx (glyf outlines) or the charstring widths (CFF outlines).
func fntPatchSfnt(info *sfnt.Font, pattern string) error {
	lookup, err := info.CMapTable.GetBest()
	if err != nil {
		return err
	}
	switch o := info.Outlines.(type) {
	case *glyf.Outlines:
		notdef := float64(o.Widths[0])
		if pattern == "mono" {
			for g := range o.Widths {
				o.Widths[g] = funit.Uint16(notdef)
			}
			return nil
		}
		for i, r := range fntPatchRunes {
			gid := lookup.Lookup(r)
			if gid == 0 || int(gid) >= len(o.Widths) {
				continue
			}
			if w, ok := fntPatchedWidth(pattern, i, float64(o.Widths[gid]), notdef, 30000); ok {
				o.Widths[gid] = funit.Uint16(w)
			}
		}
	case *sfntcff.Outlines:
		notdef := o.Glyphs[0].Width
		if pattern == "mono" {
			for _, g := range o.Glyphs {
				g.Width = notdef
			}
			return nil
		}
		for i, r := range fntPatchRunes {
			gid := lookup.Lookup(r)
			if gid == 0 || int(gid) >= len(o.Glyphs) {
				continue
			}
			if w, ok := fntPatchedWidth(pattern, i, o.Glyphs[gid].Width, notdef, 30000); ok {
				o.Glyphs[gid].Width = w
			}
		}
	default:
		return fmt.Errorf("unknown outlines %T", info.Outlines)
	}
	return nil
}

func fntROSMapping(info *sfnt.Font, identityCMap string) (func() cmap.GIDToCID, error) {
	lookup, err := info.CMapTable.GetBest()
	if err != nil {
		return nil, err
	}
	cm, err := cmap.Predefined(identityCMap)
	if err != nil {
		return nil, err
	}
	return func() cmap.GIDToCID { return cmap.NewGIDToCIDFromROS(cm.ROS, lookup) }, nil
}

// fntType3Variant builds a small Type 3 font (rectangles) whose glyph widths follow the pattern.
func fntType3Variant(pattern string) (font.Layouter, error) {
	return fntType3Font(pattern, "VerifWidths", 0.001)
}

// fntType3Font builds a small Type 3 font (rectangles).  pattern "frac": widths that are not
// whole numbers in the glyph space given by scale (FontMatrix = [scale 0 0 scale 0 0]);
// pattern "dingbats": glyphs named a1, a2, … of the ZapfDingbats glyph list.
func fntType3Font(pattern, psName string, scale float64) (font.Layouter, error) {
	fnt := &type3.Font{
		Glyphs:         []*type3.Glyph{{}},
		PostScriptName: psName,
		FontMatrix:     matrix.Matrix{scale, 0, 0, scale, 0, 0},
		Ascent:         0.8 / scale, Descent: -0.2 / scale, Leading: 1.2 / scale, CapHeight: 0.7 / scale, XHeight: 0.5 / scale,
	}
	type gl struct {
		name string
		w    float64
	}
	var glyphs []gl
	switch pattern {
	case "dingbats":
		for i := 1; i <= 40; i++ {
			n := fmt.Sprintf("a%d", i)
			if len([]rune(names.ToUnicode(n, psName))) == 1 {
				glyphs = append(glyphs, gl{n, float64(500 + 10*i)})
			}
		}
	default:
		for i, r := range "abcdefghijklmnopqrstuvwxyzABCDEFGHIJKLMNOPQRSTUVWXYZ" {
			w := float64(400 + 13*i)
			switch {
			case pattern == "frac":
				// e.g. scale 0.1: 2.5, 3.37, 4.24 … glyph-space units
				w = (0.25 + 0.087*float64(i)) / scale
			case pattern == "mono":
				w = 600
			default:
				if pw, ok := fntPatchedWidth(pattern, i, w, 500, 15000); ok {
					w = pw
				}
			}
			glyphs = append(glyphs, gl{names.FromUnicode(string(r)), w})
		}
	}
	for _, g := range glyphs {
		b := builder.New(content.Glyph, nil, pdf.V2_0)
		b.Type3UncoloredGlyph(g.w, 0, 0, 0, 0.3/scale, 0.7/scale)
		b.Rectangle(0, 0, 0.3/scale, 0.7/scale)
		b.Fill()
		stream, err := b.Harvest()
		if err != nil {
			return nil, err
		}
		fnt.Glyphs = append(fnt.Glyphs, &type3.Glyph{Name: g.name, Content: stream})
	}
	return fnt.New()
}

// fntSpecialType3Kinds: Type 3 fonts whose glyph space is not 1/1000 em and whose widths are not
// whole numbers in it (audit finding 1), and a Type 3 font called "ZapfDingbats" with the glyph
// names of that font's own glyph list (audit finding 2).
func fntSpecialType3Kinds() []fntKind {
	return []fntKind{
		{label: "W/type3-fm0.1/frac", mk: func() (font.Layouter, error) { return fntType3Font("frac", "VerifFrac", 0.1) }},
		{label: "W/type3-fm1/frac", mk: func() (font.Layouter, error) { return fntType3Font("frac", "VerifFracUnit", 1) }},
		{label: "W/type3-fm2048/frac", mk: func() (font.Layouter, error) { return fntType3Font("frac", "VerifFrac2048", 1.0/2048) }},
		{label: "W/type3-dingbats/names", mk: func() (font.Layouter, error) { return fntType3Font("dingbats", "ZapfDingbats", 0.001) }},
	}
}

func fntWidthKinds() []fntKind {
	var out []fntKind
	for _, pattern := range []string{"mix", "zero", "mono"} {
		pattern := pattern
		add := func(tag string, composite, identity bool, mk func() (font.Layouter, error)) {
			out = append(out, fntKind{label: "W/" + tag + "/" + pattern, composite: composite, identity: identity, mk: mk,
				mayRefuse: identity && strings.Contains(tag, "-ros")})
		}
		sf := func(base func() *sfnt.Font) (*sfnt.Font, error) {
			info := base()
			return info, fntPatchSfnt(info, pattern)
		}
		add("tt-simple", false, false, func() (font.Layouter, error) {
			info, err := sf(verifhook.TrueType)
			if err != nil {
				return nil, err
			}
			return truetype.NewSimple(info, nil)
		})
		add("cff-simple", false, false, func() (font.Layouter, error) {
			info, err := sf(verifhook.OpenType)
			if err != nil {
				return nil, err
			}
			return cff.NewSimple(info, nil)
		})
		add("otcff-simple", false, false, func() (font.Layouter, error) {
			info, err := sf(verifhook.OpenType)
			if err != nil {
				return nil, err
			}
			return opentype.NewSimple(info, nil)
		})
		add("otglyf-simple", false, false, func() (font.Layouter, error) {
			info, err := sf(verifhook.TrueType)
			if err != nil {
				return nil, err
			}
			return opentype.NewSimple(info, nil)
		})
		add("tt-composite", true, true, func() (font.Layouter, error) {
			info, err := sf(verifhook.TrueType)
			if err != nil {
				return nil, err
			}
			return truetype.NewComposite(info, nil)
		})
		add("cff-composite", true, true, func() (font.Layouter, error) {
			info, err := sf(verifhook.OpenType)
			if err != nil {
				return nil, err
			}
			return cff.NewComposite(info, nil)
		})
		add("cffcid2-composite-utf8", true, false, func() (font.Layouter, error) {
			info, err := sf(verifhook.OpenTypeCID2)
			if err != nil {
				return nil, err
			}
			return cff.NewComposite(info, &cff.OptionsComposite{MakeEncoder: cidenc.NewCompositeUtf8})
		})
		add("tt-composite-rosJapan1", true, true, func() (font.Layouter, error) {
			info, err := sf(verifhook.TrueType)
			if err != nil {
				return nil, err
			}
			g, err := fntROSMapping(info, "Adobe-Japan1-7")
			if err != nil {
				return nil, err
			}
			return truetype.NewComposite(info, &truetype.OptionsComposite{MakeGIDToCID: g})
		})
		add("cff-composite-rosGB1", true, true, func() (font.Layouter, error) {
			info, err := sf(verifhook.OpenType)
			if err != nil {
				return nil, err
			}
			g, err := fntROSMapping(info, "Adobe-GB1-5")
			if err != nil {
				return nil, err
			}
			return cff.NewComposite(info, &cff.OptionsComposite{MakeGIDToCID: g})
		})
		add("otcff-composite-rosKorea1-utf8", true, false, func() (font.Layouter, error) {
			info, err := sf(verifhook.OpenType)
			if err != nil {
				return nil, err
			}
			g, err := fntROSMapping(info, "Adobe-Korea1-2")
			if err != nil {
				return nil, err
			}
			return opentype.NewComposite(info, &opentype.OptionsComposite{MakeGIDToCID: g, MakeEncoder: cidenc.NewCompositeUtf8})
		})
		for _, withAFM := range []bool{true, false} {
			withAFM := withAFM
			tag := "type1-noafm"
			if withAFM {
				tag = "type1-afm"
			}
			add(tag, false, false, func() (font.Layouter, error) {
				ps := verifhook.Type1()
				metrics := verifhook.AFM()
				notdef := 0.0
				if g, ok := ps.Glyphs[".notdef"]; ok {
					notdef = g.WidthX
				}
				q := ps.FontMatrix[0] * 1000 // AFM widths are in 1/1000 em, the font's in its own units
				i := 0
				for _, r := range fntPatchRunes {
					name := names.FromUnicode(string(r))
					g, ok := ps.Glyphs[name]
					if !ok {
						continue
					}
					if w, ok := fntPatchedWidth(pattern, i, g.WidthX, notdef, 30000); ok {
						g.WidthX = w
						if gi, ok := metrics.Glyphs[name]; ok {
							gi.WidthX = w * q
						}
					}
					i++
				}
				if pattern == "mono" {
					for name, g := range ps.Glyphs {
						g.WidthX = notdef
						if gi, ok := metrics.Glyphs[name]; ok {
							gi.WidthX = notdef * q
						}
					}
				}
				if !withAFM {
					metrics = nil
				}
				return type1.New(ps, metrics)
			})
		}
		add("type3", false, false, func() (font.Layouter, error) { return fntType3Variant(pattern) })
	}
	return out
}

package main

import (
	"bytes"
	"fmt"
	"io"
	"sort"
	"strconv"
	"strings"

	"seehuhn.de/go/pdf"
)

// C20 — a truncated or xref-damaged file still gives up every complete object.

func init() {
	addRun("C20", "documents written by the real Writer without object streams, on non-seekable and seekable sinks (versions 1.2-2.0, human-readable or compact, xref table or xref stream, random object trees, streams with short and long bodies, direct and indirect /Length; bodies free of line-initial markers); random small documents with EVERY truncation offset 0..len and every single-byte and whole-range overwrite, plus documents with 1/9/10/11/25/40 streams of >= 1 KiB whose /Length is an indirect object behind the stream (mixed with short streams and plain objects; bodies with endobj, endstream, object headers in mid-line, with lines that START with endstream (known finding scan-stream-broken-by-endstream-line-in-data when the length object is cut off), and ending in LF, CR LF, LF LF, CR CR LF — which must come back from EOL+endstream when the length object is cut off; delimited only by /Length are bodies ending in a bare CR and bodies in which endobj occurs behind a line starting with endstream) cut at every object boundary +-2 and sampled interior offsets (all offsets in thorough), ; documents with a filler object of 0..1100 bytes in front of small trailing objects, cut at every offset within 80 bytes of a multiple of 1024; every offset up to 80 bytes behind each object is a cut; documents with marker-like text (N G obj, a chopped N G obj, xref, trailer, startxref, %%EOF) in the MIDDLE of a line of a 3 kB stream body, its first byte at every file offset 960k-2..960k+2 (k=1..3; thorough: every offset of the first 2400 body bytes) where scanner.Find restarts its search, cut at every object end: nothing may be recorded at an offset that is not the start of a line (objects, also Broken ones, and the xref/trailer/startxref/%%EOF positions of the sections); documents with object numbers 65535, 65536, 70000, 100001 (without cross-reference data also 2^24-2, 2^24-1) and generations 0, 1, 65535 written through Put(NewReference), without cross-reference data at every cut and complete with cuts at every object end and whole-range xref overwrites; and every single-byte and whole-range overwrite of the xref table lines / xref stream data / startxref value; SequentialScan must succeed when >=1 object is complete, list every complete object at its true offset not broken, Read must give the written value, listed incomplete objects must be Broken, MakeReader+Get must give the written values after xref damage. A case is one (document, cut) or (document, overwrite) pair; non-trivial when at least one object is complete; distinct by the damaged bytes.", runC20)
	addReplay("C20", "scan", replayC20)
}

// hisSink is an unbuffered sink (it implements Flush, so the Writer does not
// wrap it in a bufio.Writer): its length is the Writer's position.
type hisSink struct{ bytes.Buffer }

func (s *hisSink) Flush() error { return nil }

// hisSeekSink is the same with Seek: the Writer then patches /Length into the
// stream dictionary instead of writing an indirect length object.
type hisSeekSink struct {
	data []byte
	pos  int
}

func (s *hisSeekSink) Write(p []byte) (int, error) {
	if n := s.pos + len(p); n > len(s.data) {
		s.data = append(s.data, make([]byte, n-len(s.data))...)
	}
	copy(s.data[s.pos:], p)
	s.pos += len(p)
	return len(p), nil
}

func (s *hisSeekSink) Seek(off int64, whence int) (int64, error) {
	switch whence {
	case io.SeekStart:
		s.pos = int(off)
	case io.SeekCurrent:
		s.pos += int(off)
	case io.SeekEnd:
		s.pos = len(s.data) + int(off)
	}
	if s.pos < 0 || s.pos > len(s.data) {
		return 0, fmt.Errorf("seek out of range")
	}
	return int64(s.pos), nil
}

func (s *hisSeekSink) Flush() error  { return nil }
func (s *hisSeekSink) Len() int      { return len(s.data) }
func (s *hisSeekSink) Bytes() []byte { return s.data }

type hisDocSink interface {
	io.Writer
	Len() int
	Bytes() []byte
}

type hisWritten struct {
	ref    pdf.Reference
	start  int // offset of "N G obj"
	end    int // offset just after "endobj"
	val    string
	isXRef bool
	// needs >= 0: a stream whose body cannot be delimited without its /Length — it ends in a
	// bare CR (with the Writer's LF in front of endstream the file shows the ONE end-of-line
	// marker CR LF) or one of its lines starts with endstream and the word endobj occurs behind
	// that line (in the extreme the text of an object end) — and whose /Length is the indirect
	// object objs[needs]: the stream counts as completely written only together with that object
	needs int
	// nasty: a line of the body starts with endstream and endobj occurs behind it; when such a
	// stream is cut off, what is left may look like a complete (shorter) stream object
	nasty bool
	// trailEOL: a stream whose body ends in CR or LF
	trailEOL bool
	// innerEndstream: the body has a line that starts with endstream (and is not nasty)
	innerEndstream bool
	// data: offset of the first byte of the stream data (streams only)
	data int
	// lenObj >= 0: the index of the indirect /Length object of this stream in hisDoc.objs
	lenObj int
}

type hisDoc struct {
	bytes   []byte
	objs    []hisWritten
	xrefLo  int // the cross-reference data: table lines, or the data of the xref stream
	xrefHi  int
	sxLo    int // the digits after startxref
	sxHi    int
}

// marker-like texts for the middle of a line of stream data (m-documents); object 1 is the page
// tree node of every document
var hisMidTokens = []string{"1 0 obj 999 endobj", "123 0 obj", "xref", "trailer", "startxref", "%%EOF"}

var hisMarkerWords = []string{"obj", "xref", "trailer", "%%EOF", "endstream"}

func hisCleanBytes(b []byte) []byte {
	for _, w := range hisMarkerWords {
		for {
			i := bytes.Index(b, []byte(w))
			if i < 0 {
				break
			}
			b[i] = '_'
		}
	}
	return b
}

// hisCleanObj removes marker words from strings and names, and drops reals
// (their digits are strconv's, see C01) and nil arrays.
func hisCleanObj(o pdf.Object) pdf.Object {
	switch x := o.(type) {
	case pdf.String:
		return pdf.String(hisCleanBytes(append([]byte(nil), x...)))
	case pdf.Name:
		return pdf.Name(hisCleanBytes([]byte(x)))
	case pdf.Operator:
		return pdf.Integer(1)
	case pdf.Array:
		if x == nil {
			return pdf.Array{}
		}
		a := make(pdf.Array, len(x))
		for i, e := range x {
			a[i] = hisCleanObj(e)
		}
		return a
	case pdf.Dict:
		d := pdf.Dict{}
		keys := make([]string, 0, len(x))
		for k := range x {
			keys = append(keys, string(k))
		}
		sort.Strings(keys) // cleaned keys may collide: keep the result independent of map order
		for _, k := range keys {
			d[pdf.Name(hisCleanBytes([]byte(k)))] = hisCleanObj(x[pdf.Name(k)])
		}
		return d
	}
	return o
}

func hisStreamBody(r *Rand) []byte {
	n := r.Intn(60)
	switch r.Intn(6) {
	case 0:
		n = 0
	case 1:
		n = 1000 + r.Intn(200) // longer than the Writer's 1024-byte look-ahead: indirect /Length
	case 2:
		n = 1020 + r.Intn(8)
	}
	return hisTrailEOL(r, hisFillBody(r, n))
}

// hisTrailEOL: one body in three ends in LF, CR, CR LF or two EOLs (the exact bytes must come
// back whenever /Length is available)
func hisTrailEOL(r *Rand, b []byte) []byte {
	if r.P(1, 3) {
		b = append(b, Pick(r, []string{"\n", "\r", "\r\n", "\n\n", "\r\r\n", "x\n"})...)
	}
	return b
}

func hisFillBody(r *Rand, n int) []byte {
	b := make([]byte, n)
	mode := r.Intn(3)
	for i := range b {
		switch mode {
		case 0:
			b[i] = byte(r.U64())
		case 1:
			b[i] = Pick(r, []byte("abc \n\r01 R<>/()endstram"))
		default:
			b[i] = byte(0x20 + r.Intn(0x5f))
		}
	}
	b = hisCleanBytes(b)
	// no trailing EOL (C04's recoverability condition)
	for len(b) > 0 && (b[len(b)-1] == '\n' || b[len(b)-1] == '\r') {
		b[len(b)-1] = '.'
	}
	return b
}

// hisEmbed overwrites part of a clean body with keyword text.  Level 1: keywords that are
// harmless for a scanner which respects line starts and EOL+endstream ("endobj", "endstream"
// and object headers in the middle of a line).  Level 2: a line of the body starts with
// "endstream" (and the word "endobj" does not occur behind it): the real end of the stream is
// the EOL + endstream that is followed by endobj — the recovery stops at the first one (known
// finding scan-stream-broken-by-endstream-line-in-data).  Level 3 ("nasty"): a line starts with
// "endstream" and "endobj" follows somewhere behind it, e.g. the text of an object end — such a
// body can only be delimited by its /Length.
func hisEmbed(r *Rand, b []byte, level int) []byte {
	put := func(text string) {
		if len(b) < len(text)+4 {
			return
		}
		p := 1 + r.Intn(len(b)-len(text)-2)
		copy(b[p:], text)
		// keep the byte before the text from being an EOL unless the text brings its own
		if text[0] != '\n' && text[0] != '\r' && (b[p-1] == '\n' || b[p-1] == '\r') {
			b[p-1] = ' '
		}
	}
	for k := 1 + r.Intn(3); k > 0; k-- {
		put(Pick(r, []string{" endobj ", " endstream ", "xendstream\n", " 901 0 obj ", " 902 0 obj endobj ", " stream\n", "(trailer)", " startxref 5 %%EOF "}))
	}
	sanitize := func() {
		// overlapping texts must not produce a line-initial marker
		for i := 0; i+1 < len(b); i++ {
			if b[i] != '\n' && b[i] != '\r' {
				continue
			}
			c := b[i+1]
			if c >= '0' && c <= '9' {
				b[i+1] = 'd'
			}
			for _, w := range []string{"xref", "trailer", "startxref", "%%EOF"} {
				if bytes.HasPrefix(b[i+1:], []byte(w)) {
					b[i+1] = '_'
				}
			}
		}
	}
	sanitize()
	if level == 2 {
		for k := 1 + r.Intn(2); k > 0; k-- {
			put(Pick(r, []string{"\nendstream x ", "\r\nendstream\n903 0 R ", "\nendstream y", "\rendstream\rendob j", "\nendstream\n", "\nendstreamendobj "}))
		}
		sanitize()
		for hisHasObjectEnd(b) {
			// keep the body inside the quantifier: no endobj behind the first endstream line
			i := bytes.LastIndex(b, []byte("endobj"))
			b[i+5] = 'J'
		}
	}
	if level >= 3 {
		put(Pick(r, []string{"\rendstream\rendobjx", "\nendstream\nendobj\n", "\r\nendstream endobj ", "\nendstream\x00\t\n endobj"}))
		sanitize()
	}
	return b
}

// hisHasObjectEnd: a line of b starts with endstream and the word endobj occurs behind it (in the
// extreme the text of an object end, EOL endstream EOL endobj): without /Length such a body may
// read as a complete, shorter stream
func hisHasObjectEnd(b []byte) bool {
	i := bytes.Index(b, []byte("\nendstream"))
	if j := bytes.Index(b, []byte("\rendstream")); j >= 0 && (i < 0 || j < i) {
		i = j
	}
	return i >= 0 && bytes.Contains(b[i:], []byte("endobj"))
}

func hisHasEndstreamLine(b []byte) bool {
	return bytes.Contains(b, []byte("\nendstream")) || bytes.Contains(b, []byte("\rendstream"))
}

// hisBodyNeedsLength: the bodies outside the property's quantifier when /Length is lost
func hisBodyNeedsLength(b []byte) bool {
	if len(b) > 0 && b[len(b)-1] == '\r' {
		return true
	}
	return hisHasObjectEnd(b)
}

// document kinds: "r0"/"r1" random documents (as before, larger/smaller); "i<K>" K streams of
// >= 1 KiB on a non-seekable sink (each gets /Length N 0 R and a length object behind it), mixed
// with short streams and plain objects, bodies with embedded keywords; "i<K>s" the same on a
// seekable sink (the Writer patches a direct /Length).
func hisDocKinds(thorough bool) []string {
	return []string{"i1", "i9", "i10", "i11", "i40", "i10s", "i40s", "i25"}
}

// hisWriteDoc writes a document with the real Writer and records where every
// object went and what it was.
func hisWriteDoc(r *Rand, kind string) (doc *hisDoc, err error) {
	defer func() {
		if p := recover(); p != nil {
			err = fmt.Errorf("panic in Writer: %v", p)
		}
	}()
	nLong := -1
	seekable := false
	if strings.HasPrefix(kind, "i") {
		k := strings.TrimSuffix(kind[1:], "s")
		nLong, _ = strconv.Atoi(k)
		seekable = strings.HasSuffix(kind, "s")
	}
	pad := -1
	if strings.HasPrefix(kind, "p") {
		pad, _ = strconv.Atoi(kind[1:])
	}
	// "m<T>_<A>": the marker-like text hisMidTokens[T] in the middle of a line of a long stream
	// body, its first byte at the absolute file offset A ("m<T>_<A>@<o>" = at offset o of the body:
	// the first pass, which finds out where the body starts)
	mTok, mAbs, mOff := -1, 0, -1
	if strings.HasPrefix(kind, "m") {
		spec := kind[1:]
		if i := strings.Index(spec, "@"); i >= 0 {
			mOff, _ = strconv.Atoi(spec[i+1:])
			spec = spec[:i]
		}
		fmt.Sscanf(spec, "%d_%d", &mTok, &mAbs)
		if mOff < 0 {
			probe, err := hisWriteDoc(&Rand{s: r.s}, kind+"@40")
			if err != nil {
				return nil, err
			}
			at := -1
			for _, o := range probe.objs {
				if o.data > 0 && o.end-o.data > 2000 {
					at = o.data
				}
			}
			if at < 0 || mAbs-at < 2 {
				return nil, fmt.Errorf("his: m-document without room for offset %d (body at %d)", mAbs, at)
			}
			return hisWriteDoc(r, fmt.Sprintf("%s@%d", kind, mAbs-at))
		}
	}
	// "g<v>" / "G<v>": objects with large numbers (65535, 65536, 70000, 100001; G: also 2^24-2 and
	// 2^24-1, the largest below maxXRefSize) and generations 0, 1, 65535 (rotated by v), written
	// through Put with pdf.NewReference.  g: a complete document (its cross-reference data has
	// 100002 entries); G: the Writer is not closed (a file without any cross-reference data)
	gVar, unclosed := -1, false
	if kind[0] == 'g' || kind[0] == 'G' {
		gVar, _ = strconv.Atoi(kind[1:])
		unclosed = kind[0] == 'G'
	}
	small := kind == "r1" || kind == "1"
	versions := []pdf.Version{pdf.V1_2, pdf.V1_4, pdf.V1_7, pdf.V2_0, pdf.V1_5}
	v := Pick(r, versions)
	opt := &pdf.WriterOptions{HumanReadable: r.Bool()}
	if nLong >= 25 || pad >= 0 || mTok >= 0 || gVar >= 0 {
		opt.HumanReadable = false
	}
	if v >= pdf.V2_0 || r.P(1, 3) {
		// fixed by the seed (the Writer would draw it from crypto/rand otherwise)
		opt.ID = [][]byte{r.Bytes(16), r.Bytes(16)}
	}
	if mTok >= 0 {
		seekable = r.Bool()
	}
	var sink hisDocSink
	if seekable {
		sink = &hisSeekSink{}
	} else {
		sink = &hisSink{}
	}
	w, err := pdf.NewWriter(sink, v, opt)
	if err != nil {
		return nil, err
	}
	doc = &hisDoc{}
	addPlain := func(ref pdf.Reference, before int, val string) {
		data := sink.Bytes()
		hdr := fmt.Sprintf("%d %d obj\n", ref.Number(), ref.Generation())
		if !bytes.HasPrefix(data[before:], []byte(hdr)) {
			panic("his: Put did not start the object where the sink ended")
		}
		end := len(data)
		for end > 0 && data[end-1] == '\n' {
			end--
		}
		if !bytes.HasSuffix(data[:end], []byte("endobj")) {
			panic("his: Put did not end the object with endobj")
		}
		doc.objs = append(doc.objs, hisWritten{ref: ref, start: before, end: end, val: val, needs: -1, lenObj: -1})
	}
	addStream := func(ref pdf.Reference, before int, val string, body []byte) {
		data := sink.Bytes()
		hdr := fmt.Sprintf("%d %d obj\n<<", ref.Number(), ref.Generation())
		i := bytes.Index(data[before:], []byte(hdr))
		if i != 0 {
			panic("his: stream object does not start where the sink ended")
		}
		// the real terminator is the last one written by this call (bodies may contain the words)
		t := bytes.LastIndex(data[before:], []byte("\nendstream\nendobj\n"))
		if t < 0 {
			panic("his: stream terminator not found")
		}
		end := before + t + len("\nendstream\nendobj")
		rec := hisWritten{ref: ref, start: before, end: end, val: val, needs: -1, lenObj: -1, nasty: hisHasObjectEnd(body),
			trailEOL:       len(body) > 0 && (body[len(body)-1] == '\n' || body[len(body)-1] == '\r'),
			innerEndstream: hisHasEndstreamLine(body) && !hisHasObjectEnd(body),
			data:           before + bytes.Index(data[before:], []byte("stream\n")) + 7}
		doc.objs = append(doc.objs, rec)
		// an indirect length object follows directly
		rest := data[end:]
		trimmed := bytes.TrimLeft(rest, "\n")
		if len(trimmed) > 0 {
			var ln, lg, lv int
			if n, _ := fmt.Sscanf(string(trimmed), "%d %d obj\n%d\nendobj", &ln, &lg, &lv); n != 3 || lv != len(body) {
				panic(fmt.Sprintf("his: unexpected bytes after a stream: %q", truncate(string(trimmed))))
			}
			ls := end + (len(rest) - len(trimmed))
			le := ls + len(fmt.Sprintf("%d %d obj\n%d\nendobj", ln, lg, lv))
			if !bytes.Contains(data[before:before+t], []byte(fmt.Sprintf("/Length %d %d R", ln, lg))) {
				panic("his: the object after the stream is not its /Length")
			}
			doc.objs = append(doc.objs, hisWritten{ref: pdf.NewReference(uint32(ln), uint16(lg)), start: ls, end: le, val: fmt.Sprintf("i%d;", lv), needs: -1, lenObj: -1})
			doc.objs[len(doc.objs)-2].lenObj = len(doc.objs) - 1
			if hisBodyNeedsLength(body) {
				doc.objs[len(doc.objs)-2].needs = len(doc.objs) - 1
			}
		}
	}
	putPlain := func(i int) error {
		ref := w.Alloc()
		if r.P(1, 5) {
			ref = pdf.NewReference(ref.Number(), uint16(1+r.Intn(3)))
		}
		before := sink.Len()
		var o pdf.Object
		if nLong >= 0 && r.P(1, 3) {
			// keyword text in the middle of a line of a string
			o = pdf.Dict{"Note": pdf.String(Pick(r, []string{"see 901 0 obj and endobj", "xref trailer startxref", "x endstream endobj y", "a 902 0 obj endobj b"}))}
		} else {
			o = hisCleanObj(genObj(r, 1+r.Intn(3), false))
			if _, isReal := o.(pdf.Real); isReal {
				o = pdf.Integer(i)
			}
			o = hisDropReals(o)
		}
		if err := w.Put(ref, o); err != nil {
			return err
		}
		addPlain(ref, before, wireNorm(normObj(o)))
		return nil
	}
	putStream := func(i int, body []byte) error {
		ref := w.Alloc()
		if r.P(1, 5) {
			ref = pdf.NewReference(ref.Number(), uint16(1+r.Intn(3)))
		}
		before := sink.Len()
		dict := pdf.Dict{"K": pdf.Integer(i)}
		if r.Bool() {
			dict["Type"] = pdf.Name(Pick(r, []string{"XObject", "Foo", "Metadata"}))
		}
		ws, err := w.OpenStream(ref, dict)
		if err != nil {
			return err
		}
		// write in pieces so that the buffering strategies of streamWriter are exercised
		for rest := body; len(rest) > 0; {
			k := 1 + r.Intn(len(rest))
			if _, err := ws.Write(rest[:k]); err != nil {
				return err
			}
			rest = rest[k:]
		}
		if err := ws.Close(); err != nil {
			return err
		}
		want := pdf.Dict{}
		for k, val := range dict {
			want[k] = val
		}
		delete(want, "Length")
		addStream(ref, before, "S"+wireNorm(want)+"#"+hexWire(body), body)
		return nil
	}

	pagesRef := w.Alloc()
	before := sink.Len()
	pages := pdf.Dict{"Type": pdf.Name("Pages"), "Kids": pdf.Array{}, "Count": pdf.Integer(0)}
	if err := w.Put(pagesRef, pages); err != nil {
		return nil, err
	}
	addPlain(pagesRef, before, wireNorm(pages))
	w.GetMeta().Catalog.Pages = pagesRef

	if gVar >= 0 {
		nums := []uint32{65535, 65536, 70000, 100001}
		if unclosed {
			nums = append(nums, 1<<24-2, 1<<24-1)
		}
		gens := []uint16{0, 1, 65535}
		// the low numbers first: Alloc continues behind the largest number used
		for k := r.Intn(3); k > 0; k-- {
			if err := putPlain(300 + k); err != nil {
				return nil, err
			}
		}
		for i, n := range nums {
			ref := pdf.NewReference(n, gens[(i+gVar)%3])
			before := sink.Len()
			var o pdf.Object = pdf.Dict{"Big": pdf.Integer(int64(n)), "Gen": pdf.Integer(int64(ref.Generation())), "V": pdf.Array{pdf.Name("v"), pdf.Integer(int64(r.Intn(1000)))}}
			if i%3 == 1 {
				o = pdf.Integer(int64(n))
			}
			if err := w.Put(ref, o); err != nil {
				return nil, err
			}
			addPlain(ref, before, wireNorm(normObj(o)))
		}
		if unclosed {
			doc.bytes = append([]byte(nil), sink.Bytes()...)
			doc.xrefLo, doc.xrefHi, doc.sxLo, doc.sxHi = len(doc.bytes), len(doc.bytes), len(doc.bytes), len(doc.bytes)
			return doc, nil
		}
	} else if mTok >= 0 {
		for k := r.Intn(3); k > 0; k-- {
			if err := putPlain(100 + k); err != nil {
				return nil, err
			}
		}
		// lines of 20..200 printable bytes; the token replaces bytes in the middle of a line
		body := make([]byte, 3100+r.Intn(200))
		col := 0
		for i := range body {
			body[i] = byte(0x21 + r.Intn(0x5e))
			col++
			if col > 20 && r.P(1, 60) || col >= 200 {
				body[i] = Pick(r, []byte{'\n', '\n', '\r'})
				col = 0
			}
		}
		body = hisCleanBytes(body)
		for i := 0; i+1 < len(body); i++ { // no line-initial digit
			if (body[i] == '\n' || body[i] == '\r') && body[i+1] >= '0' && body[i+1] <= '9' {
				body[i+1] = 'd'
			}
		}
		tok := hisMidTokens[mTok]
		if mOff < 2 || mOff+len(tok)+2 > len(body) {
			return nil, fmt.Errorf("his: m-document: offset %d outside the body", mOff)
		}
		copy(body[mOff-2:], "x "+tok+" ")
		body[len(body)-1] = '.'
		if err := putStream(0, body); err != nil {
			return nil, err
		}
		for k := r.Intn(3); k > 0; k-- {
			if err := putPlain(200 + k); err != nil {
				return nil, err
			}
		}
	} else if pad >= 0 {
		// a filler object of `pad` bytes sweeps the boundaries of the small objects behind it
		// across the 1024-byte windows of the scanner
		ref := w.Alloc()
		before := sink.Len()
		filler := pdf.String(bytes.Repeat([]byte{'x'}, pad))
		if err := w.Put(ref, filler); err != nil {
			return nil, err
		}
		addPlain(ref, before, wireNorm(filler))
		smalls := []pdf.Object{pdf.Integer(r.Intn(1000)), pdf.Name("N"), pdf.Boolean(r.Bool()),
			pdf.Array{pdf.Integer(1), pdf.Name("a")}, pdf.Dict{"K": pdf.Integer(r.Intn(10))},
			pdf.Integer(-5), pdf.String("s"), pdf.Array{}, pdf.Name("Last")}
		for i := len(smalls) - 1; i > 0; i-- {
			j := r.Intn(i + 1)
			smalls[i], smalls[j] = smalls[j], smalls[i]
		}
		for _, o := range smalls[:4+r.Intn(len(smalls)-3)] {
			ref := w.Alloc()
			before := sink.Len()
			if err := w.Put(ref, o); err != nil {
				return nil, err
			}
			addPlain(ref, before, wireNorm(o))
		}
	} else if nLong < 0 {
		nObj := 2 + r.Intn(6)
		if small {
			nObj = 1 + r.Intn(3)
		}
		for i := 0; i < nObj; i++ {
			if r.P(1, 3) {
				if err := putStream(i, hisStreamBody(r)); err != nil {
					return nil, err
				}
			} else if err := putPlain(i); err != nil {
				return nil, err
			}
		}
	} else {
		// which of the long streams need their /Length: always the last, some of the others
		for i := 0; i < nLong; i++ {
			for k := r.Intn(3); k > 0 && nLong < 25; k-- {
				if r.Bool() {
					if err := putPlain(100 + i); err != nil {
						return nil, err
					}
				} else {
					body := hisFillBody(r, r.Intn(200))
					if r.Bool() {
						body = hisEmbed(r, body, 1+r.Intn(2))
					}
					body = hisTrailEOL(r, body)
					if err := putStream(200+i, body); err != nil {
						return nil, err
					}
				}
			}
			body := hisFillBody(r, 1024+r.Intn(40))
			level := r.Intn(4)
			if i == nLong-1 || (nLong >= 10 && i == 9) || (nLong >= 11 && i == 10) {
				level = 2 + r.Intn(2)
			}
			if level > 0 {
				body = hisEmbed(r, body, level)
			}
			// the exact bytes must come back, with /Length or recovered from EOL+endstream:
			// bodies ending in LF, CR LF, LF LF (and, outside the quantifier without /Length, CR)
			if r.P(1, 2) {
				body = append(body, Pick(r, []string{"\n", "\n", "\r\n", "\n\n", "\r\r\n", "x\n", "\r"})...)
			}
			if err := putStream(i, body); err != nil {
				return nil, err
			}
		}
		if r.Bool() {
			if err := putPlain(999); err != nil {
				return nil, err
			}
		}
	}
	beforeClose := sink.Len()
	if err := w.Close(); err != nil {
		return nil, err
	}
	data := sink.Bytes()
	doc.bytes = append([]byte(nil), data...)
	// what Close writes (catalog, info, xref stream) contains no generated text: these objects
	// are located independently by their line-initial headers
	pos := beforeClose
	for {
		i := hisNextHeader(data[pos:])
		if i < 0 {
			break
		}
		abs := pos + i
		var num, gen int
		fmt.Sscanf(string(data[abs:]), "%d %d obj", &num, &gen)
		e := bytes.Index(data[abs:], []byte("endobj"))
		isX := false
		if bytes.Contains(data[abs:abs+e], []byte("/XRef")) {
			isX = true
			e = bytes.LastIndex(data[abs:], []byte("endobj")) // its compressed data could contain the word
		}
		if e < 0 {
			break
		}
		doc.objs = append(doc.objs, hisWritten{ref: pdf.NewReference(uint32(num), uint16(gen)), start: abs, end: abs + e + 6, isXRef: isX, needs: -1, lenObj: -1})
		pos = abs + e + 6
	}
	// the cross-reference data and the startxref value
	sx := bytes.LastIndex(data, []byte("startxref\n"))
	doc.sxLo = sx + 10
	doc.sxHi = doc.sxLo
	for doc.sxHi < len(data) && data[doc.sxHi] >= '0' && data[doc.sxHi] <= '9' {
		doc.sxHi++
	}
	xpos, _ := strconv.Atoi(string(data[doc.sxLo:doc.sxHi]))
	if bytes.HasPrefix(data[xpos:], []byte("xref\n")) {
		doc.xrefLo = xpos
		doc.xrefHi = xpos + bytes.Index(data[xpos:], []byte("trailer"))
	} else {
		s := bytes.Index(data[xpos:], []byte("stream\n"))
		e := bytes.LastIndex(data, []byte("\nendstream"))
		doc.xrefLo = xpos + s + 7
		doc.xrefHi = e
	}
	return doc, nil
}

func hisDropReals(o pdf.Object) pdf.Object {
	switch x := o.(type) {
	case pdf.Real:
		return pdf.Integer(int64(x) % 1000)
	case pdf.Array:
		a := make(pdf.Array, len(x))
		for i, e := range x {
			a[i] = hisDropReals(e)
		}
		return a
	case pdf.Dict:
		d := pdf.Dict{}
		for k, v := range x {
			d[k] = hisDropReals(v)
		}
		return d
	}
	return o
}

// hisNextHeader finds the next line-initial "N G obj" in b (independent of the library's regexp).
func hisNextHeader(b []byte) int {
	for i := 0; i < len(b); i++ {
		if i > 0 && b[i-1] != '\n' && b[i-1] != '\r' {
			continue
		}
		j := i
		for j < len(b) && b[j] >= '0' && b[j] <= '9' {
			j++
		}
		if j == i || j >= len(b) || b[j] != ' ' {
			continue
		}
		k := j + 1
		for k < len(b) && b[k] >= '0' && b[k] <= '9' {
			k++
		}
		if k == j+1 || !bytes.HasPrefix(b[k:], []byte(" obj")) {
			continue
		}
		return i
	}
	return -1
}

// ---- canonical form of a scan result (shared with Driver/HIS.lean `scan`) ----

func hisScanLine(data []byte) (line string, fi *pdf.FileInfo, err error) {
	defer func() {
		if p := recover(); p != nil {
			line = fmt.Sprintf("panic %v", p)
			err = fmt.Errorf("panic: %v", p)
		}
	}()
	fi, err = pdf.SequentialScan(bytes.NewReader(data), int64(len(data)))
	if err != nil {
		cls := errClass(err)
		return "err " + cls, nil, err
	}
	var sb strings.Builder
	fmt.Fprintf(&sb, "ok v=%s s=%d e=%d", hexWire([]byte(fi.HeaderVersion)), fi.PDFStart, fi.PDFEnd)
	for _, sec := range fi.Sections {
		fmt.Fprintf(&sb, " [%d,%d,%d,%d:", sec.XRefPos, sec.TrailerPos, sec.StartXRefPos, sec.EOFPos)
		for i, o := range sec.Objects {
			if i > 0 {
				sb.WriteByte(';')
			}
			fmt.Fprintf(&sb, "%d.%d@%d-%d:", o.Number(), o.Generation(), o.ObjStart, o.ObjEnd)
			if o.Broken {
				sb.WriteByte('B')
			} else {
				sb.WriteString(o.Type + "/" + hexWire([]byte(o.Subtype)))
			}
		}
		sb.WriteByte(']')
	}
	return sb.String(), fi, nil
}

// hisScanOracle evaluates the property on the implementation for the bytes
// `data`, which are `doc` damaged in a way that leaves every object with
// end <= intact complete (a cut at `intact`, or an overwrite outside objects).
func hisScanOracle(doc *hisDoc, data []byte, intact int, skipXRefObj bool, tryReader bool) (line, failKey, failDesc string) {
	line, failKey, failDesc, _ = hisScanOracle2(doc, data, intact, skipXRefObj, tryReader)
	return
}

// readerNote is informational (MakeReader is not part of the property statement): "", "ok",
// "fails" or "differs".
func hisScanOracle2(doc *hisDoc, data []byte, intact int, skipXRefObj bool, tryReader bool) (line, failKey, failDesc, readerNote string) {
	line, fi, err := hisScanLine(data)
	var complete []hisWritten
	undecidable := map[int]bool{} // offsets of streams that are cut off from the /Length they need
	for _, o := range doc.objs {
		if o.needs >= 0 && doc.objs[o.needs].end > intact {
			undecidable[o.start] = true
			continue
		}
		if o.end <= intact && !(skipXRefObj && o.isXRef) {
			complete = append(complete, o)
		}
	}
	if strings.HasPrefix(line, "panic") {
		return line, "scan-panic", line, ""
	}
	if err != nil {
		if len(complete) > 0 {
			return line, "scan-fails", fmt.Sprintf("SequentialScan fails (%v) although %d objects are complete", err, len(complete)), ""
		}
		return line, "", "", ""
	}
	listed := map[int]*pdf.FileObject{}
	for _, sec := range fi.Sections {
		for _, o := range sec.Objects {
			listed[int(o.ObjStart)] = o
		}
	}
	trueAt := map[int]hisWritten{}
	for _, o := range doc.objs {
		trueAt[o.start] = o
	}
	for _, o := range complete {
		fo := listed[o.start]
		if fo == nil {
			return line, "scan-misses-object", fmt.Sprintf("complete object %v at %d is not listed", o.ref, o.start), ""
		}
		if fo.Reference != o.ref {
			return line, "scan-wrong-reference", fmt.Sprintf("object at %d listed as %v, written as %v", o.start, fo.Reference, o.ref), ""
		}
		if fo.Broken {
			if o.innerEndstream {
				return line, "scan-stream-broken-by-endstream-line-in-data", fmt.Sprintf("complete stream %v at %d (endobj ends at %d <= %d) is marked broken: a line of its data starts with endstream, its /Length is not available, and the recovery stops at the first EOL+endstream although that one is not followed by endobj (D-C20-3, known finding)", o.ref, o.start, o.end, intact), ""
			}
			if o.lenObj >= 0 {
				if l := doc.objs[o.lenObj]; l.start < intact && l.end > intact {
					// the header of the length object is there, its value or endobj is cut off
					return line, "scan-stream-broken-by-cut-length-object", fmt.Sprintf("complete stream %v at %d is marked broken because its /Length object %v at %d is cut off (ends at %d > %d); before a2d2dfe the extent was recovered from EOL+endstream", o.ref, o.start, l.ref, l.start, l.end, intact), ""
				}
			}
			return line, "scan-complete-broken", fmt.Sprintf("complete object %v at %d is marked broken", o.ref, o.start), ""
		}
		if o.val != "" {
			got, rerr := hisFileRead(fi, fo)
			if rerr != nil {
				return line, "scan-read-fails", fmt.Sprintf("Read(%v) fails: %v", o.ref, rerr), ""
			}
			if got != o.val {
				if o.trailEOL && len(got) < len(o.val) && len(got)+4 >= len(o.val) && strings.HasPrefix(o.val, got) {
					return line, "scan-recovered-stream-loses-trailing-eol", fmt.Sprintf("Read(%v): the stream data comes back %d byte(s) short: the data ends in an EOL of its own, the EOL marker in front of endstream is a second one, and both are stripped (…%s read, …%s written)", o.ref, (len(o.val)-len(got))/2, got[max(0, len(got)-12):], o.val[max(0, len(o.val)-12):]), ""
				}
				if o.innerEndstream && strings.HasPrefix(o.val, got) {
					return line, "scan-stream-broken-by-endstream-line-in-data", fmt.Sprintf("Read(%v): the stream data is cut at a line of the data that starts with endstream (%d of %d bytes)", o.ref, len(got), len(o.val)), ""
				}
				return line, "scan-read-differs", fmt.Sprintf("Read(%v) = %s, written %s", o.ref, truncate(got), truncate(o.val)), ""
			}
		}
	}
	// the scan's markers are line-initial by definition (sequential.go: eolPat): nothing may be
	// recorded at an offset whose predecessor is not an end-of-line byte
	lineInitial := func(at int) bool {
		return at <= 0 || at > len(data) || data[at-1] == '\n' || data[at-1] == '\r'
	}
	ats := make([]int, 0, len(listed))
	for at := range listed {
		ats = append(ats, at)
	}
	sort.Ints(ats)
	for _, at := range ats {
		if !lineInitial(at) {
			fo := listed[at]
			return line, "scan-midline-marker-at-window-start", fmt.Sprintf("object %v (broken=%v) is listed at offset %d, in the middle of the line %q: the pattern's ^ matched where a search window of scanner.Find starts", fo.Reference, fo.Broken, at, hisLineAround(data, at)), ""
		}
	}
	for si, sec := range fi.Sections {
		for mi, at := range []int64{sec.XRefPos, sec.TrailerPos, sec.StartXRefPos, sec.EOFPos} {
			if at > 0 && !lineInitial(int(at)) {
				return line, "scan-midline-marker-at-window-start", fmt.Sprintf("section %d: %s is recorded at offset %d, in the middle of the line %q: the pattern's ^ matched where a search window of scanner.Find starts", si, []string{"xref", "trailer", "startxref", "%%EOF"}[mi], at, hisLineAround(data, int(at))), ""
			}
		}
	}
	for at, fo := range listed {
		w, ok := trueAt[at]
		if fo.Broken || undecidable[at] {
			continue
		}
		if !ok {
			return line, "scan-spurious-object", fmt.Sprintf("an unbroken object %v is listed at %d where none was written", fo.Reference, at), ""
		}
		if w.end > intact && w.nasty {
			continue
		}
		if w.end > intact && !(skipXRefObj && w.isXRef) {
			return line, "scan-incomplete-not-broken", fmt.Sprintf("object %v at %d is cut off (endobj ends at %d > %d) but not marked broken", w.ref, at, w.end, intact), ""
		}
	}
	if tryReader {
		readerNote = "ok"
		rd, rerr := hisMakeReader(fi)
		if rerr != nil {
			return line, "", "", "fails"
		}
		for _, o := range complete {
			if o.val == "" {
				continue
			}
			obj, gerr := rd.Get(o.ref, true)
			if gerr != nil {
				return line, "", "", "differs"
			}
			got, _ := hisImplToken(obj)
			if got != o.val {
				return line, "", "", "differs"
			}
		}
	}
	return line, "", "", readerNote
}

func hisLineAround(data []byte, at int) string {
	lo, hi := at, at
	for lo > 0 && at-lo < 24 && data[lo-1] != '\n' && data[lo-1] != '\r' {
		lo--
	}
	for hi < len(data) && hi-at < 30 && data[hi] != '\n' && data[hi] != '\r' {
		hi++
	}
	return string(data[lo:hi])
}

func hisMakeReader(fi *pdf.FileInfo) (rd *pdf.Reader, err error) {
	defer func() {
		if p := recover(); p != nil {
			err = fmt.Errorf("panic: %v", p)
		}
	}()
	return fi.MakeReader(&pdf.ReaderOptions{ErrorHandling: pdf.ErrorHandlingReport})
}

func hisFileRead(fi *pdf.FileInfo, fo *pdf.FileObject) (tok string, err error) {
	defer func() {
		if p := recover(); p != nil {
			err = fmt.Errorf("panic: %v", p)
		}
	}()
	obj, err := fi.Read(fo)
	if err != nil {
		return "", err
	}
	if s, ok := obj.(*pdf.Stream); ok {
		data, err := io.ReadAll(s.NewReader())
		if err != nil {
			return "", err
		}
		return "S" + wireNorm(s.Dict) + "#" + hexWire(data), nil
	}
	n, ok := obj.(pdf.Native)
	if !ok && obj != nil {
		return "", fmt.Errorf("Read returned %T", obj)
	}
	return wireNorm(n), nil
}

// hisDamage regenerates a damaged file from a replay description
// "<docseed> <small> cut <t>" or "<docseed> <small> ow <lo> <hi> <byte>".
func hisDamage(input string) (doc *hisDoc, data []byte, intact int, skipX bool, tryReader bool, err error) {
	f := strings.Fields(input)
	if len(f) < 4 {
		return nil, nil, 0, false, false, fmt.Errorf("bad replay input")
	}
	seed, _ := strconv.ParseUint(f[0], 10, 64)
	kind := f[1]
	if kind == "0" || kind == "1" {
		kind = "r" + kind
	}
	doc, err = hisWriteDoc(&Rand{s: seed}, kind)
	if err != nil {
		return nil, nil, 0, false, false, err
	}
	switch f[2] {
	case "cut":
		t, _ := strconv.Atoi(f[3])
		return doc, doc.bytes[:t], t, false, false, nil
	case "ow":
		lo, _ := strconv.Atoi(f[3])
		hi, _ := strconv.Atoi(f[4])
		bv, _ := strconv.Atoi(f[5])
		data = append([]byte(nil), doc.bytes...)
		for i := lo; i < hi; i++ {
			data[i] = byte(bv)
		}
		return doc, data, len(data), true, true, nil
	}
	return nil, nil, 0, false, false, fmt.Errorf("bad replay input")
}

func replayC20(input string) (bool, string) {
	doc, data, intact, skipX, tryReader, err := hisDamage(input)
	if err != nil {
		return true, "cannot regenerate: " + err.Error()
	}
	line, key, desc := hisScanOracle(doc, data, intact, skipX, tryReader)
	if key != "" {
		return false, fmt.Sprintf("%s: %s\nscan: %s\ndamaged file (%d of %d bytes): %q", key, desc, truncate(line), len(data), len(doc.bytes), data)
	}
	return true, "scan result: " + truncate(line)
}

// hisCutSet: the truncation offsets tried for a document.  all = every offset; otherwise
// every object boundary (start and end of each object) +-2 bytes, the ends of the file, and
// nSample interior offsets.
func hisCutSet(r *Rand, doc *hisDoc, mode string, nSample int) []int {
	n := len(doc.bytes)
	if mode == "all" {
		cuts := make([]int, n+1)
		for i := range cuts {
			cuts[i] = i
		}
		return cuts
	}
	seen := map[int]bool{}
	var cuts []int
	add := func(t int) {
		if t >= 0 && t <= n && !seen[t] {
			seen[t] = true
			cuts = append(cuts, t)
		}
	}
	if mode == "ends" {
		for _, o := range doc.objs {
			add(o.end)
		}
		add(n)
		add(n - 1)
		sort.Ints(cuts)
		return cuts
	}
	if mode == "bands" {
		// every prefix length within 80 bytes of a multiple of the scanner's buffer size, and the
		// last bytes of the file
		for m := 1024; m-80 <= n; m += 1024 {
			for d := -80; d <= 80; d++ {
				add(m + d)
			}
		}
		for d := 0; d <= 100; d++ {
			add(n - d)
		}
		sort.Ints(cuts)
		return cuts
	}
	// "bounds": every object boundary +-2, every offset up to 80 bytes behind the end of an
	// object (of every step-th object for the big documents), the file ends, sampled offsets
	step := 5
	if len(doc.objs) > 60 {
		step = 17
	}
	for i, o := range doc.objs {
		for d := -2; d <= 2; d++ {
			add(o.start + d)
			add(o.end + d)
		}
		if o.trailEOL || i%step == 0 || i >= len(doc.objs)-3 {
			for d := 3; d <= 80; d++ {
				add(o.end + d)
			}
		}
	}
	for d := 0; d <= 2; d++ {
		add(d)
		add(n - d)
	}
	for i := 0; i < nSample; i++ {
		add(r.Intn(n + 1))
	}
	sort.Ints(cuts)
	return cuts
}

func runC20(c *Ctx) {
	r := c.R

	// runDoc: one document, its cuts and its xref overwrites
	runDoc := func(kind string, seed uint64, cutMode string, nSample int, owStep int, emitCuts int) {
		doc, err := hisWriteDoc(&Rand{s: seed}, kind)
		if err != nil && strings.HasPrefix(err.Error(), "his: m-document") {
			c.Stat("m_document_offset_outside_body")
			return
		}
		if err != nil {
			c.Violate("scan", "writer-fails", "the Writer fails: "+err.Error(), fmt.Sprintf("%d %s cut 0", seed, kind))
			return
		}
		if strings.HasPrefix(kind, "m") || strings.HasPrefix(kind, "p") || strings.HasPrefix(kind, "g") || strings.HasPrefix(kind, "G") {
			c.Stat("doc_kind_" + kind[:1])
		} else {
			c.Stat("doc_kind_" + kind)
		}
		c.Stat(fmt.Sprintf("doc_objects_%03d", len(doc.objs)))
		c.StatN("doc_bytes", len(doc.bytes))
		nNeeds := 0
		for _, o := range doc.objs {
			if o.needs >= 0 {
				nNeeds++
			}
		}
		c.StatN("streams_delimited_only_by_indirect_length", nNeeds)
		c.StatN("indirect_length_objects", bytes.Count(doc.bytes, []byte(" 0 R>>\nstream"))+bytes.Count(doc.bytes, []byte(" 0 R\n>>\nstream")))
		if bytes.HasPrefix(doc.bytes[doc.xrefLo:], []byte("xref")) {
			c.Stat("doc_xref_table")
		} else {
			c.Stat("doc_xref_stream")
		}
		cr := &Rand{s: seed ^ 0x5bd1e995}
		cuts := hisCutSet(cr, doc, cutMode, nSample)
		emitEvery := 1
		if emitCuts > 0 && len(cuts) > emitCuts {
			emitEvery = (len(cuts) + emitCuts - 1) / emitCuts
		}
		for ci, t := range cuts {
			data := doc.bytes[:t]
			line, key, desc := hisScanOracle(doc, data, t, false, false)
			nComplete := 0
			for _, o := range doc.objs {
				if o.end <= t {
					nComplete++
				}
			}
			c.Case(fmt.Sprintf("%d %s cut %d", seed, kind, t), nComplete > 0)
			if key != "" {
				c.Violate("scan", key, desc, fmt.Sprintf("%d %s cut %d", seed, kind, t))
			}
			if emitCuts > 0 && ci%emitEvery == 0 {
				c.Emit("HIS scan "+hexWire(data), line)
			}
		}
		c.StatN("cuts", len(cuts))
		// xref damage: single bytes of the cross-reference data and of the startxref value (every
		// owStep-th), and the whole ranges, overwritten with each garbage byte
		if owStep <= 0 {
			return
		}
		garbage := []byte{'X', '0', ' ', '\n', 0xff}
		type span struct{ lo, hi int }
		var spans []span
		for i := doc.xrefLo; i < doc.xrefHi; i += owStep {
			spans = append(spans, span{i, i + 1})
		}
		for i := doc.sxLo; i < doc.sxHi; i++ {
			spans = append(spans, span{i, i + 1})
		}
		spans = append(spans, span{doc.xrefLo, doc.xrefHi}, span{doc.sxLo, doc.sxHi}, span{doc.xrefLo, doc.xrefLo + 4}, span{doc.sxLo - 10, doc.sxLo - 1})
		for si, sp := range spans {
			for gi, g := range garbage {
				if owStep > 1 && sp.hi-sp.lo == 1 && gi != si%len(garbage) {
					continue // sampled: one garbage byte per position
				}
				data := append([]byte(nil), doc.bytes...)
				same := true
				for i := sp.lo; i < sp.hi; i++ {
					if data[i] != g {
						same = false
					}
					data[i] = g
				}
				if same {
					continue
				}
				line, key, desc, note := hisScanOracle2(doc, data, len(data), true, true)
				c.Stat("makereader_after_xref_damage_" + note)
				c.Case(fmt.Sprintf("%d %s ow %d %d %d", seed, kind, sp.lo, sp.hi, g), true)
				if key != "" {
					c.Violate("scan", key, desc, fmt.Sprintf("%d %s ow %d %d %d", seed, kind, sp.lo, sp.hi, g))
				}
				if emitCuts > 0 && (si%7 == 0 || sp.hi-sp.lo > 1) && len(doc.bytes) < 16000 {
					c.Emit("HIS scan "+hexWire(data), line)
				}
				c.Stat("xref_overwrites")
			}
		}
	}

	// 1. random small documents: every cut, every single-byte overwrite
	nDocs := 18
	modelDocs := 5 // documents whose every cut is also sent to the model
	if c.Thorough {
		nDocs = 200
		modelDocs = 20
	}
	for di := 0; di < nDocs; di++ {
		seed := r.U64()
		kind := "r0"
		if di%2 == 0 {
			kind = "r1"
		}
		if di < 2 {
			if doc, err := hisWriteDoc(&Rand{s: seed}, kind); err == nil {
				c.Sample(fmt.Sprintf("document %d bytes, %d objects: %q", len(doc.bytes), len(doc.objs), truncate(string(doc.bytes))))
			}
		}
		emit := 0
		if di < modelDocs {
			emit = 1 << 30
		}
		runDoc(kind, seed, "all", 0, 1, emit)
	}

	// 2. documents with many streams whose /Length is an indirect object written behind them
	// (1, 9, 10, 11, 25, 40 of them; on a seekable sink the same bodies get a direct /Length),
	// mixed with short streams and plain objects, bodies with embedded keywords; at least the last
	// long stream contains EOL+endstream.  Cuts at every object boundary +-2 and sampled interior
	// offsets (every offset in thorough for the documents below 16 kB).
	reps := 2
	if c.Thorough {
		reps = 6
	}
	for rep := 0; rep < reps; rep++ {
		for _, kind := range hisDocKinds(c.Thorough) {
			seed := r.U64()
			big := kind == "i40" || kind == "i40s" || kind == "i25"
			nSample, owStep, emit := 150, 17, 12
			all := "bounds"
			if big {
				nSample, emit = 60, 0
			}
			if c.Thorough {
				nSample, owStep = 600, 5
				if !big && rep < 2 {
					all = "all"
				}
			}
			runDoc(kind, seed, all, nSample, owStep, emit)
		}
	}
	// 3. window sweep: a filler object of n bytes (n = 0..1100; a seed-dependent tenth of them in
	// quick) moves the small objects behind it across the scanner's 1024-byte windows; the
	// listing must be complete at EVERY prefix length within 80 bytes of a multiple of 1024
	stepN, offN := 9, r.Intn(9)
	if c.Thorough {
		stepN, offN = 1, 0
	}
	for n := offN; n <= 1100; n += stepN {
		emit := 0
		if n%90 == offN {
			emit = 8
		}
		runDoc(fmt.Sprintf("p%d", n), r.U64(), "bands", 0, 0, emit)
	}
	// 4. marker-like text in the MIDDLE of a line of stream data, its first byte at every file
	// offset 960k-2 .. 960k+2 (k = 1..3): scanner.Find restarts its search 64 bytes before the
	// end of a 1024-byte window that held no match, i.e. at the offsets 960, 1920, ... of a
	// marker-free region; nothing in the middle of a line may be recorded.  Thorough: every
	// offset of the first 2400 bytes of the body for the two object tokens.
	for ti := range hisMidTokens {
		for k := 1; k <= 3; k++ {
			for d := -2; d <= 2; d++ {
				emit := 0
				if d == 0 && k <= 2 {
					emit = 2
				}
				runDoc(fmt.Sprintf("m%d_%d", ti, 960*k+d), r.U64(), "ends", 0, 0, emit)
				c.Stat("midline_marker_documents")
			}
		}
	}
	if c.Thorough {
		for ti := 0; ti < 2; ti++ {
			seed := r.U64()
			for a := 500; a < 2900; a++ {
				runDoc(fmt.Sprintf("m%d_%d", ti, a), seed, "ends", 0, 0, 0)
				c.Stat("midline_marker_documents")
			}
		}
	}
	// 5. object numbers >= 65536 and generations up to 65535 (the header parse of locateObjects:
	// number < maxXRefSize = 2^24, generation <= 65535): files without cross-reference data at
	// EVERY cut (all sent to the model), complete documents cut at every object end and with
	// their cross-reference data / startxref overwritten as a whole
	gQuick := r.Intn(3) // quick: one of the three complete documents (2 MB each)
	for v := 0; v < 3; v++ {
		runDoc(fmt.Sprintf("G%d", v), r.U64(), "all", 0, 0, 1<<30)
		if v == gQuick || c.Thorough {
			runDoc(fmt.Sprintf("g%d", v), r.U64(), "ends", 0, 1<<30, 0)
		}
	}
	c.rep.Exhaustive = true

	// correspondence only (outside the Writer-generated quantifier): files of the independent
	// serialiser (several revisions, redefinitions, comments and odd white space around headers)
	// and crafted files in which a reference is defined twice and used as an indirect /Length
	nSynth := 150
	if c.Thorough {
		nSynth = 3000
	}
	for i := 0; i < nSynth; i++ {
		f := hisCase("rnd", r.U64(), nil)
		data := f.Bytes
		if r.P(1, 3) {
			data = data[:r.Intn(len(data)+1)]
		}
		line, _, _ := hisScanLine(data)
		c.Emit("HIS scan "+hexWire(data), line)
		c.Stat("synthetic_scan_" + strings.Fields(line)[0])

		body := append(hisGenBytes(r, 10), "\nendstream\nx"...)
		l1, l2 := len(body), r.Intn(len(body))
		if r.Bool() {
			l1, l2 = l2, l1
		}
		var b bytes.Buffer
		b.WriteString("%PDF-1.4\n")
		fmt.Fprintf(&b, "5 0 obj\n%d\nendobj\n", l1)
		fmt.Fprintf(&b, "1 0 obj\n<</Length 5 0 R>>\nstream\n%s\nendstream\nendobj\n", body)
		if r.Bool() {
			// a cross-reference section that is not closed by %%EOF before the next object
			b.WriteString(Pick(r, []string{"xref\n0 1\n0000000000 65535 f \ntrailer\n<<>>\nstartxref\n9\n", "trailer\n<<>>\n", "startxref\n9\n", "xref\n"}))
		}
		if r.Bool() {
			fmt.Fprintf(&b, "5 0 obj\n%d\nendobj\n", l2)
		}
		if r.P(1, 3) {
			b.WriteString("5 0 obj\n6 0 R\nendobj\n6 0 obj\n7\nendobj\n")
		}
		b.WriteString("trailer\n<<>>\n%%EOF\n")
		line, _, _ = hisScanLine(b.Bytes())
		c.Emit("HIS scan "+hexWire(b.Bytes()), line)
		c.Stat("crafted_duplicate_length_object")

		// 1430e5c (findLimit): a stream without usable /Length whose data contains a line-initial
		// object header — the EOL+endstream search of the scan stops at the start of the next
		// located object, so the outer object is Broken instead of swallowing its successor
		// (unless an EOL+endstream lies in front of that header); with a usable /Length the
		// declared extent counts.  Outside the quantifier: model and code must agree.
		if i%3 == 0 {
			inner := Pick(r, []string{
				"11 0 obj\n<</Type/XRef>>\nstream\nabc\nendstream\nendobj\n",
				"11 0 obj\n(s)\nendobj\n",
				"7 0 obj junk\n",
				"12 0 obj\n<<>>\nstream\nx\nendstream\nendobj\n13 0 obj\n1\nendobj\n",
			})
			pre := hisGenBytes(r, 12)
			if r.P(1, 3) {
				pre = append(pre, "\nendstream y "...) // an EOL+endstream in front of the header
			}
			data := append(append(append([]byte(nil), pre...), '\n'), inner...)
			data = append(data, hisGenBytes(r, 8)...)
			lenText := Pick(r, []string{"", "/Length 5 0 R", "/Length 9 0 R", fmt.Sprintf("/Length %d", len(data)), "/Length 3", fmt.Sprintf("/Length %d", len(data)+40)})
			var f bytes.Buffer
			f.WriteString("%PDF-1.5\n")
			fmt.Fprintf(&f, "2 0 obj\n<<%s/K 1>>\nstream\n", lenText)
			f.Write(data)
			f.WriteString(Pick(r, []string{"\nendstream\nendobj\n", "\r\nendstream endobj\n", "\nendstream\n"}))
			if r.Bool() {
				fmt.Fprintf(&f, "5 0 obj\n%d\nendobj\n", Pick(r, []int{len(data), 2, len(data) + 1}))
			}
			f.WriteString("3 0 obj\n/After\nendobj\ntrailer\n<<>>\n%%EOF\n")
			fb := f.Bytes()
			if r.P(1, 4) {
				fb = fb[:r.Intn(len(fb)+1)]
			}
			line, _, _ = hisScanLine(fb)
			c.Emit("HIS scan "+hexWire(fb), line)
			c.Stat("crafted_header_inside_stream_" + strings.Fields(line)[0])
		}
	}
}

package main

import (
	"bytes"
	"fmt"
	"io"
	"sort"
	"strconv"
	"strings"

	"seehuhn.de/go/pdf"
)

// C20 — a truncated or xref-damaged file still gives up every complete object.

func init() {
	addRun("C20", "documents written by the real Writer without object streams (versions 1.2-2.0, human-readable or compact, xref table or xref stream, random object trees, streams with short and long bodies, direct and indirect /Length; bodies free of line-initial markers, not ending in CR/LF and without EOL+endstream); EVERY truncation offset 0..len and every single-byte and whole-range overwrite of the xref table lines / xref stream data / startxref value; SequentialScan must succeed when >=1 object is complete, list every complete object at its true offset not broken, Read must give the written value, listed incomplete objects must be Broken, MakeReader+Get must give the written values after xref damage. A case is one (document, cut) or (document, overwrite) pair; non-trivial when at least one object is complete; distinct by the damaged bytes.", runC20)
	addReplay("C20", "scan", replayC20)
}

// hisSink is an unbuffered sink (it implements Flush, so the Writer does not
// wrap it in a bufio.Writer): its length is the Writer's position.
type hisSink struct{ bytes.Buffer }

func (s *hisSink) Flush() error { return nil }

type hisWritten struct {
	ref    pdf.Reference
	start  int // offset of "N G obj"
	end    int // offset just after "endobj"
	val    string
	isXRef bool
}

type hisDoc struct {
	bytes   []byte
	objs    []hisWritten
	xrefLo  int // the cross-reference data: table lines, or the data of the xref stream
	xrefHi  int
	sxLo    int // the digits after startxref
	sxHi    int
}

var hisMarkerWords = []string{"obj", "xref", "trailer", "%%EOF", "endstream"}

func hisCleanBytes(b []byte) []byte {
	for _, w := range hisMarkerWords {
		for {
			i := bytes.Index(b, []byte(w))
			if i < 0 {
				break
			}
			b[i] = '_'
		}
	}
	return b
}

// hisCleanObj removes marker words from strings and names, and drops reals
// (their digits are strconv's, see C01) and nil arrays.
func hisCleanObj(o pdf.Object) pdf.Object {
	switch x := o.(type) {
	case pdf.String:
		return pdf.String(hisCleanBytes(append([]byte(nil), x...)))
	case pdf.Name:
		return pdf.Name(hisCleanBytes([]byte(x)))
	case pdf.Operator:
		return pdf.Integer(1)
	case pdf.Array:
		if x == nil {
			return pdf.Array{}
		}
		a := make(pdf.Array, len(x))
		for i, e := range x {
			a[i] = hisCleanObj(e)
		}
		return a
	case pdf.Dict:
		d := pdf.Dict{}
		keys := make([]string, 0, len(x))
		for k := range x {
			keys = append(keys, string(k))
		}
		sort.Strings(keys) // cleaned keys may collide: keep the result independent of map order
		for _, k := range keys {
			d[pdf.Name(hisCleanBytes([]byte(k)))] = hisCleanObj(x[pdf.Name(k)])
		}
		return d
	}
	return o
}

func hisStreamBody(r *Rand) []byte {
	n := r.Intn(60)
	switch r.Intn(6) {
	case 0:
		n = 0
	case 1:
		n = 1000 + r.Intn(200) // longer than the Writer's 1024-byte look-ahead: indirect /Length
	case 2:
		n = 1020 + r.Intn(8)
	}
	b := make([]byte, n)
	mode := r.Intn(3)
	for i := range b {
		switch mode {
		case 0:
			b[i] = byte(r.U64())
		case 1:
			b[i] = Pick(r, []byte("abc \n\r01 R<>/()endstram"))
		default:
			b[i] = byte(0x20 + r.Intn(0x5f))
		}
	}
	b = hisCleanBytes(b)
	// no EOL directly before "endstream" inside, no trailing EOL (C04's recoverability conditions)
	for len(b) > 0 && (b[len(b)-1] == '\n' || b[len(b)-1] == '\r') {
		b[len(b)-1] = '.'
	}
	return b
}

// hisWriteDoc writes a document with the real Writer and records where every
// object went and what it was.
func hisWriteDoc(r *Rand, small bool) (doc *hisDoc, err error) {
	defer func() {
		if p := recover(); p != nil {
			err = fmt.Errorf("panic in Writer: %v", p)
		}
	}()
	versions := []pdf.Version{pdf.V1_2, pdf.V1_4, pdf.V1_7, pdf.V2_0, pdf.V1_5}
	v := Pick(r, versions)
	opt := &pdf.WriterOptions{HumanReadable: r.Bool()}
	if v >= pdf.V2_0 || r.P(1, 3) {
		// fixed by the seed (the Writer would draw it from crypto/rand otherwise)
		opt.ID = [][]byte{r.Bytes(16), r.Bytes(16)}
	}
	sink := &hisSink{}
	w, err := pdf.NewWriter(sink, v, opt)
	if err != nil {
		return nil, err
	}
	doc = &hisDoc{}
	known := map[int]string{} // offset of the header -> value written there
	record := func(ref pdf.Reference, before int, val string) {
		data := sink.Bytes()
		hdr := []byte(fmt.Sprintf("%d %d obj", ref.Number(), ref.Generation()))
		i := bytes.Index(data[before:], hdr)
		if i < 0 {
			panic("his: object header not found in the Writer's output")
		}
		known[before+i] = val
	}
	nObj := 2 + r.Intn(6)
	if small {
		nObj = 1 + r.Intn(3)
	}
	pagesRef := w.Alloc()
	before := sink.Len()
	pages := pdf.Dict{"Type": pdf.Name("Pages"), "Kids": pdf.Array{}, "Count": pdf.Integer(0)}
	if err := w.Put(pagesRef, pages); err != nil {
		return nil, err
	}
	record(pagesRef, before, wireNorm(pages))
	w.GetMeta().Catalog.Pages = pagesRef
	for i := 0; i < nObj; i++ {
		ref := w.Alloc()
		if r.P(1, 5) {
			ref = pdf.NewReference(ref.Number(), uint16(1+r.Intn(3)))
		}
		before := sink.Len()
		if r.P(1, 3) {
			body := hisStreamBody(r)
			dict := pdf.Dict{"K": pdf.Integer(i)}
			if r.Bool() {
				dict["Type"] = pdf.Name(Pick(r, []string{"XObject", "Foo", "Metadata"}))
			}
			ws, err := w.OpenStream(ref, dict)
			if err != nil {
				return nil, err
			}
			// write in pieces so that the buffering strategies of streamWriter are exercised
			for rest := body; len(rest) > 0; {
				k := 1 + r.Intn(len(rest))
				if _, err := ws.Write(rest[:k]); err != nil {
					return nil, err
				}
				rest = rest[k:]
			}
			if err := ws.Close(); err != nil {
				return nil, err
			}
			want := pdf.Dict{}
			for k, val := range dict {
				want[k] = val
			}
			delete(want, "Length")
			record(ref, before, "S"+wireNorm(want)+"#"+hexWire(body))
			continue
		}
		o := hisCleanObj(genObj(r, 1+r.Intn(3), false))
		if _, isReal := o.(pdf.Real); isReal {
			o = pdf.Integer(i)
		}
		o = hisDropReals(o)
		if err := w.Put(ref, o); err != nil {
			return nil, err
		}
		record(ref, before, wireNorm(normObj(o)))
	}
	if err := w.Close(); err != nil {
		return nil, err
	}
	data := sink.Bytes()
	doc.bytes = append([]byte(nil), data...)
	// all objects (also the /Length objects of long streams and what Close writes: catalog,
	// info, xref stream) are located independently by their line-initial headers; generated
	// strings, names and stream bodies never contain "obj", so the first "endobj" after a
	// header is the end of that object
	pos := 0
	for {
		i := hisNextHeader(data[pos:])
		if i < 0 {
			break
		}
		abs := pos + i
		var num, gen int
		fmt.Sscanf(string(data[abs:]), "%d %d obj", &num, &gen)
		e := bytes.Index(data[abs:], []byte("endobj"))
		if e < 0 {
			break
		}
		isX := bytes.Contains(data[abs:abs+e], []byte("/XRef"))
		doc.objs = append(doc.objs, hisWritten{ref: pdf.NewReference(uint32(num), uint16(gen)), start: abs, end: abs + e + 6, val: known[abs], isXRef: isX})
		delete(known, abs)
		pos = abs + e + 6
	}
	if len(known) != 0 {
		panic("his: a recorded object was not found again")
	}
	// the cross-reference data and the startxref value
	sx := bytes.LastIndex(data, []byte("startxref\n"))
	doc.sxLo = sx + 10
	doc.sxHi = doc.sxLo
	for doc.sxHi < len(data) && data[doc.sxHi] >= '0' && data[doc.sxHi] <= '9' {
		doc.sxHi++
	}
	xpos, _ := strconv.Atoi(string(data[doc.sxLo:doc.sxHi]))
	if bytes.HasPrefix(data[xpos:], []byte("xref\n")) {
		doc.xrefLo = xpos
		doc.xrefHi = xpos + bytes.Index(data[xpos:], []byte("trailer"))
	} else {
		s := bytes.Index(data[xpos:], []byte("stream\n"))
		e := bytes.LastIndex(data, []byte("\nendstream"))
		doc.xrefLo = xpos + s + 7
		doc.xrefHi = e
	}
	return doc, nil
}

func hisDropReals(o pdf.Object) pdf.Object {
	switch x := o.(type) {
	case pdf.Real:
		return pdf.Integer(int64(x) % 1000)
	case pdf.Array:
		a := make(pdf.Array, len(x))
		for i, e := range x {
			a[i] = hisDropReals(e)
		}
		return a
	case pdf.Dict:
		d := pdf.Dict{}
		for k, v := range x {
			d[k] = hisDropReals(v)
		}
		return d
	}
	return o
}

// hisNextHeader finds the next line-initial "N G obj" in b (independent of the library's regexp).
func hisNextHeader(b []byte) int {
	for i := 0; i < len(b); i++ {
		if i > 0 && b[i-1] != '\n' && b[i-1] != '\r' {
			continue
		}
		j := i
		for j < len(b) && b[j] >= '0' && b[j] <= '9' {
			j++
		}
		if j == i || j >= len(b) || b[j] != ' ' {
			continue
		}
		k := j + 1
		for k < len(b) && b[k] >= '0' && b[k] <= '9' {
			k++
		}
		if k == j+1 || !bytes.HasPrefix(b[k:], []byte(" obj")) {
			continue
		}
		return i
	}
	return -1
}

// ---- canonical form of a scan result (shared with Driver/HIS.lean `scan`) ----

func hisScanLine(data []byte) (line string, fi *pdf.FileInfo, err error) {
	defer func() {
		if p := recover(); p != nil {
			line = fmt.Sprintf("panic %v", p)
			err = fmt.Errorf("panic: %v", p)
		}
	}()
	fi, err = pdf.SequentialScan(bytes.NewReader(data), int64(len(data)))
	if err != nil {
		cls := errClass(err)
		return "err " + cls, nil, err
	}
	var sb strings.Builder
	fmt.Fprintf(&sb, "ok v=%s s=%d e=%d", hexWire([]byte(fi.HeaderVersion)), fi.PDFStart, fi.PDFEnd)
	for _, sec := range fi.Sections {
		fmt.Fprintf(&sb, " [%d,%d,%d,%d:", sec.XRefPos, sec.TrailerPos, sec.StartXRefPos, sec.EOFPos)
		for i, o := range sec.Objects {
			if i > 0 {
				sb.WriteByte(';')
			}
			fmt.Fprintf(&sb, "%d.%d@%d-%d:", o.Number(), o.Generation(), o.ObjStart, o.ObjEnd)
			if o.Broken {
				sb.WriteByte('B')
			} else {
				sb.WriteString(o.Type + "/" + hexWire([]byte(o.Subtype)))
			}
		}
		sb.WriteByte(']')
	}
	return sb.String(), fi, nil
}

// hisScanOracle evaluates the property on the implementation for the bytes
// `data`, which are `doc` damaged in a way that leaves every object with
// end <= intact complete (a cut at `intact`, or an overwrite outside objects).
func hisScanOracle(doc *hisDoc, data []byte, intact int, skipXRefObj bool, tryReader bool) (line, failKey, failDesc string) {
	line, failKey, failDesc, _ = hisScanOracle2(doc, data, intact, skipXRefObj, tryReader)
	return
}

// readerNote is informational (MakeReader is not part of the property statement): "", "ok",
// "fails" or "differs".
func hisScanOracle2(doc *hisDoc, data []byte, intact int, skipXRefObj bool, tryReader bool) (line, failKey, failDesc, readerNote string) {
	line, fi, err := hisScanLine(data)
	var complete []hisWritten
	for _, o := range doc.objs {
		if o.end <= intact && !(skipXRefObj && o.isXRef) {
			complete = append(complete, o)
		}
	}
	if strings.HasPrefix(line, "panic") {
		return line, "scan-panic", line, ""
	}
	if err != nil {
		if len(complete) > 0 {
			return line, "scan-fails", fmt.Sprintf("SequentialScan fails (%v) although %d objects are complete", err, len(complete)), ""
		}
		return line, "", "", ""
	}
	listed := map[int]*pdf.FileObject{}
	for _, sec := range fi.Sections {
		for _, o := range sec.Objects {
			listed[int(o.ObjStart)] = o
		}
	}
	trueAt := map[int]hisWritten{}
	for _, o := range doc.objs {
		trueAt[o.start] = o
	}
	for _, o := range complete {
		fo := listed[o.start]
		if fo == nil {
			return line, "scan-misses-object", fmt.Sprintf("complete object %v at %d is not listed", o.ref, o.start), ""
		}
		if fo.Reference != o.ref {
			return line, "scan-wrong-reference", fmt.Sprintf("object at %d listed as %v, written as %v", o.start, fo.Reference, o.ref), ""
		}
		if fo.Broken {
			return line, "scan-complete-broken", fmt.Sprintf("complete object %v at %d is marked broken", o.ref, o.start), ""
		}
		if o.val != "" {
			got, rerr := hisFileRead(fi, fo)
			if rerr != nil {
				return line, "scan-read-fails", fmt.Sprintf("Read(%v) fails: %v", o.ref, rerr), ""
			}
			if got != o.val {
				return line, "scan-read-differs", fmt.Sprintf("Read(%v) = %s, written %s", o.ref, truncate(got), truncate(o.val)), ""
			}
		}
	}
	for at, fo := range listed {
		w, ok := trueAt[at]
		if fo.Broken {
			continue
		}
		if !ok {
			return line, "scan-spurious-object", fmt.Sprintf("an unbroken object %v is listed at %d where none was written", fo.Reference, at), ""
		}
		if w.end > intact && !(skipXRefObj && w.isXRef) {
			return line, "scan-incomplete-not-broken", fmt.Sprintf("object %v at %d is cut off (endobj ends at %d > %d) but not marked broken", w.ref, at, w.end, intact), ""
		}
	}
	if tryReader {
		readerNote = "ok"
		rd, rerr := hisMakeReader(fi)
		if rerr != nil {
			return line, "", "", "fails"
		}
		for _, o := range complete {
			if o.val == "" {
				continue
			}
			obj, gerr := rd.Get(o.ref, true)
			if gerr != nil {
				return line, "", "", "differs"
			}
			got, _ := hisImplToken(obj)
			if got != o.val {
				return line, "", "", "differs"
			}
		}
	}
	return line, "", "", readerNote
}

func hisMakeReader(fi *pdf.FileInfo) (rd *pdf.Reader, err error) {
	defer func() {
		if p := recover(); p != nil {
			err = fmt.Errorf("panic: %v", p)
		}
	}()
	return fi.MakeReader(&pdf.ReaderOptions{ErrorHandling: pdf.ErrorHandlingReport})
}

func hisFileRead(fi *pdf.FileInfo, fo *pdf.FileObject) (tok string, err error) {
	defer func() {
		if p := recover(); p != nil {
			err = fmt.Errorf("panic: %v", p)
		}
	}()
	obj, err := fi.Read(fo)
	if err != nil {
		return "", err
	}
	if s, ok := obj.(*pdf.Stream); ok {
		data, err := io.ReadAll(s.NewReader())
		if err != nil {
			return "", err
		}
		return "S" + wireNorm(s.Dict) + "#" + hexWire(data), nil
	}
	n, ok := obj.(pdf.Native)
	if !ok && obj != nil {
		return "", fmt.Errorf("Read returned %T", obj)
	}
	return wireNorm(n), nil
}

// hisDamage regenerates a damaged file from a replay description
// "<docseed> <small> cut <t>" or "<docseed> <small> ow <lo> <hi> <byte>".
func hisDamage(input string) (doc *hisDoc, data []byte, intact int, skipX bool, tryReader bool, err error) {
	f := strings.Fields(input)
	if len(f) < 4 {
		return nil, nil, 0, false, false, fmt.Errorf("bad replay input")
	}
	seed, _ := strconv.ParseUint(f[0], 10, 64)
	doc, err = hisWriteDoc(&Rand{s: seed}, f[1] == "1")
	if err != nil {
		return nil, nil, 0, false, false, err
	}
	switch f[2] {
	case "cut":
		t, _ := strconv.Atoi(f[3])
		return doc, doc.bytes[:t], t, false, false, nil
	case "ow":
		lo, _ := strconv.Atoi(f[3])
		hi, _ := strconv.Atoi(f[4])
		bv, _ := strconv.Atoi(f[5])
		data = append([]byte(nil), doc.bytes...)
		for i := lo; i < hi; i++ {
			data[i] = byte(bv)
		}
		return doc, data, len(data), true, true, nil
	}
	return nil, nil, 0, false, false, fmt.Errorf("bad replay input")
}

func replayC20(input string) (bool, string) {
	doc, data, intact, skipX, tryReader, err := hisDamage(input)
	if err != nil {
		return true, "cannot regenerate: " + err.Error()
	}
	line, key, desc := hisScanOracle(doc, data, intact, skipX, tryReader)
	if key != "" {
		return false, fmt.Sprintf("%s: %s\nscan: %s\ndamaged file (%d of %d bytes): %q", key, desc, truncate(line), len(data), len(doc.bytes), data)
	}
	return true, "scan result: " + truncate(line)
}

func runC20(c *Ctx) {
	r := c.R
	nDocs := 24
	modelDocs := 6 // documents whose every cut is also sent to the model
	if c.Thorough {
		nDocs = 300
		modelDocs = 30
	}
	for di := 0; di < nDocs; di++ {
		seed := r.U64()
		small := di%2 == 0
		smallTag := "0"
		if small {
			smallTag = "1"
		}
		doc, err := hisWriteDoc(&Rand{s: seed}, small)
		if err != nil {
			c.Violate("scan", "writer-fails", "the Writer fails: "+err.Error(), fmt.Sprintf("%d %s cut 0", seed, smallTag))
			continue
		}
		c.Stat(fmt.Sprintf("doc_objects_%02d", len(doc.objs)))
		c.StatN("doc_bytes", len(doc.bytes))
		if bytes.HasPrefix(doc.bytes[doc.xrefLo:], []byte("xref")) {
			c.Stat("doc_xref_table")
		} else {
			c.Stat("doc_xref_stream")
		}
		if di < 2 {
			c.Sample(fmt.Sprintf("document %d bytes, %d objects: %q", len(doc.bytes), len(doc.objs), truncate(string(doc.bytes))))
		}
		// every truncation offset
		for t := 0; t <= len(doc.bytes); t++ {
			data := doc.bytes[:t]
			line, key, desc := hisScanOracle(doc, data, t, false, false)
			nComplete := 0
			for _, o := range doc.objs {
				if o.end <= t {
					nComplete++
				}
			}
			c.Case(fmt.Sprintf("%d cut %d", seed, t), nComplete > 0)
			if key != "" {
				c.Violate("scan", key, desc, fmt.Sprintf("%d %s cut %d", seed, smallTag, t))
			}
			if di < modelDocs {
				c.Emit("HIS scan "+hexWire(data), line)
			}
		}
		c.StatN("cuts", len(doc.bytes)+1)
		// xref damage: every single byte of the cross-reference data and of the startxref value,
		// and the whole ranges, overwritten with each garbage byte
		garbage := []byte{'X', '0', ' ', '\n', 0xff}
		type span struct{ lo, hi int }
		var spans []span
		for i := doc.xrefLo; i < doc.xrefHi; i++ {
			spans = append(spans, span{i, i + 1})
		}
		for i := doc.sxLo; i < doc.sxHi; i++ {
			spans = append(spans, span{i, i + 1})
		}
		spans = append(spans, span{doc.xrefLo, doc.xrefHi}, span{doc.sxLo, doc.sxHi}, span{doc.xrefLo, doc.xrefLo + 4}, span{doc.sxLo - 10, doc.sxLo - 1})
		for si, sp := range spans {
			for _, g := range garbage {
				data := append([]byte(nil), doc.bytes...)
				same := true
				for i := sp.lo; i < sp.hi; i++ {
					if data[i] != g {
						same = false
					}
					data[i] = g
				}
				if same {
					continue
				}
				line, key, desc, note := hisScanOracle2(doc, data, len(data), true, true)
				c.Stat("makereader_after_xref_damage_" + note)
				c.Case(fmt.Sprintf("%d ow %d %d %d", seed, sp.lo, sp.hi, g), true)
				if key != "" {
					c.Violate("scan", key, desc, fmt.Sprintf("%d %s ow %d %d %d", seed, smallTag, sp.lo, sp.hi, g))
				}
				if di < modelDocs && (si%7 == 0 || sp.hi-sp.lo > 1) {
					c.Emit("HIS scan "+hexWire(data), line)
				}
				c.Stat("xref_overwrites")
			}
		}
	}
	c.rep.Exhaustive = true

	// correspondence only (outside the Writer-generated quantifier): files of the independent
	// serialiser (several revisions, redefinitions, comments and odd white space around headers)
	// and crafted files in which a reference is defined twice and used as an indirect /Length
	nSynth := 150
	if c.Thorough {
		nSynth = 3000
	}
	for i := 0; i < nSynth; i++ {
		f := hisCase("rnd", r.U64(), nil)
		data := f.Bytes
		if r.P(1, 3) {
			data = data[:r.Intn(len(data)+1)]
		}
		line, _, _ := hisScanLine(data)
		c.Emit("HIS scan "+hexWire(data), line)
		c.Stat("synthetic_scan_" + strings.Fields(line)[0])

		body := append(hisGenBytes(r, 10), "\nendstream\nx"...)
		l1, l2 := len(body), r.Intn(len(body))
		if r.Bool() {
			l1, l2 = l2, l1
		}
		var b bytes.Buffer
		b.WriteString("%PDF-1.4\n")
		fmt.Fprintf(&b, "5 0 obj\n%d\nendobj\n", l1)
		fmt.Fprintf(&b, "1 0 obj\n<</Length 5 0 R>>\nstream\n%s\nendstream\nendobj\n", body)
		if r.Bool() {
			// a cross-reference section that is not closed by %%EOF before the next object
			b.WriteString(Pick(r, []string{"xref\n0 1\n0000000000 65535 f \ntrailer\n<<>>\nstartxref\n9\n", "trailer\n<<>>\n", "startxref\n9\n", "xref\n"}))
		}
		if r.Bool() {
			fmt.Fprintf(&b, "5 0 obj\n%d\nendobj\n", l2)
		}
		if r.P(1, 3) {
			b.WriteString("5 0 obj\n6 0 R\nendobj\n6 0 obj\n7\nendobj\n")
		}
		b.WriteString("trailer\n<<>>\n%%EOF\n")
		line, _, _ = hisScanLine(b.Bytes())
		c.Emit("HIS scan "+hexWire(b.Bytes()), line)
		c.Stat("crafted_duplicate_length_object")
	}
}

package main

import (
	"bufio"
	"bytes"
	"errors"
	"fmt"
	"io"
	"runtime/debug"
	"strconv"
	"strings"
	"time"

	"seehuhn.de/go/pdf"
)

// Property C19, Writer side, over every KIND of sink.
//
// pdf.NewWriter wraps the sink into its own bufio.Writer — unless the sink
// has a method Flush() error (interface writeFlusher in writer.go): then the
// Writer writes to it DIRECTLY.  bufio.Writer keeps the first error (sticky),
// so behind it a write error that is overlooked once still comes back from
// every later Write and from the final Flush of Close (theorem sink_fault).  A
// direct sink gives no such help: a failure of ONE Write (later ones succeed)
// is lost wherever the Writer overwrites or ignores an error between two
// writes (e.g. checking only the last error of a loop of fmt.Fprintf calls),
// and the file silently misses bytes.  The all-k enumeration of rob_c19.go
// only uses sinks behind the Writer's own bufio.Writer; this run adds
//
//	kinds  w  plain io.Writer          (Writer's bufio.Writer in between)
//	       W  io.WriteSeeker           (ditto; Placeholder.Set seeks)
//	       F  Write + Flush() error    (used directly), not seekable
//	       G  Write + Flush + Seek     (used directly), seekable
//	       B  *bufio.Writer made by the caller over a plain sink (used
//	          directly by the Writer; the caller's bufio is sticky)
//	modes  f  every sink call with index >= k fails
//	       o  only call k fails
//	       s  only call k writes half of the bytes and fails
//	       z  only call k writes half of the bytes and returns NO error
//	          (a sink that breaks the io.Writer contract; bufio turns this
//	          into io.ErrShortWrite)
//
// for every k, over documents with a classic cross-reference table of more
// than 50 objects (HumanReadable, and version 1.4) and with cross-reference
// streams + object streams.  Sink calls are Write, Seek and Flush.
//
// Oracle: when a sink call failed or wrote short, some Writer call up to and
// including Close returns a non-nil error, and (modes f, o, s) errors.Is it
// the injected error.  Replay: "<spec> <kind> <mode> <k>".

type c19sSink struct {
	c19Sink
	failedOp string // the sink method that failed or wrote short, with the Writer frames above it
}

func (s *c19sSink) note(op string) {
	if s.failedOp == "" {
		s.failedOp = op + " <- " + c19TopFrames(string(debug.Stack()))
	}
}

func (s *c19sSink) Write(p []byte) (int, error) {
	if s.mode == 'z' {
		idx := s.calls
		s.calls++
		if idx == s.k && len(p) > 0 {
			s.hits++
			s.note("Write(short,nil)")
			n := len(p) / 2
			s.put(p[:n])
			return n, nil
		}
		s.put(p)
		return len(p), nil
	}
	h := s.hits
	n, err := s.c19Sink.Write(p)
	if s.hits > h {
		s.note("Write")
	}
	return n, err
}

func (s *c19sSink) Flush() error {
	if s.fail() { // never in mode z
		s.note("Flush")
		return errInjected
	}
	return nil
}

type c19sPlain struct{ s *c19sSink }

func (w c19sPlain) Write(p []byte) (int, error) { return w.s.Write(p) }

type c19sSeeker struct{ s *c19sSink }

func (w c19sSeeker) Write(p []byte) (int, error) { return w.s.Write(p) }
func (w c19sSeeker) Seek(off int64, wh int) (int64, error) {
	h := w.s.hits
	n, err := w.s.Seek(off, wh)
	if w.s.hits > h {
		w.s.note("Seek")
	}
	return n, err
}

type c19sFlusher struct{ s *c19sSink }

func (w c19sFlusher) Write(p []byte) (int, error) { return w.s.Write(p) }
func (w c19sFlusher) Flush() error                { return w.s.Flush() }

type c19sFlushSeeker struct{ c19sSeeker }

func (w c19sFlushSeeker) Flush() error { return w.s.Flush() }

func c19sWriteOnce(spec robDocSpec, kind, mode byte, k int) (sink *c19sSink, err error, fatal string) {
	sink = &c19sSink{}
	sink.mode, sink.k = mode, k
	var w io.Writer
	var outer *bufio.Writer
	switch kind {
	case 'w':
		w = c19sPlain{sink}
	case 'W':
		w = c19sSeeker{sink}
	case 'F':
		w = c19sFlusher{sink}
	case 'G':
		w = c19sFlushSeeker{c19sSeeker{sink}}
	default: // 'B'
		outer = bufio.NewWriterSize(c19sPlain{sink}, 512)
		w = outer
	}
	type out struct {
		err   error
		fatal string
	}
	ch := make(chan out, 1)
	go func() {
		defer func() {
			if e := recover(); e != nil {
				ch <- out{nil, fmt.Sprintf("panic: %v\n%s", e, c19TopFrames(string(debug.Stack())))}
			}
		}()
		_, err := buildDoc(spec, w)
		ch <- out{err, ""}
	}()
	select {
	case o := <-ch:
		return sink, o.err, o.fatal
	case <-time.After(20 * time.Second):
		return sink, nil, "hang"
	}
}

// c19sMaskID blanks the file identifier (random in PDF 2.0 documents), so that two runs of
// the same program compare equal.
func c19sMaskID(d []byte) []byte {
	out := append([]byte{}, d...)
	for p := 0; ; {
		i := bytes.Index(out[p:], []byte("/ID["))
		if i < 0 {
			return out
		}
		i += p + 4
		depth := 0
		for ; i < len(out); i++ {
			if out[i] == '\\' && i+1 < len(out) {
				out[i], out[i+1] = 'x', 'x'
				i++
				continue
			}
			if out[i] == '(' {
				depth++
			} else if out[i] == ')' {
				depth--
			} else if out[i] == ']' && depth <= 0 {
				break
			}
			if out[i] != '(' && out[i] != ')' {
				out[i] = 'x'
			}
		}
		p = i
	}
}

var c19sBase = map[string][]byte{} // fault-free output per (spec, kind)

func c19sJudge(spec robDocSpec, kind, mode byte, k int) (reached bool, key, detail string) {
	bk := c19SpecWire(spec) + string(kind)
	base, ok := c19sBase[bk]
	if !ok {
		if b, err, fatal := c19sWriteOnce(spec, kind, 'n', 0); err == nil && fatal == "" {
			base = b.buf
		}
		c19sBase[bk] = base
	}
	sink, werr, fatal := c19sWriteOnce(spec, kind, mode, k)
	what := fmt.Sprintf("sink kind %c, call #%d (%s), mode %c; %s", kind, k, sink.failedOp, mode, spec)
	if mode == 'z' && fatal == "" && sink.hits > 0 && werr == nil && bytes.Equal(c19sMaskID(sink.buf), c19sMaskID(base)) {
		// the layer above the sink (bufio) wrote the remainder itself: nothing is missing
		return true, "", "short write completed by the layer above the sink"
	}
	switch {
	case fatal != "":
		return true, "C19-writer-" + strings.Fields(fatal)[0], fatal + " writing " + what
	case sink.hits == 0:
		return false, "", "the sink call was never reached"
	case werr == nil && strings.Contains(sink.failedOp, "Flush <-") && strings.Contains(sink.failedOp, "Placeholder).Set"):
		// finding ROB-8: Placeholder.Set calls x.pdf.w.Flush() and drops its error; behind the
		// Writer's own bufio.Writer the error is sticky and comes back, a sink that is used
		// directly loses a one-off failure
		return true, "C19-placeholder-set-flush-error-ignored", "the Flush at the start of Placeholder.Set failed on a sink the Writer uses directly, the error is dropped and no Writer call up to Close returned an error; " + what
	case werr == nil && mode == 'z' && strings.Contains(sink.failedOp, "Placeholder).Set"):
		// finding ROB-9a: Placeholder.Set ignores the byte count of fill.Write
		return true, "C19-sink-short-write-unnoticed-placeholder-set", "the Write of Placeholder.Set into the seekable sink accepted only half of the bytes (n < len(p), nil error; the sink breaks the io.Writer contract) and nothing noticed: the file keeps a part of the placeholder; " + what
	case werr == nil && mode == 'z' && (kind == 'F' || kind == 'G'):
		// finding ROB-9b: on a directly used sink nothing looks at the byte counts
		return true, "C19-sink-short-write-unnoticed-direct-sink", "a Write of a directly used sink accepted only half of the bytes (n < len(p), nil error; the sink breaks the io.Writer contract) and no Writer call up to Close returned an error: the file misses bytes; " + what
	case werr == nil && mode == 'z':
		return true, "C19-sink-short-write-unnoticed", "a sink Write accepted only half of the bytes (n < len(p), nil error) and no Writer call up to Close returned an error: the file misses bytes; " + what
	case werr == nil && (kind == 'F' || kind == 'G'):
		return true, "C19-direct-sink-error-swallowed", "a call of a sink that the Writer uses directly (it has Flush() error) failed but no Writer call up to Close returned an error; " + what
	case werr == nil:
		return true, "C19-sink-error-swallowed", "a sink call failed but no Writer call up to Close returned an error; " + what
	case mode != 'z' && !errors.Is(werr, errInjected):
		return true, "C19-sink-error-replaced", fmt.Sprintf("Writer returned %q which does not carry the sink's error; %s", werr, what)
	}
	return true, "", "error returned: " + werr.Error()
}

func robC19SinkKindsRun(c *Ctx) {
	r := c.R.Fork()
	specs := []robDocSpec{
		{Version: pdf.V1_7, Human: true, NPages: 26, NExtra: 10, Seed: r.U64(), FilterMix: 1},
		{Version: pdf.V1_4, Human: false, NPages: 26, NExtra: 10, Seed: r.U64(), FilterMix: 0},
		{Version: pdf.V1_7, Human: false, NPages: 6, NExtra: 12, Seed: r.U64(), FilterMix: 2},
	}
	if c.Thorough {
		for i := 0; i < 12; i++ {
			s := genDocSpec(r)
			s.NPages += r.Intn(30)
			s.NExtra += r.Intn(12)
			// no random file identifier: the silent-short-write oracle compares the output with a second run
			s.OwnerPW, s.UserPW = "", ""
			if s.Version >= pdf.V2_0 {
				s.Version = pdf.V1_7
			}
			specs = append(specs, s)
		}
	}
	for _, spec := range specs {
		for _, kind := range []byte{'w', 'W', 'F', 'G', 'B'} {
			base, err, fatal := c19sWriteOnce(spec, kind, 'n', 0)
			if fatal != "" || err != nil {
				c.Stat("c19s_faultfree_failed")
				if fatal != "" {
					c.Violate("c19sink", "C19-writer-"+strings.Fields(fatal)[0], fatal, fmt.Sprintf("%s %c n 0", c19SpecWire(spec), kind))
				}
				continue
			}
			total := base.calls
			c.StatN(fmt.Sprintf("c19s_sink_calls_kind_%c", kind), total)
			step := 1
			if !c.Thorough && total > 700 {
				step = 1 + total/700 // direct sinks see one Write per Fprintf: sample evenly, the table and trailer densely
			}
			for _, mode := range []byte{'f', 'o', 's', 'z'} {
				viol := 0
				for k := 0; k < total; k++ {
					if step > 1 && k%step != 0 && k < total-260 {
						continue
					}
					input := fmt.Sprintf("%s %c %c %d", c19SpecWire(spec), kind, mode, k)
					reached, key, detail := c19sJudge(spec, kind, mode, k)
					c.Case(input, reached)
					if key != "" {
						c.Stat(fmt.Sprintf("c19s_fail_%s_kind_%c_mode_%c", key, kind, mode))
						if viol < 3 { // further cases of the same kind and mode repeat the finding
							c.Violate("c19sink", key, detail, input)
						}
						viol++
					} else if reached {
						c.Stat("c19s_error_reported")
					} else {
						c.Stat("c19s_fault_not_reached")
					}
				}
			}
		}
	}
}

// replay input: "<spec> <kind> <mode> <k>"
func replayC19Sink(input string) (bool, string) {
	f := strings.Fields(input)
	if len(f) != 4 {
		return true, "bad replay input"
	}
	spec, err := c19SpecUnwire(f[0])
	if err != nil {
		return true, "bad replay input"
	}
	k, _ := strconv.Atoi(f[3])
	_, key, detail := c19sJudge(spec, f[1][0], f[2][0], k)
	if key != "" {
		return false, key + ": " + detail
	}
	return true, detail
}

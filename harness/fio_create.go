package main

import (
	"bytes"
	"fmt"
	"os"
	"path/filepath"
	"strconv"
	"strings"
)

// FIO work package, property C03: the pdf.Create(path, …) entry point.  The
// same programs as for NewWriter are written to a real file
//
//	mode 0: at a fresh path,
//	mode 1: at a path that already holds a LONGER file (a bigger document
//	        followed by junk that ends in a plausible "startxref … %%EOF"),
//	mode 2: at a path that holds a shorter file,
//	mode 3: NewWriter on an *os.File which already holds other data and is
//	        positioned behind it (a PDF file appended to a preamble: all
//	        positions are counted from %PDF-, the seek-back for /Length must add
//	        the offset of the first byte),
//
// then the bytes are read back from disk, judged by the independent checker
// (Spec/FIOFileWF.lean) against the Writer's own cross-reference table, and —
// for unencrypted programs without a randomly generated ID, whose output is deterministic — compared with the
// bytes the same operations produce through NewWriter on an in-memory
// io.WriteSeeker: they must be identical, in particular nothing may follow the
// final %%EOF.  The files live in a directory made with os.MkdirTemp which is
// removed at the end of the run.

const fioCreateModes = 4

// fioCreatePrefill is what the path holds before pdf.Create is called.
func fioCreatePrefill(mode int, ref []byte, salt int) []byte {
	switch mode {
	case 1:
		var b []byte
		b = append(b, ref...)
		b = append(b, ref...) // a "previous, bigger document"
		for i := 0; i < 50+salt%400; i++ {
			b = append(b, byte('a'+(i+salt)%26))
		}
		b = append(b, []byte("\n7 0 obj\n<</Stale true>>\nendobj\nxref\n0 1\n0000000000 65535 f\r\ntrailer\n<</Size 1>>\nstartxref\n9\n%%EOF\n")...)
		return b
	case 2:
		n := len(ref) / 2
		if salt%2 == 0 || n == 0 {
			return []byte("%PDF-1.1\njunk\n%%EOF\n")[:min(20, max(1, len(ref)-1))]
		}
		return append([]byte(nil), ref[:n]...)
	}
	return nil
}

// fioRunCreate writes prog through pdf.Create at dir/name after preparing the
// path according to mode; ref is the output of the buffer run.
func fioRunCreate(dir string, p *fioProg, mode int, ref []byte, salt int) (*fioResult, error) {
	path := filepath.Join(dir, fmt.Sprintf("f%d.pdf", salt))
	if mode == 1 || mode == 2 {
		if err := os.WriteFile(path, fioCreatePrefill(mode, ref, salt), 0o600); err != nil {
			return nil, err
		}
	} else {
		os.Remove(path)
	}
	q := *p
	q.ops = append([]fioOp(nil), p.ops...)
	q.seekable = true // an *os.File is an io.WriteSeeker
	q.createPath = path
	if mode == 3 {
		os.Remove(path)
		q.createPrefix = []byte(fmt.Sprintf("preamble of %d bytes, not part of the PDF file %s\n", 60+salt%300, strings.Repeat("#", salt%300)))
	}
	res := fioExec(&q, nil)
	os.Remove(path)
	return res, nil
}

// fioCreateDeterministic: the two runs must produce the same bytes — no
// encryption (random keys, IVs) and no randomly generated file identifier
// (PDF 2.0 without WriterOptions.ID).
func fioCreateDeterministic(ref, disk *fioResult) bool {
	if ref.prog.encrypt || len(ref.id) != len(disk.id) {
		return false
	}
	for i := range ref.id {
		if !bytes.Equal(ref.id[i], disk.id[i]) {
			return false
		}
	}
	return true
}

// oracleCreate: the checks on one Create run that need no Lean (the checker
// line is emitted by the caller).
func oracleCreate(ref, disk *fioResult, mode int) (v []fioViolation) {
	if disk.failedAt != -1 {
		return []fioViolation{{"create-failed", fmt.Sprintf("mode %d: the program accepted by NewWriter failed through pdf.Create at op %d: %v", mode, disk.failedAt, disk.err)}}
	}
	if disk.prefixDamaged {
		v = append(v, fioViolation{"seek-base-offset", fmt.Sprintf("mode %d: the bytes which the file held before NewWriter was called were overwritten", mode)})
	}
	if !bytes.HasSuffix(disk.file, []byte("%%EOF\n")) {
		tail := disk.file[max(0, len(disk.file)-40):]
		v = append(v, fioViolation{"create-no-eof-at-end", fmt.Sprintf("mode %d: the file on disk (%d bytes) does not end in %%%%EOF: …%q", mode, len(disk.file), tail)})
	}
	if fioCreateDeterministic(ref, disk) && !bytes.Equal(disk.file, ref.file) {
		k := 0
		for k < len(disk.file) && k < len(ref.file) && disk.file[k] == ref.file[k] {
			k++
		}
		key := "create-bytes-differ"
		if len(disk.file) > len(ref.file) && k == len(ref.file) {
			key = "create-stale-tail"
		}
		if mode == 3 {
			key = "seek-base-offset"
		}
		v = append(v, fioViolation{key, fmt.Sprintf("mode %d: pdf.Create left %d bytes on disk, NewWriter on a buffer produced %d bytes for the same operations; first difference at offset %d", mode, len(disk.file), len(ref.file), k)})
	}
	return v
}

func runFIOCreate(c *Ctx) {
	dir, err := os.MkdirTemp("", "verif-fio-create-")
	if err != nil {
		c.Violate("create-wf", "tempdir", "os.MkdirTemp: "+err.Error(), "")
		return
	}
	defer os.RemoveAll(dir)
	r := c.R.Fork()
	n := 80
	if c.Thorough {
		n = 1500
	}
	for i := 0; i < n; i++ {
		ref := fioGenProg(r.Fork(), false, 0)
		if ref.failedAt != -1 || len(ref.file) > 40000 {
			continue
		}
		// the reference run: the same operations on an in-memory WriteSeeker
		if !ref.prog.seekable {
			q := *ref.prog
			q.ops = append([]fioOp(nil), ref.prog.ops...)
			q.seekable = true
			ref = fioExec(&q, nil)
			if ref.failedAt != -1 {
				continue
			}
		}
		text := ref.prog.String()
		for mode := 0; mode < fioCreateModes; mode++ {
			input := strconv.Itoa(mode) + ";" + strconv.Itoa(i) + ";" + text
			c.Case(input, len(ref.written) > 0)
			c.Stat(fmt.Sprintf("create_mode_%d", mode))
			disk, err := fioRunCreate(dir, ref.prog, mode, ref.file, i)
			if err != nil {
				c.Violate("create-wf", "tempfile", err.Error(), input)
				continue
			}
			for _, v := range oracleCreate(ref, disk, mode) {
				c.Violate("create-wf", v.key, v.desc, input)
			}
			if disk.failedAt != -1 {
				continue
			}
			if !fioCreateDeterministic(ref, disk) {
				c.Stat("create_random_id_or_encrypted_checker_only")
			} else {
				c.Stat("create_bytes_compared")
			}
			// the independent checker on the bytes read from disk
			chk, want, _, _, err := fioChkLines(disk)
			if err != nil && disk.prog.encrypt && disk.nextRef > 8192 && strings.Contains(err.Error(), "invalid cross-reference table") {
				// finding D26 (reported under C02): the library's reader, which the harness
				// needs to decrypt object streams, refuses the file
				c.Stat("create_skipped_library_reader_refuses_file")
				continue
			}
			if err != nil {
				c.Violate("create-wf", "file-not-parseable", fmt.Sprintf("mode %d: taking the file on disk apart: %v", mode, err), input)
				continue
			}
			c.Emit(chk, want)
		}
	}
}

func replayFIOCreate(input string) (bool, string) {
	f := strings.SplitN(input, ";", 3)
	if len(f) != 3 {
		return true, "bad replay input"
	}
	mode, _ := strconv.Atoi(f[0])
	salt, _ := strconv.Atoi(f[1])
	p, err := fioParseProg(f[2])
	if err != nil {
		return true, "bad replay input: " + err.Error()
	}
	p.seekable = true
	ref := fioExec(p, nil)
	if ref.failedAt != -1 {
		return true, fmt.Sprintf("NewWriter refuses the program at op %d: %v (nothing to check)", ref.failedAt, ref.err)
	}
	dir, err := os.MkdirTemp("", "verif-fio-create-")
	if err != nil {
		return true, "os.MkdirTemp: " + err.Error()
	}
	defer os.RemoveAll(dir)
	disk, err := fioRunCreate(dir, p, mode, ref.file, salt)
	if err != nil {
		return true, err.Error()
	}
	var msgs []string
	for _, v := range oracleCreate(ref, disk, mode) {
		msgs = append(msgs, v.key+": "+v.desc)
	}
	if len(msgs) == 0 {
		return true, "pdf.Create leaves exactly the bytes of the buffer run on disk"
	}
	return false, strings.Join(msgs, "\n")
}

func init() {
	addRun("C03", "pdf.Create(path, …): the writer programs of C02 written to a real file at a fresh path, at a path holding a LONGER file (a bigger document plus junk ending in a plausible startxref/%%EOF) and at a path holding a shorter file (temp dir from os.MkdirTemp, removed afterwards); the bytes read back from disk must end in %%EOF, must be identical to the bytes the same operations produce through NewWriter on an in-memory WriteSeeker (unencrypted programs; no stale tail), and are given to the independent checker checkFile with the Writer's own cross-reference table as the expected result.  Non-trivial: at least one object written; distinct by mode and program text.", runFIOCreate)
	addReplay("C03", "create-wf", replayFIOCreate)
}

package main

import (
	"bytes"
	"fmt"
)

// ---- C08: progressive JPEGs with very many scans (work proportional to input + output) ----
//
// One grey component, SOF2, w x h up to 2048 x 2048.  Every AC scan covers the band 1..63 of all
// blocks and consists of a handful of end-of-band run tokens (EOBn + n extra bits skips up to
// 32767 all-zero blocks), so a scan costs about 16 input bytes but one traversal of the whole
// coefficient buffer.  First-pass scans (Ah = 0) and refinement scans (Ah = 1, Al = 0) use the
// same tokens.  The decoder caps the number of coefficient-block visits (maxProgPasses in
// internal/filter/dct/jpeg/scan.go); the oracle demands: malformed, or decoded with
// scans x blocks <= 4 x (input + output) and within 3 s + 200 ns x (input + output) of CPU time.

type fbBitW struct {
	buf  []byte
	acc  uint32
	nacc uint
}

func (w *fbBitW) put(v uint32, n uint) {
	for i := int(n) - 1; i >= 0; i-- {
		w.acc = w.acc<<1 | (v>>uint(i))&1
		w.nacc++
		if w.nacc == 8 {
			w.buf = append(w.buf, byte(w.acc))
			if byte(w.acc) == 0xff {
				w.buf = append(w.buf, 0) // byte stuffing
			}
			w.acc, w.nacc = 0, 0
		}
	}
}

func (w *fbBitW) flush() []byte {
	for w.nacc != 0 {
		w.put(1, 1)
	}
	return w.buf
}

// fbEOBRuns: tokens that skip exactly n blocks (AC table: 4-bit code k = symbol EOBk).
func fbEOBRuns(n int) []byte {
	var w fbBitW
	for n > 0 {
		r := min(n, 32767)
		k := uint(0)
		for 1<<(k+1) <= r {
			k++
		}
		w.put(uint32(k), 4)
		w.put(uint32(r-1<<k), k)
		n -= r
	}
	return w.flush()
}

type fbProgSpec struct {
	w, h      int
	dcScan    bool
	firstPass int // number of first-pass AC scans (Ah=0)
	refine    int // number of refinement AC scans (Ah=1, Al=0), interleaved after the first passes
	mixed     bool
	pad       int // bytes of a COM segment (raises the stream budget, as a longer legitimate file would)
}

func (s fbProgSpec) blocks() int { return ((s.w + 7) / 8) * ((s.h + 7) / 8) }

func (s fbProgSpec) String() string {
	return fmt.Sprintf("%dx%d dc=%v first=%d refine=%d mixed=%v pad=%d", s.w, s.h, s.dcScan, s.firstPass, s.refine, s.mixed, s.pad)
}

// work: coefficient-block visits a decoder performs if it processes every scan.
func (s fbProgSpec) work() int {
	n := s.firstPass + s.refine
	if s.dcScan {
		n++
	}
	return n * s.blocks()
}

func (s fbProgSpec) build() []byte {
	var out []byte
	out = append(out, 0xff, 0xd8)
	for left := s.pad; left > 0; {
		k := min(left, 60000)
		out = append(out, fbSeg(0xfe, make([]byte, k))...)
		left -= k
	}
	out = append(out, fbSeg(0xdb, append([]byte{0}, bytes.Repeat([]byte{1}, 64)...))...)
	out = append(out, fbSeg(0xc2, []byte{8, byte(s.h >> 8), byte(s.h), byte(s.w >> 8), byte(s.w), 1, 1, 0x11, 0})...)
	// DC table 0: one code of length 1 (category 0); AC table 0: fifteen codes of length 4, EOB0..EOB14
	out = append(out, fbSeg(0xc4, append([]byte{0x00, 1, 0, 0, 0, 0, 0, 0, 0, 0, 0, 0, 0, 0, 0, 0, 0}, 0))...)
	ac := []byte{0x10, 0, 0, 0, 15, 0, 0, 0, 0, 0, 0, 0, 0, 0, 0, 0, 0}
	for k := 0; k < 15; k++ {
		ac = append(ac, byte(k<<4))
	}
	out = append(out, fbSeg(0xc4, ac)...)
	n := s.blocks()
	if s.dcScan {
		out = append(out, fbSeg(0xda, []byte{1, 1, 0x00, 0, 0, 0x01})...) // DC, Al = 1
		var w fbBitW
		for i := 0; i < n; i++ {
			w.put(0, 1)
		}
		out = append(out, w.flush()...)
	}
	tokens := fbEOBRuns(n)
	first := append(fbSeg(0xda, []byte{1, 1, 0x00, 1, 63, 0x01}), tokens...) // Ah=0 Al=1
	ref := append(fbSeg(0xda, []byte{1, 1, 0x00, 1, 63, 0x10}), tokens...)   // Ah=1 Al=0
	nf, nr := s.firstPass, s.refine
	for nf > 0 || nr > 0 {
		if nf > 0 {
			out = append(out, first...)
			nf--
			if !s.mixed && nf > 0 {
				continue
			}
		}
		if nr > 0 {
			out = append(out, ref...)
			nr--
		}
	}
	return append(out, 0xff, 0xd9)
}

// fbProgCases: the grid for one run (quick: 40-60 files).
func fbProgCases(r *Rand, thorough bool) []fbProgSpec {
	var specs []fbProgSpec
	dims := [][2]int{{8, 8}, {64, 64}, {200, 120}, {512, 512}, {1024, 1024}, {2048, 2048}, {2048, 8}}
	counts := []int{1, 10, 63, 64, 65, 66, 200, 1000, 2500}
	for _, d := range dims {
		for _, n := range counts {
			if !thorough && d[0]*d[1] < 2048*2048 && d[0] != 64 && !r.P(1, 3) {
				continue
			}
			for kind := 0; kind < 4; kind++ {
				s := fbProgSpec{w: d[0], h: d[1]}
				switch kind {
				case 0:
					s.firstPass = n
				case 1:
					s.refine = n
				case 2:
					s.firstPass, s.refine, s.mixed = (n+1)/2, n/2, true
				default:
					s.dcScan, s.firstPass, s.refine = true, 1, n
				}
				if !thorough && kind >= 2 && !r.P(1, 2) {
					continue
				}
				// the coefficient buffer (256 bytes per block) must fit the stream budget
				// StreamBudgetBase + 1024 x input length, as it does for a legitimate file of this size
				need := s.blocks()*256 + s.w*8*4 + (1 << 16)
				if have := int(fbStreamBudgetOf(16*(s.firstPass+s.refine) + 300)); have < need {
					s.pad = (need-have)/1024 + 64
				}
				specs = append(specs, s)
			}
		}
	}
	return specs
}

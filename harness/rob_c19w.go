package main

import (
	"bytes"
	"crypto/sha1"
	"errors"
	"fmt"
	"reflect"
	"runtime/debug"
	"sort"
	"strconv"
	"strings"
	"time"

	"seehuhn.de/go/pdf"
	"seehuhn.de/go/pdf/document"
	"seehuhn.de/go/pdf/font"
	"seehuhn.de/go/pdf/font/cmap"
	"seehuhn.de/go/pdf/nametree"
	"seehuhn.de/go/pdf/numtree"
	"seehuhn.de/go/pdf/outline"
	"seehuhn.de/go/pdf/page"
	"seehuhn.de/go/pdf/pagelabel"
	"seehuhn.de/go/pdf/pagetree"
	"seehuhn.de/go/pdf/reader"
)

// Property C19 over the structures a document WALK reads (the sessions of
// rob_c19.go fetch objects, decode streams and iterate the page tree only):
// pages with resources and fonts (font dictionaries, /Widths, /ToUnicode,
// descendant fonts, encodings — every font kind of the repository's test
// suite), the text of the content streams as reader.Reader sees it, the name
// tree and a number tree with both API styles (streaming reader: All, Lookup
// of present and absent keys; in-memory reader; Size), page labels, the
// outline.  Documents are written by the library; every ReadAt index of the
// fault-free session is failed in turn (quick: a sample) in the modes
// f (from k on), o (only k), s (only k, half of the bytes with the error).
//
// Oracle, step by step against the fault-free session: the same result, or
// an error that errors.Is the injected one and is not IsMalformed.  A result
// that DIFFERS while the error is nil is the violation
// C19-io-error-swallowed-<consumer>, the consumer being the innermost frame
// of a library sub-package on the stack of the failing ReadAt.
//
// Replay: "<font kind> <version> <eh> <mode> <k>".

type c19wDoc struct {
	data  []byte
	names []pdf.Name
	nums  []pdf.Integer
}

func c19wBuild(kind string, v pdf.Version) (*c19wDoc, error) {
	k := fntKindByLabel(kind)
	if k == nil {
		return nil, errors.New("unknown font kind")
	}
	F, err := k.mk()
	if err != nil {
		return nil, err
	}
	buf := &bytes.Buffer{}
	doc, err := document.WriteMultiPage(buf, document.A4, v, nil)
	if err != nil {
		return nil, err
	}
	texts := []string{"Hello World fi", "ABC abc 123 xyz"}
	for _, t := range texts {
		pg := doc.AddPage()
		pg.TextBegin()
		pg.TextSetFont(F, 10)
		pg.TextFirstLine(36, 700)
		pg.TextShow(t)
		pg.TextSecondLine(0, -12)
		pg.TextShow("second line " + t)
		pg.TextEnd()
		if err := pg.Close(); err != nil {
			return nil, err
		}
	}
	d := &c19wDoc{}
	out := doc.Out
	// name tree with enough entries for intermediate nodes
	nm := map[pdf.Name]pdf.Object{}
	for i := 0; i < 150; i++ {
		n := pdf.Name(fmt.Sprintf("key%03d", i))
		ref := out.Alloc()
		if err := out.Put(ref, pdf.Dict{"D": pdf.Array{pdf.Integer(i), pdf.Name("Fit")}}); err != nil {
			return nil, err
		}
		nm[n] = ref
		d.names = append(d.names, n)
	}
	nref, err := nametree.WriteMap(out, nm)
	if err != nil {
		return nil, err
	}
	out.GetMeta().Catalog.Names = pdf.Dict{"Dests": nref}
	// a number tree under a private catalog-level key, and page labels
	var nums []pdf.Integer
	for i := 0; i < 150; i++ {
		nums = append(nums, pdf.Integer(3*i))
	}
	d.nums = nums
	numRef, err := numtree.Write(out, func(yield func(pdf.Integer, pdf.Object) bool) {
		for _, n := range nums {
			if !yield(n, pdf.String(fmt.Sprintf("value %d", n))) {
				return
			}
		}
	})
	if err != nil {
		return nil, err
	}
	out.GetMeta().Trailer["VerifNums"] = numRef
	if v >= pdf.V1_3 {
		labels, err := pagelabel.New(pagelabel.Entry{FirstPage: 0, Range: pagelabel.Range{Style: pagelabel.LowerRoman}},
			pagelabel.Entry{FirstPage: 1, Range: pagelabel.Range{Style: pagelabel.Decimal, Prefix: "p-", Start: 7}})
		if err == nil {
			if obj, err := doc.RM.Embed(labels); err == nil {
				out.GetMeta().Catalog.PageLabels = obj
			}
		}
	}
	// outline with children
	o := &outline.Outline{}
	for i := 0; i < 4; i++ {
		it := o.AddItem(fmt.Sprintf("chapter %d", i))
		for j := 0; j < 3; j++ {
			it.AddChild(fmt.Sprintf("section %d.%d", i, j)).AddChild("leaf")
		}
	}
	if ref, err := doc.RM.Store(o); err == nil {
		out.GetMeta().Catalog.Outlines = ref
	}
	if err := doc.Close(); err != nil {
		return nil, err
	}
	d.data = buf.Bytes()
	return d, nil
}

func c19wSession(d *c19wDoc, src *c19Src, eh pdf.ReaderErrorHandling) (res []c19Result) {
	add := func(name, repr string, err error) {
		if err != nil {
			repr = "error:" + robClass(err)
		}
		res = append(res, c19Result{name: name, repr: repr, err: err, raw: -1, site: src.hitSite})
		src.hitSite = ""
	}
	r, err := pdf.NewReader(src, int64(len(src.data)), &pdf.ReaderOptions{ErrorHandling: eh})
	if err == nil && r == nil {
		err = errors.New("nil reader without error")
	}
	if err != nil {
		add("open", "", err)
		return res
	}
	defer r.Close()
	add("open", c19Meta(r), nil)
	x := pdf.NewExtractor(r)
	cat := r.GetMeta().Catalog

	// pages: dictionary, page.Decode, the text as the reader package sees it
	it := pagetree.NewIterator(r)
	n := 0
	for ref, dict := range it.All() {
		n++
		pg, err := pdf.Decode(pdf.CursorAt(x, nil), dict, page.Decode)
		if err != nil || pg == nil {
			add(fmt.Sprintf("page %d decode", n), "nil page", err)
			continue
		}
		nf := 0
		if pg.Resources != nil {
			nf = len(pg.Resources.Font)
		}
		add(fmt.Sprintf("page %d decode", n), fmt.Sprintf("%s segments=%d fonts=%d", ref, len(pg.Contents), nf), nil)
		var sb strings.Builder
		rd := reader.New(x)
		rd.Character = func(c font.Code) error {
			fmt.Fprintf(&sb, "%q/%.4f/%d;", c.Text, c.Width, c.CID)
			return nil
		}
		err = rd.ProcessPage(pg)
		add(fmt.Sprintf("page %d text", n), fmt.Sprintf("%d:%x %s", sb.Len(), sha1.Sum([]byte(sb.String())), truncTo(sb.String(), 120)), err)
	}
	add("pages", strconv.Itoa(n), it.Err)

	// name tree, both API styles
	if cat != nil && cat.Names != nil {
		names, err := pdf.NewCursor(r).Dict(cat.Names)
		if err != nil {
			add("names dict", "", err)
		} else {
			root := names["Dests"]
			ff, err := nametree.ExtractFromFile(r, root)
			if err != nil || ff == nil {
				add("nametree fromfile", "nil", err)
			} else {
				var sb strings.Builder
				for k, v := range ff.All() {
					sb.WriteString(string(k) + "=" + c19ShowObj(v) + ";")
				}
				add("nametree all", fmt.Sprintf("%d:%x", sb.Len(), sha1.Sum([]byte(sb.String()))), c19wIterErr(ff))
				for _, key := range []pdf.Name{d.names[0], d.names[len(d.names)/2], d.names[len(d.names)-1], "absent", "key0755"} {
					v, err := ff.Lookup(key)
					if errors.Is(err, nametree.ErrKeyNotFound) {
						add("nametree lookup "+string(key), "notfound", nil)
					} else {
						add("nametree lookup "+string(key), c19ShowObj(v), err)
					}
				}
			}
			im, err := nametree.ExtractInMemory(r, root)
			if err != nil || im == nil {
				add("nametree inmemory", "nil", err)
			} else {
				var keys []string
				for k, v := range im.Data {
					keys = append(keys, string(k)+"="+c19ShowObj(v))
				}
				sort.Strings(keys)
				add("nametree inmemory", fmt.Sprintf("%d:%x", len(keys), sha1.Sum([]byte(strings.Join(keys, ";")))), nil)
			}
			sz, err := nametree.Size(r, root)
			add("nametree size", strconv.Itoa(sz), err)
		}
	}
	// number tree
	if root := r.GetMeta().Trailer["VerifNums"]; root != nil {
		ff, err := numtree.ExtractFromFile(r, root)
		if err != nil || ff == nil {
			add("numtree fromfile", "nil", err)
		} else {
			var sb strings.Builder
			for k, v := range ff.All() {
				fmt.Fprintf(&sb, "%d=%s;", k, c19ShowObj(v))
			}
			add("numtree all", fmt.Sprintf("%d:%x", sb.Len(), sha1.Sum([]byte(sb.String()))), c19wIterErr(ff))
			for _, key := range []pdf.Integer{d.nums[0], d.nums[len(d.nums)/2], d.nums[len(d.nums)-1], 1, 100000} {
				v, err := ff.Lookup(key)
				if errors.Is(err, numtree.ErrKeyNotFound) {
					add(fmt.Sprintf("numtree lookup %d", key), "notfound", nil)
				} else {
					add(fmt.Sprintf("numtree lookup %d", key), c19ShowObj(v), err)
				}
			}
		}
		im, err := numtree.ExtractInMemory(r, root)
		if err != nil || im == nil {
			add("numtree inmemory", "nil", err)
		} else {
			var keys []string
			for k, v := range im.Data {
				keys = append(keys, fmt.Sprintf("%d=%s", k, c19ShowObj(v)))
			}
			sort.Strings(keys)
			add("numtree inmemory", fmt.Sprintf("%d:%x", len(keys), sha1.Sum([]byte(strings.Join(keys, ";")))), nil)
		}
		sz, err := numtree.Size(r, root)
		add("numtree size", strconv.Itoa(sz), err)
	}
	// page labels
	if cat != nil && cat.PageLabels != nil {
		l, err := pagelabel.Extract(r, cat.PageLabels)
		if err != nil || l == nil {
			add("pagelabels", "nil", err)
		} else {
			add("pagelabels", l.Format(0)+","+l.Format(1)+","+l.Format(5), nil)
		}
	}
	// outline
	if cat != nil && cat.Outlines != 0 {
		o, err := pdf.Decode(pdf.NewCursor(r), cat.Outlines, outline.Decode)
		if err != nil || o == nil {
			add("outline", "nil", err)
		} else {
			var sb strings.Builder
			var walk func(items []*outline.Item, depth int)
			walk = func(items []*outline.Item, depth int) {
				for _, it := range items {
					fmt.Fprintf(&sb, "%d:%s;", depth, it.Title)
					walk(it.Children, depth+1)
				}
			}
			walk(o.Items, 0)
			add("outline", sb.String(), nil)
		}
	}
	return res
}

// c19wIterErr returns the error field "Err" of a streaming tree reader, if the library has one
// (an iterator has no error result of its own; pagetree.Iterator reports through such a field).
func c19wIterErr(tree any) error {
	v := reflect.ValueOf(tree)
	if v.Kind() == reflect.Pointer && !v.IsNil() {
		if f := v.Elem().FieldByName("Err"); f.IsValid() && f.CanInterface() {
			if err, ok := f.Interface().(error); ok {
				return err
			}
		}
	}
	return nil
}

func c19wGuarded(d *c19wDoc, src *c19Src, eh pdf.ReaderErrorHandling) (res []c19Result, fatal string) {
	type out struct {
		res   []c19Result
		fatal string
	}
	ch := make(chan out, 1)
	go func() {
		defer func() {
			if e := recover(); e != nil {
				ch <- out{nil, fmt.Sprintf("panic: %v\n%s", e, c19TopFrames(string(debug.Stack())))}
			}
		}()
		ch <- out{c19wSession(d, src, eh), ""}
	}()
	select {
	case o := <-ch:
		return o.res, o.fatal
	case <-time.After(30 * time.Second):
		return nil, "hang"
	}
}

// c19wCompare: "" when the property holds for every step.
func c19wCompare(base, got []c19Result, src *c19Src) (key, detail string) {
	bm := map[string]c19Result{}
	for _, b := range base {
		bm[b.name] = b
	}
	for _, g := range got {
		b, ok := bm[g.name]
		if !ok {
			return "C19-extra-step", g.name
		}
		site := g.site
		if site == "" {
			site = "pdf" // the fault struck below package pdf itself, or in an earlier step (cached state)
		}
		fn := site
		if i := strings.LastIndex(site, "."); i > 0 {
			site = site[:i] // the key names the package, the detail the function
		}
		switch {
		case g.err == nil && b.err == nil && g.repr == b.repr:
		case g.err == nil:
			return "C19-io-error-swallowed-" + site, fmt.Sprintf("step %q: %s with the fault and a nil error, %s fault-free (the failing ReadAt was below %s)", g.name, truncate(g.repr), truncate(b.repr), fn)
		case errors.Is(g.err, errInjected) && pdf.IsMalformed(g.err):
			return "C19-io-error-classified-malformed-" + site, fmt.Sprintf("step %q: %v (below %s)", g.name, g.err, fn)
		case errors.Is(g.err, errInjected):
		case b.err != nil && b.repr == g.repr:
		default:
			return "C19-io-error-replaced-" + site, fmt.Sprintf("step %q: error %q does not carry the injected error (class %s); fault-free: %s (below %s)", g.name, g.err, robClass(g.err), truncate(b.repr), fn)
		}
	}
	return "", ""
}

var c19wDocs = map[string]*c19wDoc{}

func c19wGetDoc(kind string, v pdf.Version) (*c19wDoc, error) {
	key := kind + "/" + v.String()
	if d, ok := c19wDocs[key]; ok {
		return d, nil
	}
	d, err := c19wBuild(kind, v)
	if err != nil && v < pdf.V2_0 {
		d, err = c19wBuild(kind, pdf.V2_0) // the font kind needs a later version
	}
	if err == nil {
		c19wDocs[key] = d
	}
	return d, err
}

func c19wJudge(kind string, v pdf.Version, eh pdf.ReaderErrorHandling, mode byte, k int) (reached bool, key, detail string) {
	d, err := c19wGetDoc(kind, v)
	if err != nil {
		return false, "", "cannot build the document: " + err.Error()
	}
	base, fatal := c19wGuarded(d, &c19Src{data: d.data, mode: 'n'}, eh)
	if fatal != "" {
		return true, "C19-faultfree-" + strings.Fields(fatal)[0], fatal
	}
	src := &c19Src{data: d.data, mode: mode, k: k}
	got, fatal := c19wGuarded(d, src, eh)
	if fatal != "" {
		return true, "C19-" + strings.Fields(fatal)[0], fatal
	}
	if src.hits == 0 {
		return false, "", "the ReadAt call was never reached"
	}
	key, detail = c19wCompare(base, got, src)
	if key != "" {
		detail += fmt.Sprintf("; fault mode %c at ReadAt #%d, font %s, PDF %s, eh=%d", mode, k, kind, v, int(eh))
	}
	return true, key, detail
}

func robC19WalkRun(c *Ctx) {
	r := c.R.Fork()
	fntInitKinds()
	var kinds []string
	for _, s := range fntKinds[:18] { // the 18 font/embedding kinds of the library's test suite
		kinds = append(kinds, s.label)
	}
	nDocs := 6
	if c.Thorough {
		nDocs = len(kinds)
	}
	perm := make([]int, len(kinds))
	for i := range perm {
		perm[i] = i
	}
	for i := len(perm) - 1; i > 0; i-- {
		j := r.Intn(i + 1)
		perm[i], perm[j] = perm[j], perm[i]
	}
	seenKey := map[string]int{}
	for i := 0; i < nDocs; i++ {
		kind := kinds[perm[i]]
		if !c.Thorough && i < 3 { // always a simple Type 1, a simple TrueType and a composite font
			kind = []string{kinds[0], kinds[len(kinds)/2], kinds[len(kinds)-1]}[i]
		}
		v := Pick(r, []pdf.Version{pdf.V1_4, pdf.V1_7, pdf.V2_0})
		eh := pdf.ReaderErrorHandling(r.Intn(3))
		d, err := c19wGetDoc(kind, v)
		if err != nil {
			c.Stat("c19k_doc_build_error")
			continue
		}
		baseSrc := &c19Src{data: d.data, mode: 'n'}
		base, fatal := c19wGuarded(d, baseSrc, eh)
		if fatal != "" {
			c.Violate("c19walk", "C19-faultfree-"+strings.Fields(fatal)[0], fatal, fmt.Sprintf("%s %d %d n 0", kind, int(v), int(eh)))
			continue
		}
		total := baseSrc.calls
		c.StatN("c19k_readat_calls", total)
		c.StatN("c19k_steps", len(base))
		step := 1
		if !c.Thorough && total > 150 {
			step = 1 + total/150
		}
		for _, mode := range []byte{'f', 'o', 's'} {
			for k := 0; k < total; k++ {
				if step > 1 && (k+int(mode))%step != 0 {
					continue
				}
				input := fmt.Sprintf("%s %d %d %c %d", kind, int(v), int(eh), mode, k)
				src := &c19Src{data: d.data, mode: mode, k: k}
				got, fatal := c19wGuarded(d, src, eh)
				c.Case(input, src.hits > 0)
				if fatal != "" {
					c.Violate("c19walk", "C19-"+strings.Fields(fatal)[0], fatal, input)
					continue
				}
				if src.hits == 0 {
					continue
				}
				key, detail := c19wCompare(base, got, src)
				if key == "" {
					c.Stat("c19k_ok")
					continue
				}
				c.Stat("c19k_fail_" + key)
				seenKey[key]++
				if seenKey[key] <= 2 {
					c.Violate("c19walk", key, detail+fmt.Sprintf("; fault mode %c at ReadAt #%d, font %s, PDF %s, eh=%d", mode, k, kind, v, int(eh)), input)
				}
			}
		}
	}
}

// replay input: "<font kind> <version> <eh> <mode> <k>"
func replayC19Walk(input string) (bool, string) {
	f := strings.Fields(input)
	if len(f) != 5 {
		return true, "bad replay input"
	}
	v, _ := strconv.Atoi(f[1])
	eh, _ := strconv.Atoi(f[2])
	k, _ := strconv.Atoi(f[4])
	_, key, detail := c19wJudge(f[0], pdf.Version(v), pdf.ReaderErrorHandling(eh), f[3][0], k)
	if key != "" {
		return false, key + ": " + detail
	}
	return true, detail
}

// ---- the reverse direction: malformed CONTENT must not look like an I/O error ----
//
// pdf.IsReadError(err) is "err != nil && !IsMalformed(err)": every error a decoder returns for
// bad content has to be a *pdf.MalformedFileError, or callers that tolerate malformed input and
// propagate read errors (as the fixes for the swallowed errors do) reject documents they used to
// read.  CMap and ToUnicode streams with syntax errors, with an unknown /UseCMap name and with a
// broken parent stream are decoded from fault-free memory; an error with IsReadError is the
// violation C19-content-error-as-io-error-<package>.

const c19cToUnicode = `/CIDInit /ProcSet findresource begin
12 dict begin
begincmap
/CIDSystemInfo << /Registry (Adobe) /Ordering (UCS) /Supplement 0 >> def
/CMapName /Adobe-Identity-UCS def
/CMapType 2 def
1 begincodespacerange
<0000> <FFFF>
endcodespacerange
2 beginbfchar
<0041> <0041>
<0042> <00420043>
endbfchar
1 beginbfrange
<0043> <0045> <0043>
endbfrange
endcmap
CMapName currentdict /CMap defineresource pop
end
end
`

const c19cCMap = `/CIDInit /ProcSet findresource begin
12 dict begin
begincmap
/CIDSystemInfo << /Registry (Test) /Ordering (X) /Supplement 0 >> def
/CMapName /Test-H def
/CMapType 1 def
1 begincodespacerange
<0000> <FFFF>
endcodespacerange
1 begincidrange
<0000> <00FF> 0
endcidrange
2 begincidchar
<0100> 300
<0101> 301
endcidchar
endcmap
CMapName currentdict /CMap defineresource pop
end
end
`

func c19cMutants(r *Rand, text string, n int) []string {
	out := []string{text}
	junk := []string{">>", "<<", ")", "(", "]", "[", "}", "{", "<zz>", "endcmap", "begincidrange", "99999999999999999999", "/", "%", "\x00", "def def", "usecmap", "/NoSuch usecmap"}
	for i := 0; i < n; i++ {
		b := []byte(text)
		switch r.Intn(5) {
		case 0: // cut
			b = b[:r.Intn(len(b))]
		case 1: // overwrite a byte
			b[r.Intn(len(b))] = byte(r.U64())
		case 2: // insert junk
			p := r.Intn(len(b))
			b = append(b[:p:p], append([]byte(Pick(r, junk)), b[p:]...)...)
		case 3: // drop a line
			lines := strings.Split(text, "\n")
			k := r.Intn(len(lines))
			b = []byte(strings.Join(append(lines[:k:k], lines[k+1:]...), "\n"))
		default: // duplicate a line
			lines := strings.Split(text, "\n")
			k := r.Intn(len(lines))
			b = []byte(strings.Join(append(lines[:k+1:k+1], lines[k:]...), "\n"))
		}
		out = append(out, string(b))
	}
	return out
}

// c19cDecode decodes object 5 of a hand-built file as CMap or ToUnicode CMap.
func c19cDecode(body, dictExtra string, parent *string, tounicode bool) (err error, panicked string) {
	defer func() {
		if e := recover(); e != nil {
			panicked = fmt.Sprint(e)
		}
	}()
	objs := []c05dObj{{}, {dict: "<</Type/Catalog/Pages 2 0 R>>"}, {dict: "<</Type/Pages/Kids[]/Count 0>>"}, {dict: "null"}, {dict: "null"},
		{dict: "/Type/CMap/CMapName/X" + dictExtra, data: []byte(body)}}
	if parent != nil {
		objs = append(objs, c05dObj{dict: "/Type/CMap/CMapName/P", data: []byte(*parent)})
	}
	data := c05dPDF(objs, 1)
	r, err := pdf.NewReader(bytes.NewReader(data), int64(len(data)), nil)
	if err != nil {
		return nil, ""
	}
	defer r.Close()
	x := pdf.NewExtractor(r)
	if tounicode {
		_, err = pdf.Decode(pdf.CursorAt(x, nil), pdf.NewReference(5, 0), cmap.ExtractToUnicode)
	} else {
		_, err = pdf.Decode(pdf.CursorAt(x, nil), pdf.NewReference(5, 0), cmap.Extract)
	}
	return err, ""
}

func c19cJudge(desc string, body, dictExtra string, parent *string, tounicode bool) (key, detail string) {
	err, pan := c19cDecode(body, dictExtra, parent, tounicode)
	if pan != "" {
		return "C19-panic-font/cmap", desc + ": panic: " + pan
	}
	if err != nil && pdf.IsReadError(err) {
		return "C19-content-error-as-io-error-font/cmap", fmt.Sprintf("%s: decoding from fault-free memory returned %q, which is not a malformed-file error (pdf.IsReadError is true)", desc, truncTo(err.Error(), 160))
	}
	return "", ""
}

func robC19ContentErrRun(c *Ctx) {
	r := c.R.Fork()
	n := 150
	if c.Thorough {
		n = 3000
	}
	seen := 0
	report := func(key, detail, input string) {
		c.Case(input, true)
		if key != "" {
			c.Stat("c19c_fail_" + key)
			if seen < 3 {
				c.Violate("c19content", key, detail, input)
			}
			seen++
		} else {
			c.Stat("c19c_ok")
		}
	}
	for tu := 0; tu < 2; tu++ {
		text := c19cCMap
		if tu == 1 {
			text = c19cToUnicode
		}
		for i, m := range c19cMutants(r, text, n) {
			key, d := c19cJudge(fmt.Sprintf("mutant %d of a %s stream", i, []string{"CMap", "ToUnicode"}[tu]), m, "", nil, tu == 1)
			report(key, d, fmt.Sprintf("mutant %d %s", tu, hexWire([]byte(m))))
		}
		// parents
		for _, pn := range []string{"/NoSuchCMap", "/Identity-H", "/", "/Adobe-Japan1-99", "(string)", "42", "[/A]", "6 0 R", "7 0 R", "5 0 R"} {
			broken := "begincmap >> ) endcmap"
			key, d := c19cJudge("/UseCMap "+pn+" in the stream dictionary", text, "/UseCMap "+pn, &broken, tu == 1)
			report(key, d, fmt.Sprintf("usecmap %d %s", tu, hexWire([]byte(pn))))
		}
		key, d := c19cJudge("usecmap operator naming an unknown CMap", strings.Replace(text, "begincmap\n", "begincmap\n/NoSuchCMap usecmap\n", 1), "", nil, tu == 1)
		report(key, d, fmt.Sprintf("usecmapop %d -", tu))
	}
}

// replay input: "mutant <0|1> <hex body>" | "usecmap <0|1> <hex of the /UseCMap value>" | "usecmapop <0|1> -"
func replayC19Content(input string) (bool, string) {
	f := strings.Fields(input)
	if len(f) != 3 {
		return true, "bad replay input"
	}
	tu := f[1] == "1"
	text := c19cCMap
	if tu {
		text = c19cToUnicode
	}
	var b []byte
	if f[2] != "-" {
		fmt.Sscanf(f[2], "%x", &b)
	}
	var key, d string
	switch f[0] {
	case "mutant":
		key, d = c19cJudge("mutant", string(b), "", nil, tu)
	case "usecmap":
		broken := "begincmap >> ) endcmap"
		key, d = c19cJudge("/UseCMap "+string(b), text, "/UseCMap "+string(b), &broken, tu)
	default:
		key, d = c19cJudge("usecmap operator", strings.Replace(text, "begincmap\n", "begincmap\n/NoSuchCMap usecmap\n", 1), "", nil, tu)
	}
	if key != "" {
		return false, key + ": " + d
	}
	return true, "malformed content is reported as malformed (or tolerated)"
}

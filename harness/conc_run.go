package main

import (
	"fmt"
	"runtime"
	"strconv"
	"strings"
)

// C18, run 1: every interleaving of small programs on the real Extractor.

func init() {
	addRun("C18", "programs of 2-4 threads calling Decode / DecodeExclusive / StoreOrLoadPair over reference chains and cycles with gating Getter and decode functions (curated scenarios, every pair of calls from a fixed alphabet under eight reference graphs, random programs with nested decodes); every schedule of each program is executed on the real code (one goroutine released at a time) and the multiset of outcomes is compared with the model's; oracles on each execution: pointer-identical results per (reference, type), published cache entries never change, exclusive decodes run in the registered owner only and waiters get its outcome, Decode-only programs never block, no panic. A case is one program; non-trivial when it has more than one schedule; distinct by program text + reference graph.", runConcSched)
	addReplay("C18", "sched", replayConcSched)
}

var concGetters = []string{
	"1>2",             // chain
	"1>2,2>3",         // chain of three
	"1>2,2>1",         // two-cycle
	"1>1,2>1",         // self-cycle with an entry
	"1>2,3>2",         // two heads, one target
	"1>e,2>1",         // failing object behind a reference
	"-",               // all direct
	"1>2,2>3,3>1,4>2", // three-cycle with an entry
}

// scenarios written by hand: (reference graph, program)
var concCurated = [][2]string{
	{"1>2", "D0:r1[+]|D0:r2[+],D0:r2[+]"},                                  // D12
	{"1>2", "D0:r1[+]|D0:r2[+]|D0:r1[+]"},                                  // three racers on a chain
	{"1>2,2>3", "D0:r1[+]|D0:r2[+]|D0:r3[+]"},                              // chain of three, one racer per link
	{"-", "D0:r1[^D0:r2[^D0:r1[+];=0];=0]|D0:r2[^D0:r1[^D0:r2[+];=0];=0]"}, // mutually referential objects, two goroutines
	{"-", "D0:r1[D0:r2[D0:r1[+];=0];=0]|D0:r2[D0:r1[D0:r2[+];=0];=0]"},     // the same with inherited cursors: cycle errors
	{"1>2,2>1", "D0:r1[+]|D0:r2[+]"},                                       // reference cycle
	{"-", "X0:r1[+]|X0:r1[+]|X0:r1[+]"},                                    // three exclusive decodes of one reference
	{"-", "X0:r1[-]|X0:r1[+]|X0:r1[+]"},                                    // the first owner fails
	{"1>2", "X0:r1[+]|X0:r2[+]|D0:r1[+]"},                                  // exclusive and plain decodes over a chain
	{"-", "X0:r1[D0:r2[+];+]|D0:r2[^X0:r1[+];+]"},                          // the page/form pattern
	{"-", "X0:r1[X0:r1[+];=0]"},                                            // documented self-deadlock
	{"-", "X0:r1[^X0:r2[+];+]|X0:r2[^X0:r1[+];+]"},                         // documented cross deadlock
	{"-", "P01:r1|P01:r1|D0:r1[+]"},                                        // pairs racing a decode
	{"-", "D0:r1[P01:r1;=0]|D1:r1[P10:r1;=0]|D0:r1[P01:r1;=0]"},            // merged field/widget pattern
	{"-", "P00:r1|P00:r1"},                                                 // both halves under one type
	{"-", "D2:r1[0],D2:r1[+]|D2:r1[+]"},                                    // nil interface value through Decode (no panic)
	{"1>2", "D0:d[+],D0:r1[D0:d[+];+]|X0:d[+]"},                            // direct objects
	{"1>2,2>3", "D0:r1[-]|D0:r2[+]|D1:r1[+]"},                              // errors are not cached; types are separate
	{"-", "X0:r1[!]|X0:r1[+],X0:r1[+]"},                                    // the owner's function panics: waiters are released with an error, later calls start afresh
	{"-", "X0:r1[X0:r2[!];+]|X0:r2[+]|X0:r1[+]"},                           // ... nested: both markers are released
	{"-", "X2:r1[0],X2:r1[+]"},                                             // C18-F1 (fixed in e69b1c0): nil interface value, second exclusive decode; regression detector
	{"-", "X2:r1[0]|X2:r1[+]"},                                             // C18-F1 (fixed): ... and the waiter
	{"1>2", "D0:r2[+],D0:r1[+],P01:r1,D0:r1[+]"},                           // C18-F2: pair published on the head of a reference chain
	{"1>2", "D0:r2[+],X0:r1[+]|X0:r1[+]"},                                  // the owner's Decode ends in a cache hit below the head: nothing is cached under (r1, T0), the waiter still gets the owner's value
	{"1>2,2>3", "X0:r3[+],X0:r1[+]|X0:r1[+]|D0:r1[+]"},                     // ... two links, pre-cached by DecodeExclusive
	{"1>2,2>3", "D0:r3[+],D0:r2[+],X0:r1[+]|X0:r1[+]"},                     // ... the pre-decode of r2 is itself a hit at r3
	{"1>2", "D1:r2[+],X0:r1[+]|X0:r1[+]"},                                  // ... cached under another type only: the function runs
}

// calls used for the exhaustive two-thread enumeration
var concAlphabet = []string{
	"D0:r1[+]", "D0:r2[+]", "D0:r3[+]", "D0:r1[-]", "D1:r1[+]",
	"D0:r1[^D0:r2[+];+]", "D0:r2[^D0:r1[+];=0]", "D0:r1[D0:r2[+];=0]",
	"X0:r1[+]", "X0:r2[+]", "X0:r1[-]", "X0:r1[^D0:r2[+];+]", "X0:r2[^D0:r1[+];=0]",
	"P01:r2", "P01:r3", "D0:r2[P01:r2;=0]", "D0:d[^D0:r1[+];=0]",
}

func concPairOnChain(p *concProg, g concGetter) bool {
	var walk func(op *concOp) bool
	walk = func(op *concOp) bool {
		if op.pair && g.chainHead(op.obj.ref) {
			return true
		}
		for _, n := range op.nested {
			if walk(n.op) {
				return true
			}
		}
		return false
	}
	for _, th := range p.threads {
		for _, op := range th {
			if walk(op) {
				return true
			}
		}
	}
	return false
}

// ---- reference chains with pre-cached links
//
// A chain r1 > r2 > … of 1–3 links; thread 0 first, alone (program text `pre/…`), caches a choice of the links r2… (by Decode or
// by DecodeExclusive, under the type of the later calls or under another one, innermost first, so
// an outer pre-decode ends in a cache hit further down and is NOT published under the outer
// reference), then k >= 2 threads decode the head r1, at least one of them with DecodeExclusive.
// Every schedule is executed (the owner is parked inside Get of every link and at every hook while
// the others arrive).  What must hold is what the generic oracles and the outcome comparison with
// the model say: every caller of the head gets the one non-nil value a sequential run gives, a
// waiter gets its owner's outcome (`exclusive_outcome_shared`), also when the owner's Decode ended
// in a cache hit below the head and nothing is cached under (head, T).

var concChainGraphs = []string{"1>2", "1>2,2>3", "1>2,2>3,3>4"}

// modes of one link: not pre-cached, Decode/DecodeExclusive under T0, Decode/DecodeExclusive under T1
var concChainModes = []string{"", "D0", "X0", "D1", "X1"}

var concChainHeads = [][]string{
	{"X0:r1[+]", "X0:r1[+]"},
	{"X0:r1[+]", "D0:r1[+]"},
	{"D0:r1[+]", "X0:r1[+]"},
	{"X0:r1[+]", "X0:r1[+]", "X0:r1[+]"},
	{"X0:r1[+]", "D0:r1[+]", "X0:r1[+]"},
}

// concChainProgram: modes[i] is the mode of link r(i+2)
func concChainProgram(modes []int, heads []string) string {
	var pre []string
	for i := len(modes) - 1; i >= 0; i-- {
		if m := concChainModes[modes[i]]; m != "" {
			pre = append(pre, fmt.Sprintf("%s:r%d[+]", m, i+2))
		}
	}
	ths := make([]string, len(heads))
	for t, h := range heads {
		ths[t] = h
		if t == 0 {
			ths[t] = h
			if len(pre) > 0 {
				ths[t] = strings.Join(pre, ",") + "/" + h
			}
		}
	}
	return strings.Join(ths, "|")
}

func runConcChains(c *Ctx, maxLeaves int) {
	for l, g := range concChainGraphs {
		links := l + 1
		n := 1
		for i := 0; i < links; i++ {
			n *= len(concChainModes)
		}
		for code := 1; code < n; code++ {
			modes := make([]int, links)
			for i, x := 0, code; i < links; i, x = i+1, x/len(concChainModes) {
				modes[i] = x % len(concChainModes)
			}
			uniform, first := true, 0
			for _, m := range modes {
				if m != 0 && first != 0 && m != first {
					uniform = false
				}
				if m != 0 && first == 0 {
					first = m
				}
			}
			for hi, heads := range concChainHeads {
				// quick tier: every subset of the links pre-cached in one way with every shape of
				// callers; of the subsets pre-cached in mixed ways a seed-dependent fifth
				if !c.Thorough && !uniform && (code+hi)%5 != int(c.R.s%5) {
					continue
				}
				concDoProgram(c, g, concChainProgram(modes, heads), maxLeaves, "chain with pre-cached links")
			}
		}
	}
}

// ---- random programs

func concGenOp(r *Rand, depth int, nrefs int, budget *int) string {
	*budget--
	tp := 0
	switch r.Intn(10) {
	case 0, 1:
		tp = 1
	case 2:
		tp = 2
	case 3:
		if r.Bool() {
			tp = 3
		}
	}
	ref := 1 + r.Intn(nrefs)
	k := r.Intn(20)
	if k < 3 {
		a, b := tp, r.Intn(4)
		if r.P(2, 3) {
			b = (a + 1) % 2
		}
		return fmt.Sprintf("P%d%d:r%d", a, b, ref)
	}
	kind := "D"
	if k < 8 {
		kind = "X"
	}
	obj := "r" + strconv.Itoa(ref)
	if r.P(1, 12) {
		obj = "d"
	}
	var sb strings.Builder
	fmt.Fprintf(&sb, "%s%d:%s[", kind, tp, obj)
	var same []int
	if depth < 2 {
		n := 0
		for n < 2 && *budget > 0 && r.P(2, 5) {
			sub := concGenOp(r, depth+1, nrefs, budget)
			if r.Bool() {
				sb.WriteByte('^')
			}
			sb.WriteString(sub)
			sb.WriteByte(';')
			if sub[0] != 'P' && int(sub[1]-'0') == tp {
				same = append(same, n)
			} else if sub[0] == 'P' && int(sub[1]-'0') == tp {
				same = append(same, n)
			}
			n++
		}
	}
	switch x := r.Intn(40); {
	case x < 6 && len(same) > 0:
		fmt.Fprintf(&sb, "=%d", Pick(r, same))
	case x < 10:
		sb.WriteByte('-')
	case x == 10:
		sb.WriteByte('0')
	case x == 11 && r.P(1, 4):
		sb.WriteByte('!')
	default:
		sb.WriteByte('+')
	}
	sb.WriteByte(']')
	return sb.String()
}

func concGenProg(r *Rand, maxThreads int) (string, string) {
	g := Pick(r, concGetters)
	nth := 2 + r.Intn(maxThreads-1)
	budget := 5 + r.Intn(3)
	var ths []string
	for t := 0; t < nth; t++ {
		var ops []string
		n := 1
		if r.P(1, 3) {
			n = 2
		}
		for i := 0; i < n; i++ {
			if budget <= 0 && i > 0 {
				break
			}
			ops = append(ops, concGenOp(r, 0, 4, &budget))
		}
		ths = append(ths, strings.Join(ops, ","))
	}
	return g, strings.Join(ths, "|")
}

// ---- the run

// concMarkerLeak is set once a waiter was found hanging behind a panicked owner; further programs
// of that kind are skipped (each would cost the watchdog's 8 s).
var concMarkerLeak bool

func concDoProgram(c *Ctx, gtext, ptext string, maxLeaves int, origin string) {
	p, err := parseConcProg(ptext)
	if err != nil {
		panic(err)
	}
	if concMarkerLeak && p.fnPanic && p.hasExcl {
		c.Stat("programs skipped: panicking exclusive owner (marker leak already reported)")
		return
	}
	g, gmax := parseConcGetter(gtext)
	poc := concPairOnChain(p, g)
	sampleEvery := 7
	if maxLeaves <= 300 {
		sampleEvery = 15 // the chain programs of the quick tier: twenty sampled schedules each
	}
	ex := concExploreAll(p, g, gmax, maxLeaves, poc, sampleEvery)
	c.Case(gtext+" "+ptext, ex.leaves > 1)
	c.Stat("programs:" + origin)
	c.StatN("schedules executed on the real code", ex.leaves)
	c.Stat(fmt.Sprintf("threads=%d", len(p.threads)))
	switch {
	case ex.leaves >= 10000:
		c.Stat("schedules>=10000")
	case ex.leaves >= 1000:
		c.Stat("schedules 1000..9999")
	case ex.leaves >= 100:
		c.Stat("schedules 100..999")
	case ex.leaves >= 10:
		c.Stat("schedules 10..99")
	default:
		c.Stat("schedules<10")
	}
	if p.hasExcl {
		c.Stat("uses DecodeExclusive")
	}
	if p.hasPair {
		c.Stat("uses StoreOrLoadPair")
	}
	if len(ex.outcomes) > 1 {
		c.Stat("schedule-dependent outcome")
	}
	for o := range ex.outcomes {
		if strings.Contains(o, "[blocked]") {
			c.Stat("has a deadlocking schedule (DecodeExclusive)")
			break
		}
	}
	if _, leak := ex.viol["excl-marker-not-released"]; leak {
		concMarkerLeak = true
	}
	for key, desc := range ex.viol {
		sched := "-"
		if i := strings.LastIndex(desc, "[schedule "); i >= 0 {
			sched = strings.TrimSuffix(desc[i+len("[schedule "):], "]")
		}
		c.Violate("sched", key, fmt.Sprintf("%s  program %q graph %q", desc, ptext, gtext), gtext+" "+ptext+" "+sched)
	}
	if ex.stuck {
		return
	}
	if !ex.truncated {
		c.Emit(fmt.Sprintf("CONC explore f %s %s", gtext, ptext), ex.digest())
		c.Stat("programs explored exhaustively")
	} else {
		c.Stat("programs cut at the schedule limit (sampled lines only)")
	}
	for _, s := range ex.samples {
		so := strings.SplitN(s, "\x00", 2)
		c.Emit(fmt.Sprintf("CONC run f %s %s %s", gtext, ptext, so[0]), so[1])
	}
	if len(ex.samples) > 0 && c.R.P(1, 40) {
		so := strings.SplitN(ex.samples[0], "\x00", 2)
		c.Sample(fmt.Sprintf("graph %s program %s: %d schedules, %d distinct outcomes; schedule %s -> %s", gtext, ptext, ex.leaves, len(ex.outcomes), so[0], so[1]))
	}
}

func runConcSched(c *Ctx) {
	// one goroutine runs at a time anyway; a single P makes the hand-over a direct switch
	defer runtime.GOMAXPROCS(runtime.GOMAXPROCS(1))
	maxLeaves := 1500
	nRandom := 200
	maxThreads := 3
	if c.Thorough {
		maxLeaves = 8000
		nRandom = 900
		maxThreads = 4
	}
	for _, gp := range concCurated {
		concDoProgram(c, gp[0], gp[1], 50000, "curated")
	}
	if c.Thorough {
		runConcChains(c, 2000)
	} else {
		// depth first, the schedules in which a second caller arrives while the first is between
		// registering and publishing are among the first three hundred
		runConcChains(c, 300)
	}
	// long chain: the depth limit
	{
		var parts []string
		for i := 1; i < 300; i++ {
			parts = append(parts, fmt.Sprintf("%d>%d", i, i+1))
		}
		concDoProgram(c, strings.Join(parts, ","), "D0:r1[+],D0:r50[+],D0:r1[+]", 100, "curated")
	}
	// every pair of calls from the alphabet under every graph (thorough: and every triple under two graphs)
	for _, g := range concGetters {
		for i, a := range concAlphabet {
			for j, b := range concAlphabet {
				if !c.Thorough && (i+j+len(g))%3 != int(c.R.s%3) {
					continue // quick tier: a seed-dependent third of the pairs
				}
				concDoProgram(c, g, a+"|"+b, maxLeaves, "pair of calls")
			}
		}
	}
	if c.Thorough {
		small := []string{"D0:r1[+]", "D0:r2[+]", "X0:r1[+]", "X0:r2[-]", "P01:r2", "D0:r1[^D0:r2[+];+]"}
		for _, g := range []string{"1>2", "1>2,2>1"} {
			for _, a := range small {
				for _, b := range small {
					for _, d := range small {
						concDoProgram(c, g, a+"|"+b+"|"+d, maxLeaves, "triple of calls")
					}
				}
			}
		}
	}
	r := c.R.Fork()
	for i := 0; i < nRandom; i++ {
		g, p := concGenProg(r, maxThreads)
		concDoProgram(c, g, p, maxLeaves, "random")
	}
	c.rep.Exhaustive = true
}

func replayConcSched(input string) (bool, string) {
	f := strings.Fields(input)
	if len(f) != 3 {
		return false, "bad replay input"
	}
	p, err := parseConcProg(f[1])
	if err != nil {
		return false, err.Error()
	}
	g, gmax := parseConcGetter(f[0])
	var sched []int
	if f[2] != "-" {
		for _, ch := range f[2] {
			sched = append(sched, int(ch-'0'))
		}
	}
	_, _, out, viol, _ := concRunSchedule(p, g, gmax, sched, true, concPairOnChain(p, g))
	detail := fmt.Sprintf("graph %s program %s schedule %s\noutcome on the real code: %s", f[0], f[1], f[2], out)
	for _, v := range viol {
		detail += "\n" + strings.Replace(v, "\x00", ": ", 1)
	}
	return len(viol) == 0, detail
}

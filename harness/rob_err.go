package main

import (
	"errors"
	"fmt"
	"io"
	"strconv"
	"strings"

	"seehuhn.de/go/pdf"
)

// Error algebra (error.go), sourceErrChecker/sourceAwareReader under scripted
// filter layers (container.go), resolvePath/CycleCheck.step (resolve.go):
// correspondence lines "ROB err|chain|resolve …" for Model/ROBErr.lean and the
// matching oracles on the implementation.

var errInjected2 = errors.New("injected I/O fault (second source)")

var robSentinels = map[int]error{0: io.EOF, 1: io.ErrUnexpectedEOF, 2: errInjected, 3: errInjected2}

func robSentinel(id int) error {
	if e, ok := robSentinels[id]; ok {
		return e
	}
	e := fmt.Errorf("sentinel %d", id)
	robSentinels[id] = e
	return e
}

// buildErr parses S<id> | M(<tree>) | W(<tree>) | O | N
func buildErr(s string) (error, string) {
	switch {
	case strings.HasPrefix(s, "N"):
		return nil, s[1:]
	case strings.HasPrefix(s, "O"):
		return errors.New("o"), s[1:]
	case strings.HasPrefix(s, "S"):
		i := 1
		for i < len(s) && s[i] >= '0' && s[i] <= '9' {
			i++
		}
		id, _ := strconv.Atoi(s[1:i])
		return robSentinel(id), s[i:]
	case strings.HasPrefix(s, "M("):
		e, rest := buildErr(s[2:])
		return &pdf.MalformedFileError{Err: e}, strings.TrimPrefix(rest, ")")
	case strings.HasPrefix(s, "W("):
		e, rest := buildErr(s[2:])
		return fmt.Errorf("w: %w", e), strings.TrimPrefix(rest, ")")
	}
	panic("bad error tree " + s)
}

func genErrTree(r *Rand, depth int) string {
	k := r.Intn(8)
	if depth <= 0 && k >= 4 {
		k = r.Intn(4)
	}
	switch k {
	case 0, 1:
		return fmt.Sprintf("S%d", r.Intn(6))
	case 2:
		return "O"
	case 3:
		return fmt.Sprintf("S%d", 2+r.Intn(2))
	case 4, 5:
		return "M(" + genErrTree(r, depth-1) + ")"
	default:
		return "W(" + genErrTree(r, depth-1) + ")"
	}
}

func b01(b bool) string {
	if b {
		return "1"
	}
	return "0"
}

// robClass is the canonical class of Model/ROBErr.lean:errClass.
func robClass(err error) string {
	if err == nil {
		return "ok"
	}
	if pdf.IsMalformed(err) {
		return "malformed"
	}
	leaf := err
	for {
		u := errors.Unwrap(leaf)
		if u == nil {
			break
		}
		leaf = u
	}
	switch {
	case leaf == io.EOF:
		return "eof"
	case leaf == io.ErrUnexpectedEOF:
		return "ueof"
	}
	for _, s := range robSentinels {
		if leaf == s {
			return "io"
		}
	}
	return "other"
}

func implErrLine(tree string, nwrap int) string {
	err, _ := buildErr(tree)
	for i := 0; i < nwrap; i++ {
		err = pdf.Wrap(err, fmt.Sprintf("L%d", i))
	}
	var loc []string
	var m *pdf.MalformedFileError
	if errors.As(err, &m) {
		loc = m.Loc
	}
	v, oerr := pdf.Optional("val", err)
	if v == "" {
		v = "zero"
	}
	is := ""
	for id := 0; id < 4; id++ {
		is += b01(err != nil && errors.Is(err, robSentinel(id)))
	}
	return fmt.Sprintf("%s mal=%s is=%s loc=%s opt=%s:%s rd=%s", robClass(err), b01(pdf.IsMalformed(err)), is,
		strings.Join(loc, "|"), v, robClass(oerr), b01(pdf.IsReadError(err)))
}

// errAlgebraOracle checks wrap_preserves_class and
// optional_hides_only_malformed directly on the implementation.
func errAlgebraOracle(tree string, nwrap int) (bool, string) {
	e0, _ := buildErr(tree)
	mal0 := pdf.IsMalformed(e0)
	var is0 [4]bool
	for id := range is0 {
		is0[id] = e0 != nil && errors.Is(e0, robSentinel(id))
	}
	err := e0
	for i := 0; i < nwrap; i++ {
		err = pdf.Wrap(err, fmt.Sprintf("L%d", i))
	}
	if (err == nil) != (e0 == nil) {
		return false, "Wrap changed nil-ness"
	}
	if pdf.IsMalformed(err) != mal0 {
		return false, "Wrap changed IsMalformed"
	}
	for id := range is0 {
		if (err != nil && errors.Is(err, robSentinel(id))) != is0[id] {
			return false, fmt.Sprintf("Wrap changed errors.Is(sentinel %d)", id)
		}
	}
	v, oerr := pdf.Optional("val", err)
	switch {
	case err == nil:
		if v != "val" || oerr != nil {
			return false, "Optional changed a successful result"
		}
	case mal0:
		if v != "" || oerr != nil {
			return false, "Optional did not hide a malformed error"
		}
	default:
		if oerr != err || v != "" {
			return false, "Optional hid or replaced a non-malformed error"
		}
	}
	return true, ""
}

func replayErr(input string) (bool, string) {
	f := strings.Fields(input)
	if len(f) != 2 {
		return true, "bad replay input"
	}
	n, _ := strconv.Atoi(f[1])
	ok, d := errAlgebraOracle(f[0], n)
	return ok, input + " " + d
}

// ---- scripted raw reader and filter layer ----

type countCode struct {
	n    int
	code byte
}

func parseCountCode(s string) countCode {
	i := 0
	for i < len(s) && s[i] >= '0' && s[i] <= '9' {
		i++
	}
	n, _ := strconv.Atoi(s[:i])
	c := byte('n')
	if i < len(s) {
		c = s[i]
	}
	return countCode{n, c}
}

func codeErr(c byte) error {
	switch c {
	case 'e':
		return io.EOF
	case 'u':
		return io.ErrUnexpectedEOF
	case 'f':
		return errInjected
	case 'g':
		return errInjected2
	case 'm':
		return &pdf.MalformedFileError{Err: errors.New("m")}
	}
	return nil
}

type scriptRaw struct {
	script     []countCode
	calls      int
	firstFault error // first error returned that is not io.EOF
}

func (s *scriptRaw) Read(p []byte) (int, error) {
	k := s.calls
	s.calls++
	if k >= len(s.script) {
		return 0, io.EOF
	}
	n := min(s.script[k].n, len(p))
	for i := 0; i < n; i++ {
		p[i] = byte(k%251 + 1)
	}
	err := codeErr(s.script[k].code)
	if err != nil && err != io.EOF && s.firstFault == nil {
		s.firstFault = err
	}
	return n, err
}

type readScript struct {
	wants []int
	n     int
	code  byte
}

func parseReadScript(s string) readScript {
	parts := strings.Split(s, ":")
	var rs readScript
	if len(parts) != 2 {
		return rs
	}
	if parts[0] != "-" {
		for _, w := range strings.Split(parts[0], ",") {
			x, _ := strconv.Atoi(w)
			rs.wants = append(rs.wants, x)
		}
	}
	cc := parseCountCode(parts[1])
	rs.n, rs.code = cc.n, cc.code
	return rs
}

func (rs readScript) exec(src io.Reader) ([]byte, error) {
	var got []byte
	var last error
	for _, w := range rs.wants {
		buf := make([]byte, w)
		n, err := src.Read(buf)
		got = append(got, buf[:n]...)
		if err != nil {
			last = err
		}
	}
	data := make([]byte, rs.n)
	copy(data, got)
	var err error
	switch rs.code {
	case 'p':
		err = last
	case 'w':
		if last != nil {
			err = &pdf.MalformedFileError{Err: last}
		}
	default:
		err = codeErr(rs.code)
	}
	return data, err
}

type scriptLayer struct {
	src     io.Reader
	scripts []readScript
	i       int
}

func (l *scriptLayer) Read(p []byte) (int, error) {
	i := l.i
	l.i++
	if i >= len(l.scripts) {
		return 0, io.EOF
	}
	data, err := l.scripts[i].exec(l.src)
	return copy(p, data), err
}

func (l *scriptLayer) Close() error { return nil }

type chainCase struct {
	src, ctor, reads string
}

func (cc chainCase) line() string { return "ROB chain " + cc.src + " " + cc.ctor + " " + cc.reads }

// run executes the case on the real sourceErrChecker/sourceAwareReader (via
// the verif hook) and evaluates source_error_wins on the way.
func (cc chainCase) run() (out string, ok bool, detail string) {
	raw := &scriptRaw{}
	for _, s := range strings.Split(cc.src, ",") {
		if s != "-" {
			raw.script = append(raw.script, parseCountCode(s))
		}
	}
	ctor := parseReadScript(cc.ctor)
	var scripts []readScript
	for _, s := range strings.Split(cc.reads, ";") {
		if s != "-" {
			scripts = append(scripts, parseReadScript(s))
		}
	}
	ok = true
	top, err := pdf.VerifSourceAware(raw, func(src io.Reader) (io.ReadCloser, error) {
		_, err := ctor.exec(src)
		if err != nil {
			return nil, err
		}
		return &scriptLayer{src: src, scripts: scripts}, nil
	})
	if err != nil {
		if raw.firstFault != nil && err != raw.firstFault {
			ok, detail = false, fmt.Sprintf("constructor failed with %v although the source had failed with %v", err, raw.firstFault)
		}
		return fmt.Sprintf("ctor:%s:%s%s", robClass(err), b01(errors.Is(err, errInjected)), b01(errors.Is(err, errInjected2))), ok, detail
	}
	var res []string
	for range scripts {
		p := make([]byte, 64)
		n, err := top.Read(p)
		if err != nil && raw.firstFault != nil && err != raw.firstFault && ok {
			ok, detail = false, fmt.Sprintf("Read returned %v although the source had failed with %v", err, raw.firstFault)
		}
		res = append(res, fmt.Sprintf("%d:%s:%s%s", n, robClass(err), b01(err != nil && errors.Is(err, errInjected)), b01(err != nil && errors.Is(err, errInjected2))))
	}
	if se := pdf.VerifSourceErr(top); se != raw.firstFault && ok {
		ok, detail = false, fmt.Sprintf("recorded source error %v, first fault of the source %v", se, raw.firstFault)
	}
	return strings.Join(res, " ") + " src=" + robClass(pdf.VerifSourceErr(top)), ok, detail
}

func genReadScript(r *Rand, ctor bool) string {
	var wants []string
	nw := r.Intn(4)
	for i := 0; i < nw; i++ {
		wants = append(wants, strconv.Itoa(Pick(r, []int{0, 1, 8, 64, 512})))
	}
	w := "-"
	if len(wants) > 0 {
		w = strings.Join(wants, ",")
	}
	codes := "nnnnpppwweumfg"
	if ctor {
		codes = "nnnnnnpwmu"
	}
	return fmt.Sprintf("%s:%d%c", w, r.Intn(65), codes[r.Intn(len(codes))])
}

func genChainCase(r *Rand) chainCase {
	var src []string
	ns := r.Intn(8)
	for i := 0; i < ns; i++ {
		src = append(src, fmt.Sprintf("%d%c", Pick(r, []int{0, 1, 8, 64, 600}), "nnnnnefgfu"[r.Intn(10)]))
	}
	s := "-"
	if len(src) > 0 {
		s = strings.Join(src, ",")
	}
	var reads []string
	nr := 1 + r.Intn(6)
	for i := 0; i < nr; i++ {
		reads = append(reads, genReadScript(r, false))
	}
	return chainCase{s, genReadScript(r, true), strings.Join(reads, ";")}
}

func replayChain(input string) (bool, string) {
	f := strings.Fields(input)
	if len(f) != 5 {
		return true, "bad replay input"
	}
	out, ok, d := chainCase{f[2], f[3], f[4]}.run()
	return ok, input + " => " + out + " " + d
}

// ---- resolve ----

type stubGetter struct {
	ents  []string
	calls int
}

func (g *stubGetter) GetMeta() *pdf.MetaInfo { return &pdf.MetaInfo{Version: pdf.V1_7} }

func (g *stubGetter) Get(ref pdf.Reference, canObjStm bool) (pdf.Native, error) {
	g.calls++
	n := int(ref.Number())
	if n == 0 || n > len(g.ents) {
		return nil, nil
	}
	e := g.ents[n-1]
	switch {
	case e[0] == 'r':
		j, _ := strconv.Atoi(e[1:])
		return pdf.NewReference(uint32(j), 0), nil
	case e == "x":
		return nil, errInjected
	}
	return pdf.Integer(1), nil
}

func implResolveLine(spec string) (string, int) {
	g := &stubGetter{ents: strings.Split(spec, ",")}
	_, err := pdf.Resolve(g, pdf.NewReference(1, 0))
	switch {
	case err == nil:
		return fmt.Sprintf("ok %d", g.calls), g.calls
	case errors.Is(err, pdf.ErrCycle):
		return "err cycle", g.calls
	case errors.Is(err, pdf.ErrDepth):
		return "err depth", g.calls
	case errors.Is(err, errInjected):
		return "err get", g.calls
	}
	return "err other", g.calls
}

func genResolveSpec(r *Rand) string {
	var n int
	switch r.Intn(4) {
	case 0:
		n = 1 + r.Intn(5)
	case 1:
		n = 250 + r.Intn(12)
	default:
		n = 1 + r.Intn(300)
	}
	ents := make([]string, n)
	mode := r.Intn(4)
	for i := range ents {
		switch mode {
		case 0, 1: // a chain, possibly closed into a cycle or ending in an error
			ents[i] = fmt.Sprintf("r%d", i+2)
		default:
			ents[i] = fmt.Sprintf("r%d", 1+r.Intn(n+1))
		}
	}
	switch r.Intn(4) {
	case 0:
		ents[n-1] = "v"
	case 1:
		ents[n-1] = fmt.Sprintf("r%d", 1+r.Intn(n))
	case 2:
		ents[r.Intn(n)] = "x"
	case 3:
		ents[r.Intn(n)] = "v"
	}
	return strings.Join(ents, ",")
}

// ---- runs ----

func robErrRun(c *Ctx) {
	r := c.R.Fork()
	n := 1500
	if c.Thorough {
		n = 30000
	}
	for i := 0; i < n; i++ {
		tree := genErrTree(r, 4)
		if r.P(1, 20) {
			tree = "N"
		}
		nwrap := r.Intn(4)
		line := fmt.Sprintf("ROB err %s %d", tree, nwrap)
		res := implErrLine(tree, nwrap)
		c.Emit(line, res)
		c.Case(line, tree != "N")
		c.Stat("err_class_" + strings.Fields(res)[0])
		if ok, d := errAlgebraOracle(tree, nwrap); !ok {
			c.Violate("erralgebra", "C19-error-algebra", d+": "+line, fmt.Sprintf("%s %d", tree, nwrap))
		}
		if i < 2 {
			c.Sample(line + " => " + res)
		}
	}
	for i := 0; i < n; i++ {
		cc := genChainCase(r)
		out, ok, d := cc.run()
		c.Emit(cc.line(), out)
		c.Case(cc.line(), strings.ContainsAny(cc.src, "fgu"))
		if strings.HasPrefix(out, "ctor:") {
			c.Stat("chain_ctor_failed")
		} else {
			c.Stat("chain_" + out[strings.LastIndex(out, "src="):])
		}
		if !ok {
			c.Violate("chain", "C19-source-error-wins", d+": "+cc.line(), cc.line())
		}
		if i < 2 {
			c.Sample(cc.line() + " => " + out)
		}
	}
}

func robResolveRun(c *Ctx) {
	r := c.R.Fork()
	n := 600
	if c.Thorough {
		n = 8000
	}
	for i := 0; i < n; i++ {
		spec := genResolveSpec(r)
		res, calls := implResolveLine(spec)
		line := "ROB resolve " + spec
		c.Emit(line, res)
		c.Case(line, true)
		st := "ok"
		if strings.HasPrefix(res, "err") {
			st = strings.ReplaceAll(res, " ", "_")
		}
		c.Stat("resolve_" + st)
		if calls > robMaxExtractDepth {
			c.Violate("resolve", "C05-resolve-depth", fmt.Sprintf("Resolve made %d Get calls (> MaxExtractDepth): %s", calls, truncate(spec)), spec)
		}
	}
}

const robMaxExtractDepth = 256 // documented budget (internal/limits.MaxExtractDepth); the model takes it from Generated/FactsROB

func replayResolve(input string) (bool, string) {
	res, calls := implResolveLine(input)
	return calls <= robMaxExtractDepth, fmt.Sprintf("%s: %s after %d Get calls", truncate(input), res, calls)
}

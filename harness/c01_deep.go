package main

import (
	"bytes"
	"fmt"
	"strconv"
	"strings"

	"seehuhn.de/go/pdf"
)

// C01, second run — inputs aimed at the statements proved in Props/C01b..C01e:
// string escapes read by ReadString (octal, line continuation, CR/LF), literal/hex choice under
// OptPretty, number tokens and their terminators, integer/reference neighbourhoods in arrays and
// dictionaries (the `a b R` look-ahead), unclosed deep nesting (recursion budget of the model),
// the array length cap with a trailing reference, and independence of map insertion order.

func init() {
	addRun("C01", "escape-piece soups inside ( ) and < > (octal escapes of 1-4 digits, line continuations, CR/LF, nested and unbalanced parentheses), long literal strings dense in ()\\\\CRLF also across the 1024-byte buffer edge and at the OptPretty hex threshold good<9*bad, number tokens followed by every byte class, arrays/dicts of integers, references, names R and reals in all adjacent pairs, unclosed nestings of depth 1..300, arrays of maxArrayLen-1/maxArrayLen elements ending in an integer or a reference, dictionaries built in different insertion orders. Distinct by byte string / wire form; all non-trivial.", runC01Deep)
	addReplay("C01", "roundtrip-maxlen", replayC01MaxLen)
	addReplay("C01", "maporder", replayC01MapOrder)
	addReplay("C01", "real-token", func(string) (bool, string) { return true, "assumption about strconv; see the recorded detail" })
}

// maxArrayLenOracle formats an array of n elements (all Integer 7 except the last one) and
// parses it back: the property demands the same n elements.
func maxArrayLenOracle(n int, lastRef bool) (bool, string) {
	a := make(pdf.Array, n)
	for i := range a {
		a[i] = pdf.Integer(7)
	}
	if lastRef {
		a[n-1] = pdf.NewReference(5, 0)
	}
	var buf bytes.Buffer
	if err := pdf.Format(&buf, 0, a); err != nil {
		return false, "Format error: " + err.Error()
	}
	got, pos, err := parseOne(buf.Bytes())
	if err != nil {
		return false, fmt.Sprintf("array of %d elements (last is reference: %v) is written (%d bytes) but not read back: %v", n, lastRef, buf.Len(), err)
	}
	arr, ok := got.(pdf.Array)
	if !ok || len(arr) != n || pos != int64(buf.Len()) || !objEqual(arr[n-1], a[n-1]) || !objEqual(arr[0], a[0]) {
		return false, fmt.Sprintf("array of %d elements read back differently (len %d, pos %d of %d)", n, len(arr), pos, buf.Len())
	}
	return true, ""
}

// capOracle: a string (literal form / hex form under OptPretty) or a name of n bytes inside an
// array is formatted and parsed back.
func capOracle(kind string, n int) (bool, string) {
	var o pdf.Object
	opt := pdf.OutputOptions(0)
	switch kind {
	case "str":
		o = pdf.String(bytes.Repeat([]byte{'a'}, n))
	case "hexstr":
		o = pdf.String(bytes.Repeat([]byte{1}, n))
		opt = pdf.OptPretty
	case "name":
		o = pdf.Name(bytes.Repeat([]byte{'a'}, n))
	default:
		return true, "bad kind"
	}
	var buf bytes.Buffer
	buf.WriteByte('[')
	if err := pdf.Format(&buf, opt, o); err != nil {
		return false, "Format error: " + err.Error()
	}
	buf.WriteByte(']')
	got, pos, err := parseOne(buf.Bytes())
	if err != nil {
		return false, fmt.Sprintf("%s of %d bytes is written (%d bytes of text) but not read back: %v", kind, n, buf.Len(), err)
	}
	arr, ok := got.(pdf.Array)
	if !ok || len(arr) != 1 || pos != int64(buf.Len()) || !objEqual(arr[0], o) {
		return false, fmt.Sprintf("%s of %d bytes read back differently", kind, n)
	}
	return true, ""
}

func replayC01MaxLen(input string) (bool, string) {
	parts := strings.Fields(input)
	if len(parts) != 2 {
		return true, "bad replay input"
	}
	n, err := strconv.Atoi(parts[0])
	if err != nil || n < 1 || n > 1<<25 {
		return true, "bad replay input"
	}
	switch parts[1] {
	case "int", "ref":
		if n > 1<<22 {
			return true, "bad replay input"
		}
		return maxArrayLenOracle(n, parts[1] == "ref")
	}
	return capOracle(parts[1], n)
}

// mapOrderOracle: the same entries inserted in two different orders format identically.
func mapOrderOracle(optTag string, objs pdf.Array) (bool, string) {
	if len(objs)%2 != 0 {
		return true, ""
	}
	build := func(rev bool) pdf.Dict {
		d := pdf.Dict{}
		n := len(objs) / 2
		for i := 0; i < n; i++ {
			j := i
			if rev {
				j = n - 1 - i
			}
			k, _ := objs[2*j].(pdf.Name)
			if _, dup := d[k]; dup {
				continue
			}
			d[k] = objs[2*j+1]
		}
		return d
	}
	// duplicates: keep the first occurrence in both orders
	seen := map[pdf.Name]bool{}
	var uniq pdf.Array
	for i := 0; i+1 < len(objs); i += 2 {
		k, _ := objs[i].(pdf.Name)
		if seen[k] {
			continue
		}
		seen[k] = true
		uniq = append(uniq, k, objs[i+1])
	}
	objs = uniq
	var b1, b2 bytes.Buffer
	e1 := pdf.Format(&b1, optByTag(optTag), build(false))
	e2 := pdf.Format(&b2, optByTag(optTag), build(true))
	if (e1 == nil) != (e2 == nil) || !bytes.Equal(b1.Bytes(), b2.Bytes()) {
		return false, fmt.Sprintf("insertion order changes the output: %q vs %q", truncate(b1.String()), truncate(b2.String()))
	}
	return true, ""
}

func replayC01MapOrder(input string) (bool, string) {
	parts := strings.SplitN(input, " ", 2)
	if len(parts) != 2 {
		return true, "bad replay input"
	}
	objs, err := unwireSeq(parts[1])
	if err != nil {
		return true, "bad replay input: " + err.Error()
	}
	return mapOrderOracle(parts[0], objs)
}

func runC01Deep(c *Ctx) {
	wireNilDict = true
	r := c.R
	scale := 1
	if c.Thorough {
		scale = 12
	}
	emitParse := func(data []byte) {
		c.Emit("C01 parse "+hexWire(data), implParseLine(data))
	}
	emitFmt := func(tag string, objs pdf.Array) []byte {
		var buf bytes.Buffer
		err := pdf.Format(&buf, optByTag(tag), objs...)
		w := "-"
		if len(objs) > 0 {
			var sb strings.Builder
			for _, o := range objs {
				wireTo(&sb, o)
			}
			w = sb.String()
		}
		res := "ok " + hexWire(buf.Bytes())
		if err != nil {
			res = "err"
		}
		c.Emit("C01 fmt "+tag+" "+w, res)
		return buf.Bytes()
	}
	roundTrip := func(tag string, objs pdf.Array) {
		key := tag + " " + wire(objs)
		c.Case("d:"+key, true)
		out := emitFmt(tag, objs)
		ok, vkey, d := oracleRoundTripK(tag, objs)
		if !ok {
			c.Violate("roundtrip", vkey, d, key)
		}
		emitParse(append(append([]byte{'['}, out...), ']'))
	}

	// 1. escape pieces inside literal and hex strings (ReadString / ReadHexString on arbitrary input)
	pieces := []string{"a", " ", "\n", "\r", "\r\n", "(", ")", "\\(", "\\)", "\\\\", "\\n", "\\r", "\\t", "\\b", "\\f",
		"\\\n", "\\\r", "\\\r\n", "\\0", "\\7", "\\8", "\\9", "\\12", "\\18", "\\123", "\\128", "\\0533", "\\377", "\\400",
		"\\777", "\\1234", "\\x", "\\", "0", "7", "8", "%", "/", "<", ">", "#"}
	for i := 0; i < 2500*scale; i++ {
		n := 1 + r.Intn(7)
		sb := []byte{'('}
		for j := 0; j < n; j++ {
			sb = append(sb, Pick(r, pieces)...)
		}
		if !r.P(1, 10) {
			sb = append(sb, ')')
		}
		if r.P(1, 4) {
			sb = append(sb, Pick(r, []string{"", " ", "1", ")", "/A"})...)
		}
		if r.P(1, 15) {
			sb = append(bytes.Repeat([]byte{' '}, 1010+r.Intn(16)), sb...)
			sb = append([]byte{'['}, append(sb, ']')...)
			c.Stat("deep_buffer_edge")
		}
		c.Case("e:"+string(sb), true)
		emitParse(sb)
	}
	hexPieces := []string{"0", "9", "a", "F", "g", " ", "\n", "4", "41", "<", "(", "%", "/"}
	for i := 0; i < 600*scale; i++ {
		sb := []byte{'<'}
		for j := r.Intn(7); j > 0; j-- {
			sb = append(sb, Pick(r, hexPieces)...)
		}
		if !r.P(1, 10) {
			sb = append(sb, '>')
		}
		c.Case("h:"+string(sb), true)
		emitParse(sb)
	}
	c.Stat("escape_soups")

	// 2. literal strings dense in the bytes formatString treats specially; hex threshold
	dense := []byte{'(', ')', '\\', '\r', '\n', 'a', 0, 0x80, ' '}
	for i := 0; i < 500*scale; i++ {
		n := r.Intn(40)
		if r.P(1, 10) {
			n = 1000 + r.Intn(1100)
		}
		s := make([]byte, n)
		for j := range s {
			s[j] = Pick(r, dense)
		}
		objs := pdf.Array{pdf.String(s)}
		if r.Bool() {
			objs = append(objs, Pick(r, []pdf.Object{pdf.Integer(1), pdf.Name("A"), pdf.String("x"), pdf.Real(0.5)}))
		}
		roundTrip(Pick(r, []string{"-", "p"}), objs)
	}
	for bad := 0; bad <= 4; bad++ {
		for good := 9*bad - 2; good <= 9*bad+2; good++ {
			if good < 0 {
				continue
			}
			s := append(bytes.Repeat([]byte{'a'}, good), bytes.Repeat([]byte{0x01}, bad)...)
			roundTrip("p", pdf.Array{pdf.String(s)})
			roundTrip("-", pdf.Array{pdf.String(s)})
			c.Stat("hex_threshold")
		}
	}

	// 3. number tokens followed by every kind of byte
	numToks := []string{"0", "-0", "7", "-12", "+5", "1.", ".5", "-.5", "0.25", "-3.125", "100", "1.5", "00", "9223372036854775807", "-9223372036854775808", "9223372036854775808", "1e5", "--1", "+-1", "1-", "1+", ".", "-", "+", "1.2.3", "1..2"}
	followers := []string{"", " ", "\n", "/", "(", ")", "<", ">", "[", "]", "{", "}", "%", "R", "n", ".", "-", "+", "0", "a", "\x00", "\x80"}
	for _, t := range numToks {
		for _, f := range followers {
			emitParse([]byte(t + f))
			emitParse([]byte("[" + t + f + "]"))
			emitParse([]byte("<</K " + t + f + ">>"))
			c.Case("n:"+t+f, true)
		}
	}

	// 4. neighbourhoods of integers, references, reals and the name /R
	atoms := []pdf.Object{pdf.Integer(1), pdf.Integer(-2), pdf.Integer(0), pdf.NewReference(3, 0), pdf.NewReference(1<<24-1, 65535),
		pdf.Name("R"), pdf.Name(""), pdf.Real(1), pdf.Real(0.5), nil, pdf.Boolean(true), pdf.String("R"), pdf.String(""),
		pdf.Array{}, pdf.Array{pdf.Integer(1), pdf.Integer(2)}, pdf.Dict{}, pdf.Dict{"R": pdf.Integer(1)}, pdf.Array(nil), pdf.Dict(nil), pdf.String(""), pdf.String(nil)}
	for _, a := range atoms {
		for _, b := range atoms {
			for _, tag := range []string{"-", "p"} {
				roundTrip(tag, pdf.Array{a, b})
				roundTrip(tag, pdf.Array{pdf.Integer(4), a, b})
				roundTrip(tag, pdf.Array{pdf.Dict{"A": a, "B": b}})
			}
		}
	}
	for i := 0; i < 400*scale; i++ {
		n := 1 + r.Intn(7)
		objs := make(pdf.Array, n)
		for j := range objs {
			objs[j] = Pick(r, atoms)
		}
		roundTrip(Pick(r, []string{"-", "p"}), objs)
	}

	// 5. unclosed nestings: the model's recursion budget must cover three calls per level
	for _, n := range []int{1, 2, 5, 8, 9, 10, 17, 40, 100, 200, 254, 255, 256, 257, 300} {
		emitParse(bytes.Repeat([]byte{'['}, n))
		emitParse(bytes.Repeat([]byte("<</A"), n))
		emitParse(bytes.Repeat([]byte("[<</A"), n))
		emitParse(append(bytes.Repeat([]byte{'['}, n), '1'))
		emitParse(append(bytes.Repeat([]byte{'['}, n), bytes.Repeat([]byte{']'}, n/2)...))
		c.Case(fmt.Sprintf("unclosed%d", n), true)
	}

	// 6. the array length cap (scanner.go: maxArrayLen = 1<<20) with and without a trailing reference
	const maxArrayLen = 1 << 20
	for _, tc := range []struct {
		n   int
		ref bool
	}{{maxArrayLen - 1, true}, {maxArrayLen, false}, {maxArrayLen, true}} {
		kind := "int"
		if tc.ref {
			kind = "ref"
		}
		in := fmt.Sprintf("%d %s", tc.n, kind)
		c.Case("maxlen:"+in, true)
		if ok, d := maxArrayLenOracle(tc.n, tc.ref); !ok {
			key := "roundtrip-maxlen"
			if tc.n == maxArrayLen && tc.ref {
				key = "array-maxlen-trailing-ref"
			}
			c.Violate("roundtrip-maxlen", key, d, in)
		}
	}

	// 6b. the other caps at their exact value: a literal string of maxStringBytes bytes, a name of
	// maxNameBytes bytes (scanner.go: 16 MiB, 4096).  One below the cap must round-trip as well.
	const maxStringBytes, maxNameBytes = 16 * 1024 * 1024, 4096
	for _, tc := range []struct {
		kind string
		n    int
		key  string
	}{
		{"str", maxStringBytes - 1, "roundtrip-maxlen"},
		{"str", maxStringBytes, "string-maxlen-literal"},
		{"hexstr", maxStringBytes, "roundtrip-maxlen"},
		{"name", maxNameBytes - 1, "roundtrip-maxlen"},
		{"name", maxNameBytes, "name-maxlen"},
	} {
		in := fmt.Sprintf("%d %s", tc.n, tc.kind)
		c.Case("maxlen:"+in, true)
		if ok, d := capOracle(tc.kind, tc.n); !ok {
			c.Violate("roundtrip-maxlen", tc.key, d, in)
		}
	}
	// observation for C05 (not part of this property): 2*maxStringBytes+1 hex digits must be rejected
	// (Props/C01h hex_string_cap; before the fix of C05-H1 they gave maxStringBytes+1 bytes)
	if c.Thorough {
		in := append(append([]byte{'<'}, bytes.Repeat([]byte{'0'}, 2*maxStringBytes+1)...), '>')
		if o, _, err := parseOne(in); err == nil {
			if s, ok := o.(pdf.String); ok && len(s) == maxStringBytes+1 {
				c.Stat("hexstring_cap_plus_one_accepted")
			} else {
				c.Stat("hexstring_cap_plus_one_other")
			}
		} else {
			c.Stat("hexstring_cap_plus_one_rejected")
		}
	}

	// 8. the hypothesis about strconv under which reals are modelled as tokens: the text written
	// for a finite Real is a well-formed decimal token (optional '-', digits, optional '.', digits,
	// at least one digit; Props/C01b wfRealTok) that ParseFloat maps back to the same value
	for i := 0; i < 3000*scale; i++ {
		x := float64(genReal(r))
		tok := strconv.FormatFloat(x, 'f', -1, 64)
		c.Case("f:"+tok, true)
		ok := len(tok) <= 4000
		digits, dots := 0, 0
		for j := 0; j < len(tok); j++ {
			switch ch := tok[j]; {
			case ch == '-' && j == 0:
			case ch >= '0' && ch <= '9':
				digits++
			case ch == '.':
				dots++
			default:
				ok = false
			}
		}
		back, err := strconv.ParseFloat(tok, 64)
		if !ok || digits == 0 || dots > 1 || err != nil || back != x {
			c.Violate("real-token", "real-token-shape", fmt.Sprintf("FormatFloat(%x) = %q is not a decimal token that parses back", x, tok), tok)
		}
	}

	// 7. map insertion order
	for i := 0; i < 300*scale; i++ {
		n := r.Intn(6)
		var kv pdf.Array
		for j := 0; j < n; j++ {
			kv = append(kv, genName(r), genObj(r, 2, false))
		}
		tag := Pick(r, []string{"-", "p"})
		if ok, d := mapOrderOracle(tag, kv); !ok {
			c.Violate("maporder", "maporder", d, tag+" "+wire(kv))
		}
		c.Case("o:"+tag+wire(kv), true)
	}
}

package main

import (
	"bytes"
	"encoding/hex"
	"fmt"
	"sort"
	"strconv"
	"strings"

	"seehuhn.de/go/pdf/font/charcode"
)

// C12 — the character-code codec implements exactly its code space ranges.
//
// Correspondence lines (key "CC"): new / dec / spec / app / csr / mlen.
// Oracles on the implementation (independent of the Lean model): the ISO
// 32000-2 9.7.6.3 reference semantics written directly below.

func init() {
	addRun("C12", "code space range sets: exhaustively all sets of <=2 (quick) / <=3 (thorough) ranges with byte bounds from {00,01,7F,80,FE,FF} (lengths 1-4 for single ranges, 1-2 for pairs, reduced alphabet {00,7F,80,FF} for triples), a fixed corpus (Simple, UCS2, UTF8, RKSJ, D2/D3 regressions), random valid prefix-free sets up to 40 ranges, nested/shared-subtree sets, and a malformed stream (lo>hi, length mismatch, empty, 5 bytes, prefix conflicts); x all byte strings of <=4 bytes over the lowest and highest byte of every induced class. A case is one (range set, byte string) pair; non-trivial when the set has >=2 ranges or a multi-byte range; distinct by wire form.", runC12)
	addReplay("C12", "decode-spec", replayC12)
	addReplay("C12", "newcodec-accepts", replayC12)
	addReplay("C12", "consumed-bounds", replayC12)
	addReplay("C12", "decode-append", replayC12)
	addReplay("C12", "append-decode", replayC12)
	addReplay("C12", "csr-equivalent", replayC12)
	addReplay("C12", "no-panic", replayC12)
}

// ---- wire ----

func ccCSRWire(csr charcode.CodeSpaceRange) string {
	if len(csr) == 0 {
		return "_"
	}
	parts := make([]string, len(csr))
	for i, r := range csr {
		parts[i] = hexWire(r.Low) + ":" + hexWire(r.High)
	}
	return strings.Join(parts, ",")
}

func ccCSRUnwire(s string) (charcode.CodeSpaceRange, error) {
	if s == "_" {
		return nil, nil
	}
	var csr charcode.CodeSpaceRange
	for _, p := range strings.Split(s, ",") {
		lh := strings.Split(p, ":")
		if len(lh) != 2 {
			return nil, fmt.Errorf("bad range %q", p)
		}
		lo, err := ccUnhex(lh[0])
		if err != nil {
			return nil, err
		}
		hi, err := ccUnhex(lh[1])
		if err != nil {
			return nil, err
		}
		csr = append(csr, charcode.Range{Low: lo, High: hi})
	}
	return csr, nil
}

func ccUnhex(s string) ([]byte, error) {
	if s == "-" {
		return []byte{}, nil
	}
	return hex.DecodeString(s)
}

func ccJoin(xs []string) string {
	if len(xs) == 0 {
		return "_"
	}
	return strings.Join(xs, "/")
}

func ccBytesList(xs [][]byte) string {
	parts := make([]string, len(xs))
	for i, x := range xs {
		parts[i] = hexWire(x)
	}
	return ccJoin(parts)
}

// ---- reference semantics (ISO 32000-2:2020, 9.7.6.3), written independently ----

// ccWithin reports whether the first k bytes of s lie in the first k byte
// intervals of r.
func ccWithin(r charcode.Range, s []byte, k int) bool {
	if k > len(r.Low) || k > len(r.High) || k > len(s) {
		return false
	}
	for i := 0; i < k; i++ {
		if s[i] < r.Low[i] || s[i] > r.High[i] {
			return false
		}
	}
	return true
}

func ccLE(s []byte) uint32 {
	var code uint32
	for i, b := range s {
		if i < 4 {
			code |= uint32(b) << (8 * i)
		}
	}
	return code
}

// ccSpecDecode: number of bytes consumed from s and whether they are a valid code.
func ccSpecDecode(csr charcode.CodeSpaceRange, s []byte) (code uint32, consumed int, valid bool) {
	if len(s) == 0 {
		return 0, 0, false
	}
	for _, r := range csr {
		if ccWithin(r, s, len(r.Low)) {
			return ccLE(s[:len(r.Low)]), len(r.Low), true
		}
	}
	// invalid code: longest partial match, then the shortest range among those matching it
	longest := 0
	for k := 1; k <= len(s); k++ {
		for _, r := range csr {
			if ccWithin(r, s, k) {
				longest = k
			}
		}
	}
	n := -1
	for _, r := range csr {
		if ccWithin(r, s, longest) && (n < 0 || len(r.Low) < n) {
			n = len(r.Low)
		}
	}
	if n < 0 {
		n = 1
	}
	if n > len(s) {
		n = len(s)
	}
	return ccLE(s[:n]), n, false
}

func ccRangeValid(r charcode.Range) bool {
	if len(r.Low) != len(r.High) || len(r.Low) < 1 || len(r.Low) > 4 {
		return false
	}
	for i := range r.Low {
		if r.Low[i] > r.High[i] {
			return false
		}
	}
	return true
}

// ccPrefixFree: no code of one range is a proper prefix of a code of another range.
func ccPrefixFree(csr charcode.CodeSpaceRange) bool {
	for _, a := range csr {
		for _, b := range csr {
			if len(a.Low) >= len(b.Low) {
				continue
			}
			// some code of a is a prefix of some code of b iff the boxes intersect on a's positions
			meet := true
			for i := range a.Low {
				if a.High[i] < b.Low[i] || b.High[i] < a.Low[i] {
					meet = false
					break
				}
			}
			if meet {
				return false
			}
		}
	}
	return true
}

// ccIsCodeLen returns the length of the code of csr that s starts with (0 if none).
func ccIsCodeLen(csr charcode.CodeSpaceRange, s []byte) int {
	for _, r := range csr {
		if ccRangeValid(r) && ccWithin(r, s, len(r.Low)) {
			return len(r.Low)
		}
	}
	return 0
}

// ---- test strings: lowest and highest byte of every class, per position ----

func ccClassBytes(pos int, sets ...charcode.CodeSpaceRange) []byte {
	br := map[int]bool{0: true, 256: true}
	for _, csr := range sets {
		for _, r := range csr {
			if pos < len(r.Low) && pos < len(r.High) {
				br[int(r.Low[pos])] = true
				br[int(r.High[pos])+1] = true
			}
		}
	}
	var keys []int
	for k := range br {
		keys = append(keys, k)
	}
	sort.Ints(keys)
	seen := map[byte]bool{}
	var out []byte
	for i := 0; i+1 < len(keys); i++ {
		for _, v := range []int{keys[i], keys[i+1] - 1} {
			if !seen[byte(v)] {
				seen[byte(v)] = true
				out = append(out, byte(v))
			}
		}
	}
	return out
}

// ccTestStrings enumerates all strings of length 0..maxLen over the class
// bytes; if there are more than limit, a deterministic subsample that keeps
// all strings of length <= 2.
func ccTestStrings(r *Rand, maxLen, limit int, sets ...charcode.CodeSpaceRange) [][]byte {
	var alpha [4][]byte
	for pos := 0; pos < 4; pos++ {
		alpha[pos] = ccClassBytes(pos, sets...)
	}
	total := 1
	cnt := 1
	for l := 1; l <= maxLen; l++ {
		cnt *= len(alpha[l-1])
		total += cnt
	}
	keepP := 1.0
	if total > limit {
		keepP = float64(limit) / float64(total)
	}
	out := [][]byte{{}}
	var rec func(prefix []byte)
	rec = func(prefix []byte) {
		if len(prefix) == maxLen {
			return
		}
		for _, b := range alpha[len(prefix)] {
			s := append(append([]byte{}, prefix...), b)
			if len(s) <= 2 || keepP >= 1 || float64(r.Intn(1<<20))/float64(1<<20) < keepP {
				out = append(out, s)
			}
			rec(s)
		}
	}
	rec(nil)
	return out
}

// ---- running one range set ----

type ccOpts struct {
	maxCSRNodes int  // call CodeSpaceRange only for codecs with at most this many nodes (0 = always)
	emit        bool // emit correspondence lines for the model
	maxLen      int
	strLimit    int
	extra       [][]byte // further byte strings
}

func ccNewCodec(csr charcode.CodeSpaceRange) (c *charcode.Codec, err error, panicked any) {
	defer func() {
		if p := recover(); p != nil {
			panicked = p
		}
	}()
	c, err = charcode.NewCodec(csr)
	return
}

type ccDecRes struct {
	code     charcode.Code
	consumed int
	valid    bool
}

func ccDecode(c *charcode.Codec, s []byte) (res ccDecRes, panicked any) {
	defer func() {
		if p := recover(); p != nil {
			panicked = p
		}
	}()
	in := append([]byte{}, s...)
	res.code, res.consumed, res.valid = c.Decode(in)
	if !bytes.Equal(in, s) {
		panicked = "Decode modified its input"
	}
	return
}

func ccAppend(c *charcode.Codec, code charcode.Code) (out []byte, panicked any) {
	defer func() {
		if p := recover(); p != nil {
			panicked = p
		}
	}()
	out = c.AppendCode(nil, code)
	return
}

func ccCSR(c *charcode.Codec) (out charcode.CodeSpaceRange, panicked any) {
	defer func() {
		if p := recover(); p != nil {
			panicked = p
		}
	}()
	out = c.CodeSpaceRange()
	return
}

func ccDecStr(d ccDecRes) string {
	v := "f"
	if d.valid {
		v = "t"
	}
	return strconv.FormatUint(uint64(d.code), 10) + "," + strconv.Itoa(d.consumed) + "," + v
}

// ccCheckSet runs every oracle on one range set; returns the violations as
// (oracle, description) pairs.  With c != nil it also counts cases and emits
// the correspondence lines.
func ccCheckSet(c *Ctx, r *Rand, csr charcode.CodeSpaceRange, o ccOpts) (viol [][2]string) {
	w := ccCSRWire(csr)
	bad := func(oracle, desc string) {
		viol = append(viol, [2]string{oracle, desc})
	}
	allValid := true
	for _, rg := range csr {
		allValid = allValid && ccRangeValid(rg)
	}
	codec, err, p := ccNewCodec(csr)
	if p != nil {
		bad("no-panic", fmt.Sprintf("NewCodec panics: %v", p))
		return
	}
	wantOK := allValid && ccPrefixFree(csr)
	if c != nil && o.emit {
		if err != nil {
			c.Emit("CC new "+w, "err invalid")
		} else {
			nodes := codec.VerifNodes()
			parts := make([]string, len(nodes))
			for i, n := range nodes {
				parts[i] = strconv.Itoa(n[0]) + ":" + strconv.Itoa(n[1])
			}
			c.Emit("CC new "+w, "ok "+ccJoinComma(parts))
			// the representation certificate of Props/C12ccb.lean, evaluated by the model
			c.Emit("CC repr "+w, "ok t")
		}
	}
	if (err == nil) != wantOK {
		// a valid prefix-free set may only be rejected for having too many nodes
		if err != nil && len(csr) > 8000 {
			if c != nil {
				c.Stat("newcodec_rejected_large")
			}
			return
		}
		bad("newcodec-accepts", fmt.Sprintf("NewCodec error=%v but valid=%v prefixFree=%v", err, allValid, allValid && ccPrefixFree(csr)))
		return
	}
	if err != nil {
		if c != nil {
			c.Stat("newcodec_err")
			c.Case("new "+w, len(csr) >= 2)
		}
		return
	}
	if c != nil {
		c.Stat("newcodec_ok")
		c.Stat(fmt.Sprintf("ranges_%02d", min(len(csr), 20)))
	}

	// reported code space range (CodeSpaceRange is cubic in the number of leaves: it is not
	// called for very large trees, so that the run time stays bounded)
	var rep charcode.CodeSpaceRange
	if nn := len(codec.VerifNodes()); nn <= o.maxCSRNodes || o.maxCSRNodes == 0 {
		rep, p = ccCSR(codec)
		if p != nil {
			bad("no-panic", fmt.Sprintf("CodeSpaceRange panics: %v", p))
			rep = nil
		}
	} else if c != nil {
		c.Stat("csr_not_called_large_tree")
	}
	strs := ccTestStrings(r, o.maxLen, o.strLimit, csr, rep)
	strs = append(strs, o.extra...)

	nontrivial := len(csr) >= 2
	for _, rg := range csr {
		nontrivial = nontrivial || len(rg.Low) > 1
	}

	var decOut []string
	var codes []charcode.Code
	nValid := 0
	var nInvalid [5]int
	if c != nil {
		// one case per (range set, byte string); distinctness is recorded per range set
		c.Case(w, nontrivial)
		c.rep.Evaluations += len(strs) - 1
	}
	defer func() {
		if c != nil {
			c.StatN("decode_valid", nValid)
			for k, n := range nInvalid {
				if n > 0 {
					c.StatN("decode_invalid_consumed"+strconv.Itoa(k), n)
				}
			}
		}
	}()
	seenCode := map[charcode.Code]bool{}
	for _, s := range strs {
		d, p := ccDecode(codec, s)
		if p != nil {
			bad("no-panic", fmt.Sprintf("Decode(%x) panics: %v", s, p))
			decOut = append(decOut, "panic")
			continue
		}
		if d.valid {
			nValid++
		} else if d.consumed >= 0 && d.consumed < 5 {
			nInvalid[d.consumed]++
		}
		decOut = append(decOut, ccDecStr(d))
		// O1: Decode == reference semantics
		wc, wn, wv := ccSpecDecode(csr, s)
		if uint32(d.code) != wc || d.consumed != wn || d.valid != wv {
			bad("decode-spec", fmt.Sprintf("Decode(%x) = (%d,%d,%v), ISO 32000-2 9.7.6.3 gives (%d,%d,%v)", s, d.code, d.consumed, d.valid, wc, wn, wv))
		}
		// O3: 1 <= consumed <= len(s) (0 for empty input)
		if len(s) == 0 && (d.consumed != 0 || d.valid || d.code != 0) {
			bad("consumed-bounds", fmt.Sprintf("Decode(empty) = (%d,%d,%v)", d.code, d.consumed, d.valid))
		}
		if len(s) > 0 && (d.consumed < 1 || d.consumed > len(s)) {
			bad("consumed-bounds", fmt.Sprintf("Decode(%x) consumed %d", s, d.consumed))
		}
		if d.consumed < 0 || d.consumed > len(s) {
			continue
		}
		// O4: decode then re-encode reproduces the consumed bytes (for a valid code, and for an
		// invalid one whenever the input was not cut short)
		if d.valid || len(s) >= 4 {
			back, p := ccAppend(codec, d.code)
			if p != nil {
				bad("no-panic", fmt.Sprintf("AppendCode(%d) panics: %v", d.code, p))
			} else if !bytes.Equal(back, s[:d.consumed]) {
				bad("decode-append", fmt.Sprintf("Decode(%x) = (%d,%d,%v) but AppendCode gives %x", s, d.code, d.consumed, d.valid, back))
			}
		}
		if !seenCode[d.code] && len(codes) < 400 {
			seenCode[d.code] = true
			codes = append(codes, d.code)
		}
		// O6: the reported range set describes the same codes
		if rep != nil {
			if a, b := ccIsCodeLen(csr, s), ccIsCodeLen(rep, s); a != b {
				bad("csr-equivalent", fmt.Sprintf("%x: code length %d under the given ranges, %d under the reported %s", s, a, b, ccCSRWire(rep)))
			}
		}
	}
	if rep != nil {
		for _, rg := range rep {
			if !ccRangeValid(rg) {
				bad("csr-equivalent", "reported range set has an invalid range: "+ccCSRWire(rep))
			}
		}
		if !csr.Equivalent(rep) || !rep.Equivalent(csr) {
			bad("csr-equivalent", "CodeSpaceRange.Equivalent says the reported set differs: "+ccCSRWire(rep))
		}
	}

	// O5: encode then decode reproduces the code
	for i := 0; i < 6; i++ {
		codes = append(codes, charcode.Code(r.U64()))
	}
	var appOut []string
	for _, code := range codes {
		bs, p := ccAppend(codec, code)
		if p != nil {
			bad("no-panic", fmt.Sprintf("AppendCode(%d) panics: %v", code, p))
			appOut = append(appOut, "panic")
			continue
		}
		appOut = append(appOut, hexWire(bs))
		if len(bs) < 1 || len(bs) > 4 {
			bad("append-decode", fmt.Sprintf("AppendCode(%d) = %x", code, bs))
			continue
		}
		d, p := ccDecode(codec, bs)
		if p != nil {
			bad("no-panic", fmt.Sprintf("Decode(%x) panics: %v", bs, p))
			continue
		}
		mask := uint32(0xffffffff)
		if len(bs) < 4 {
			mask = 1<<(8*uint(len(bs))) - 1
		}
		if d.consumed != len(bs) || uint32(d.code) != uint32(code)&mask {
			bad("append-decode", fmt.Sprintf("AppendCode(%d) = %x decodes to (%d,%d,%v)", code, bs, d.code, d.consumed, d.valid))
		}
	}

	if c != nil && o.emit {
		in := ccBytesList(strs)
		c.Emit("CC dec "+w+" "+in, "ok "+ccJoin(decOut))
		c.Emit("CC spec "+w+" "+in, "ok "+ccJoin(decOut))
		cs := make([]string, len(codes))
		for i, code := range codes {
			cs[i] = strconv.FormatUint(uint64(code), 10)
		}
		c.Emit("CC app "+w+" "+ccJoin(cs), "ok "+ccJoin(appOut))
		if rep != nil && len(codec.VerifNodes()) <= 120 {
			// (the merge loop is cubic in the number of leaves; larger sets are checked by the oracle only)
			c.Emit("CC csr "+w, "ok "+ccCSRWire(rep))
		}
		var ml []string
		for _, s := range strs {
			ml = append(ml, strconv.Itoa(csr.VerifMatchLen(s)))
		}
		c.Emit("CC mlen "+w+" "+in, "ok "+ccJoin(ml))
	}
	return
}

func ccJoinComma(xs []string) string {
	if len(xs) == 0 {
		return "_"
	}
	return strings.Join(xs, ",")
}

func ccReport(c *Ctx, csr charcode.CodeSpaceRange, viol [][2]string) {
	for _, v := range viol {
		c.Violate(v[0], v[0], ccCSRWire(csr)+": "+v[1], ccCSRWire(csr))
	}
}

func replayC12(input string) (bool, string) {
	if strings.HasPrefix(input, "large:") {
		c := &Ctx{R: NewRand(1), Thorough: true, rep: &Report{Stats: map[string]int{}}, distinct: map[string]struct{}{}, viol: map[string]int{}}
		ccLarge(c)
		if len(c.rep.Violations) > 0 {
			return false, c.rep.Violations[0].Desc
		}
		return true, "large range sets are rejected or decoded correctly"
	}
	csr, err := ccCSRUnwire(strings.TrimSpace(input))
	if err != nil {
		return true, "bad replay input: " + err.Error()
	}
	viol := ccCheckSet(nil, NewRand(1), csr, ccOpts{maxLen: 4, strLimit: 200000})
	if len(viol) == 0 {
		return true, "all C12 oracles hold for " + input
	}
	var sb strings.Builder
	for i, v := range viol {
		if i < 5 {
			sb.WriteString(v[0] + ": " + v[1] + "\n")
		}
	}
	return false, sb.String()
}

// ---- generators ----

func ccRange(lo, hi []byte) charcode.Range {
	return charcode.Range{Low: append([]byte{}, lo...), High: append([]byte{}, hi...)}
}

// ccAllRanges enumerates every valid range of length n with bounds from alpha.
func ccAllRanges(alpha []byte, n int) []charcode.Range {
	type iv struct{ lo, hi byte }
	var ivs []iv
	for _, a := range alpha {
		for _, b := range alpha {
			if a <= b {
				ivs = append(ivs, iv{a, b})
			}
		}
	}
	var out []charcode.Range
	var rec func(lo, hi []byte)
	rec = func(lo, hi []byte) {
		if len(lo) == n {
			out = append(out, ccRange(lo, hi))
			return
		}
		for _, v := range ivs {
			rec(append(lo, v.lo), append(hi, v.hi))
		}
	}
	rec(nil, nil)
	return out
}

var ccAlpha6 = []byte{0x00, 0x01, 0x7f, 0x80, 0xfe, 0xff}
var ccAlpha4 = []byte{0x00, 0x7f, 0x80, 0xff}

func ccCorpus() []charcode.CodeSpaceRange {
	h := func(s string) []byte { b, _ := hex.DecodeString(s); return b }
	R := func(lo, hi string) charcode.Range { return charcode.Range{Low: h(lo), High: h(hi)} }
	return []charcode.CodeSpaceRange{
		nil,
		charcode.Simple,
		charcode.UCS2,
		charcode.UTF8,
		{R("00", "80"), R("8140", "9ffc"), R("a0", "df"), R("e040", "fcfc")},                 // 83pv-RKSJ-H (the example of 9.7.6.3)
		{R("0000", "007f"), R("0110", "017f")},                                               // D2
		{R("0000", "007f"), R("0100", "017f")},                                               // mergeable neighbour of D2
		{R("00", "7f"), R("8000", "80ff"), R("810000", "81ffff"), R("82000000", "82ffffff")}, // one range per length
		{R("00000000", "ffffffff")},                                                          //
		{R("00", "00"), R("ff", "ff")},                                                       //
		{R("20", "7e"), R("a1", "df"), R("8140", "9ffc"), R("e040", "fcfc"), R("fd", "ff")},  //
		{R("0000", "00ff"), R("0100", "01ff"), R("0200", "02ff")},                            // three mergeable
		{R("0000", "0a0a"), R("0b00", "140a"), R("000b", "0a14"), R("0b0b", "1414")},         // 2x2 mergeable grid
		{R("000000", "00ffff"), R("010000", "01fffe"), R("01ffff", "01ffff")},                //
		{R("8080", "8f8f"), R("9090", "9f9f"), R("80a0", "8faf"), R("a0", "af"), R("b0b0b0", "bfbfbf"), R("c0c0c0c0", "cfcfcfcf")},
		{R("00", "7f"), R("00", "7f")},                            // duplicate range
		{R("00", "7f"), R("40", "bf")},                            // overlapping, same length
		{R("0000", "7fff"), R("4000", "bfff"), R("4040", "5050")}, // overlapping 2-byte
		{R("00", "7f"), R("7f00", "7fff")},                        // prefix conflict
		{R("0000", "00ff"), R("00", "00")},                        // prefix conflict
		{R("010203", "010203"), R("0102", "0102")},                // prefix conflict, deep
		{R("7f", "00")},                 // lo > hi
		{R("0000", "ff")},               // length mismatch
		{R("", "")},                     // empty
		{R("0000000000", "ffffffffff")}, // five bytes
		{R("00", "7f"), R("", "")},
	}
}

// ccRandomSet builds a random mostly valid, mostly prefix-free set.
func ccRandomSet(r *Rand, maxRanges int) charcode.CodeSpaceRange {
	n := 1 + r.Intn(maxRanges)
	var csr charcode.CodeSpaceRange
	interesting := []byte{0x00, 0x01, 0x1f, 0x20, 0x7e, 0x7f, 0x80, 0x81, 0x9f, 0xa0, 0xdf, 0xe0, 0xfc, 0xfd, 0xfe, 0xff}
	pickByte := func() byte {
		if r.P(2, 3) {
			return Pick(r, interesting)
		}
		return byte(r.U64())
	}
	mode := r.Intn(4) // 0: free; 1: partition first byte by length; 2: shared tails; 3: grid
	for tries := 0; len(csr) < n && tries < 20*n; tries++ {
		l := 1 + r.Intn(4)
		lo := make([]byte, l)
		hi := make([]byte, l)
		for i := range lo {
			a, b := pickByte(), pickByte()
			if a > b {
				a, b = b, a
			}
			if r.P(1, 6) {
				b = a
			}
			lo[i], hi[i] = a, b
		}
		switch mode {
		case 1:
			// first byte decides the length: 4 bands
			band := byte(l-1) * 64
			lo[0] = band + lo[0]%64
			hi[0] = band + hi[0]%64
			if lo[0] > hi[0] {
				lo[0], hi[0] = hi[0], lo[0]
			}
		case 2:
			// same tail intervals under different first bytes: shared sub-trees
			if len(csr) > 0 {
				prev := Pick(r, csr)
				l = len(prev.Low)
				lo = append([]byte{}, prev.Low...)
				hi = append([]byte{}, prev.High...)
				k := r.Intn(l)
				a, b := pickByte(), pickByte()
				if a > b {
					a, b = b, a
				}
				lo[k], hi[k] = a, b
				if r.P(1, 3) && l > 1 {
					// tiny perturbation of a tail bound: nearly-equal sub-trees
					j := 1 + r.Intn(l-1)
					if hi[j] < 255 && r.Bool() {
						hi[j]++
					} else if lo[j] > 0 && lo[j] <= hi[j] {
						lo[j]--
					}
				}
			}
		case 3:
			for i := range lo {
				cell := byte(r.Intn(4))
				lo[i], hi[i] = cell*64, cell*64+63
			}
		}
		cand := append(append(charcode.CodeSpaceRange{}, csr...), charcode.Range{Low: lo, High: hi})
		if r.P(19, 20) && !ccPrefixFree(cand) {
			continue
		}
		csr = cand
	}
	return csr
}

func ccMalformedSet(r *Rand) charcode.CodeSpaceRange {
	csr := ccRandomSet(r, 4)
	k := r.Intn(len(csr) + 1)
	var bad charcode.Range
	switch r.Intn(6) {
	case 0:
		bad = charcode.Range{Low: []byte{byte(1 + r.Intn(255))}, High: []byte{0}}
	case 1:
		bad = charcode.Range{Low: r.Bytes(1 + r.Intn(3)), High: r.Bytes(4)}
		if len(bad.Low) == 4 {
			bad.Low = bad.Low[:3]
		}
	case 2:
		bad = charcode.Range{Low: []byte{}, High: []byte{}}
	case 3:
		bad = charcode.Range{Low: make([]byte, 5), High: bytes.Repeat([]byte{0xff}, 5)}
	case 4:
		bad = charcode.Range{Low: nil, High: []byte{1}}
	default:
		// a prefix conflict with an existing range
		if len(csr) > 0 {
			p := Pick(r, csr)
			if len(p.Low) < 4 {
				bad = charcode.Range{Low: append(append([]byte{}, p.Low...), 0), High: append(append([]byte{}, p.High...), byte(r.U64()))}
			} else {
				bad = charcode.Range{Low: p.Low[:2], High: p.High[:2]}
			}
		} else {
			bad = charcode.Range{Low: []byte{2}, High: []byte{1}}
		}
	}
	out := append(charcode.CodeSpaceRange{}, csr[:k]...)
	out = append(out, bad)
	return append(out, csr[k:]...)
}

// ---- run ----

func runC12(c *Ctx) {
	r := c.R

	// 1. corpus
	for i, csr := range ccCorpus() {
		ccReport(c, csr, ccCheckSet(c, r, csr, ccOpts{emit: true, maxLen: 4, strLimit: 3000,
			extra: [][]byte{{0x41, 0x42, 0x43, 0x44, 0x45}, {0x81, 0x20, 0, 0, 0, 0}, {0xff, 0xff, 0xff, 0xff, 0xff}}}))
		if i == 4 || i == 5 {
			c.Sample("corpus set " + ccCSRWire(csr))
		}
	}

	// 2. exhaustive small spaces
	single := map[int][]charcode.Range{}
	for n := 1; n <= 4; n++ {
		single[n] = ccAllRanges(ccAlpha6, n)
	}
	// 2a. single ranges, lengths 1-4 (21+441+9261+194481): all of length <= 2 (quick) / <= 4
	// (thorough); quick takes every 3rd of length 3 and every 40th of length 4
	cnt := 0
	for n := 1; n <= 4; n++ {
		for _, rg := range single[n] {
			cnt++
			if !c.Thorough && ((n == 3 && cnt%3 != 0) || (n == 4 && cnt%40 != 0)) {
				continue
			}
			emit := n <= 2 || (!c.Thorough && cnt%120 == 0) || cnt%331 == 0
			csr := charcode.CodeSpaceRange{rg}
			ccReport(c, csr, ccCheckSet(c, r, csr, ccOpts{emit: emit, maxLen: 4, strLimit: 150}))
			c.Stat("single_ranges_checked")
		}
	}

	// 2b. all unordered pairs of ranges of length 1-2 over the six-letter alphabet (every 7th
	// in the opposite order); the model sees every k-th
	short := append(append([]charcode.Range{}, single[1]...), single[2]...)
	k2 := 40
	lim := 60
	if c.Thorough {
		k2 = 10
		lim = 150
	}
	cnt = 0
	for i := range short {
		for j := i; j < len(short); j++ {
			cnt++
			csr := charcode.CodeSpaceRange{short[i], short[j]}
			if cnt%7 == 0 {
				csr = charcode.CodeSpaceRange{short[j], short[i]}
			}
			ccReport(c, csr, ccCheckSet(c, r, csr, ccOpts{emit: cnt%k2 == 0, maxLen: 3, strLimit: lim}))
		}
	}
	c.StatN("exhaustive_pairs_len12", cnt)

	// 2c. pairs involving 3-byte ranges: reduced alphabet {00,7F,80,FF}, strided
	a4 := map[int][]charcode.Range{}
	for n := 1; n <= 4; n++ {
		a4[n] = ccAllRanges(ccAlpha4, n)
	}
	var all4 []charcode.Range
	for n := 1; n <= 3; n++ {
		all4 = append(all4, a4[n]...)
	}
	cnt = 0
	stride := 211
	if c.Thorough {
		stride = 13
	}
	for i := range all4 {
		for j := i; j < len(all4); j++ {
			if len(all4[i].Low) <= 2 && len(all4[j].Low) <= 2 {
				continue // covered by 2b
			}
			cnt++
			if cnt%stride != 0 {
				continue
			}
			csr := charcode.CodeSpaceRange{all4[i], all4[j]}
			ccReport(c, csr, ccCheckSet(c, r, csr, ccOpts{emit: cnt%(stride*9) == 0, maxLen: 4, strLimit: 200}))
			c.Stat("pairs_len3_checked")
		}
	}

	// 2d. triples of ranges of length 1-2 over {00,7F,80,FF}: all unordered triples (thorough),
	// a random sample (quick)
	tri := append(append([]charcode.Range{}, a4[1]...), a4[2]...)
	if c.Thorough {
		cnt = 0
		for i := range tri {
			for j := i; j < len(tri); j++ {
				for k := j; k < len(tri); k++ {
					cnt++
					csr := charcode.CodeSpaceRange{tri[i], tri[j], tri[k]}
					ccReport(c, csr, ccCheckSet(c, r, csr, ccOpts{emit: cnt%61 == 0, maxLen: 3, strLimit: 150}))
				}
			}
		}
		c.StatN("exhaustive_triples", cnt)
		c.rep.Exhaustive = true
	} else {
		for i := 0; i < 2000; i++ {
			csr := charcode.CodeSpaceRange{Pick(r, tri), Pick(r, tri), Pick(r, tri)}
			ccReport(c, csr, ccCheckSet(c, r, csr, ccOpts{emit: i%10 == 0, maxLen: 3, strLimit: 150}))
		}
		c.StatN("sampled_triples", 2000)
	}

	// 3. random sets
	nRand := 1500
	bigEvery := 25
	if c.Thorough {
		nRand = 12000
		bigEvery = 100
	}
	for i := 0; i < nRand; i++ {
		rr := r.Fork()
		maxR := 6
		if i%bigEvery == 0 {
			// (CodeSpaceRange is cubic in the number of leaves: large sets are rare)
			maxR = 40
		} else if i%10 == 0 {
			maxR = 12
		}
		csr := ccRandomSet(rr, maxR)
		if i < 3 {
			c.Sample("random set " + ccCSRWire(csr))
		}
		maxCSR := 1200
		if c.Thorough {
			maxCSR = 4000
		}
		ccReport(c, csr, ccCheckSet(c, rr, csr, ccOpts{emit: len(csr) <= 12, maxLen: 4, strLimit: 400, maxCSRNodes: maxCSR}))
	}

	// 4. malformed stream
	nBad := 300
	if c.Thorough {
		nBad = 4000
	}
	for i := 0; i < nBad; i++ {
		rr := r.Fork()
		csr := ccMalformedSet(rr)
		ccReport(c, csr, ccCheckSet(c, rr, csr, ccOpts{emit: true, maxLen: 3, strLimit: 200}))
	}

	// 5. large sets on the implementation only (node-count cap, D3 regression)
	ccLarge(c)
}

// ccLarge: range sets with very many nodes.  Either NewCodec rejects the set
// or the codec must classify every probe correctly.
func ccLarge(c *Ctx) {
	sizes := []int{300, 5000, 65536}
	if c.Thorough {
		sizes = []int{300, 5000, 20000, 21800, 21900, 65536}
	}
	for _, n := range sizes {
		var csr charcode.CodeSpaceRange
		for i := 0; i < n; i++ {
			// three-byte ranges <hh ll xx>-<hh ll xx+k>: distinct third-byte intervals force distinct sub-trees
			hi, lo := byte(i>>8), byte(i)
			x := byte(i*7 + i>>8)
			y := x
			if y < 250 {
				y += byte(i % 5)
			}
			csr = append(csr, charcode.Range{Low: []byte{hi, lo, x}, High: []byte{hi, lo, y}})
		}
		codec, err, p := ccNewCodec(csr)
		if p != nil {
			c.Violate("no-panic", "no-panic", fmt.Sprintf("NewCodec panics on %d three-byte ranges: %v", n, p), "large:"+strconv.Itoa(n))
			continue
		}
		c.Case("large "+strconv.Itoa(n), true)
		if err != nil {
			c.Stat("large_rejected")
			continue
		}
		c.Stat("large_accepted")
		if nn := len(codec.VerifNodes()); nn > 0xfffc {
			c.Violate("decode-spec", "index-fits", fmt.Sprintf("%d three-byte ranges: NewCodec accepted a codec with %d nodes (indices collide with the special child values)", n, nn), "large:"+strconv.Itoa(n))
		}
		badN := 0
		step := 1 + n/250
		for i := 0; i < n; i += step {
			rg := csr[i]
			for _, s := range [][]byte{rg.Low, rg.High, {rg.Low[0], rg.Low[1], rg.High[2] + 1}, {rg.Low[0], rg.Low[1]}} {
				d, p := ccDecode(codec, s)
				wc, wn, wv := ccSpecDecode(csr, s)
				if p != nil || uint32(d.code) != wc || d.consumed != wn || d.valid != wv {
					badN++
					if badN < 3 {
						c.Violate("decode-spec", "decode-spec", fmt.Sprintf("%d three-byte ranges: Decode(%x) = (%d,%d,%v) panic=%v, want (%d,%d,%v)", n, s, d.code, d.consumed, d.valid, p, wc, wn, wv), "large:"+strconv.Itoa(n))
					}
				}
			}
		}
	}
}

package main

import (
	"bytes"
	"compress/zlib"
	"fmt"
	"strings"
	"time"

	"seehuhn.de/go/pdf"
)

// ---- C08: hostile parameters and bodies ----

func fbZlib(data []byte) []byte {
	var b bytes.Buffer
	w := zlib.NewWriter(&b)
	w.Write(data)
	w.Close()
	return b.Bytes()
}

// fbHostileResult runs GetFilters+DecodeStream on an in-memory stream and classifies the outcome.
// kind: "data" (read to the end), "malformed", "other" (an error that is not malformed), "panic".
func fbHostileRun(dict pdf.Dict, body []byte, limit int) (kind string, out []byte, detail string, wall time.Duration) {
	t0 := time.Now()
	defer func() {
		wall = time.Since(t0)
		if p := recover(); p != nil {
			kind, detail = "panic", fmt.Sprint(p)
		}
	}()
	g := &fbGetter{meta: pdf.MetaInfo{Version: pdf.V2_0}}
	stm := pdf.NewStream(dict, body)
	rd, err := pdf.DecodeStream(g, nil, stm)
	if err != nil {
		if pdf.IsMalformed(err) {
			return "malformed", nil, err.Error(), 0
		}
		return "other", nil, err.Error(), 0
	}
	defer rd.Close()
	out, err = fbReadChunked(rd, NewRand(uint64(len(body))), 0, limit)
	if err == errFbTooMuch {
		return "toomuch", out, fmt.Sprintf("more than %d bytes produced", limit), 0
	}
	if err != nil {
		if pdf.IsMalformed(err) {
			return "malformed", out, err.Error(), 0
		}
		return "other", out, err.Error(), 0
	}
	return "data", out, "", 0
}

// replay input: "<limit> <dict wire> <bodyhex>"
func replayHostile(input string) (bool, string) {
	a := fbFields(input)
	if len(a) != 3 {
		return true, "bad replay input"
	}
	obj, err := fbUnwireOne(a[1])
	if err != nil {
		return true, "bad replay input"
	}
	d, _ := obj.(pdf.Dict)
	kind, out, detail, wall := fbHostileRun(d, fbHexDecode(a[2]), fbAtoi(a[0]))
	return kind == "data" || kind == "malformed", fmt.Sprintf("%s (%d bytes, %v) %s", kind, len(out), wall, detail)
}

func runFBHostile(c *Ctx) {
	r := c.R.Fork()
	n := 1500
	if c.Thorough {
		n = 20000
	}

	report := func(dict pdf.Dict, body []byte, limit int, kind string, out []byte, detail string, wall time.Duration) {
		in := fmt.Sprintf("%d %s %s", limit, wire(dict), hexWire(body))
		if len(in) > 20000 {
			in = in[:20000]
		}
		c.Stat("hostile_" + kind)
		switch kind {
		case "panic":
			c.Violate("fb-hostile", "panic", "decoder panicked: "+detail, in)
		case "other":
			key := "non-malformed-error"
			if strings.Contains(detail, "wrong type, expected") || strings.Contains(detail, "invalid /DecodeParms field") {
				key = "getfilters-untyped-error"
			}
			c.Violate("fb-hostile", key, "error is not classified as malformed input: "+detail, in)
		case "toomuch":
			c.Violate("fb-hostile", "unbounded-output", detail, in)
		}
		if wall > 10*time.Second {
			c.Violate("fb-hostile", "slow", fmt.Sprintf("decoding took %v for %d input bytes and %d output bytes", wall, len(body), len(out)), in)
		}
	}

	for i := 0; i < n; i++ {
		var dict pdf.Dict
		var body []byte
		limit := 64 << 20
		switch r.Intn(6) {
		case 0, 1: // Flate/LZW with hostile DecodeParms over a valid or damaged predictor body
			p := fbGenPred(r, false)
			err, rb, _ := pdf.VerifPredictValidate(p.params())
			var raw []byte
			if err == nil {
				raw, _ = fbPredEncodeHook(p, fbGenRowData(r, rb*r.Intn(5)), r, 0)
			}
			if r.P(1, 3) {
				raw = r.Bytes(r.Intn(300))
			}
			parms := fbGenParamDict(r)
			if r.P(1, 2) {
				parms = pdf.Dict{"Predictor": pdf.Integer(p.pred), "Colors": pdf.Integer(p.colors), "BitsPerComponent": pdf.Integer(p.bpc), "Columns": pdf.Integer(p.columns)}
				if r.P(1, 3) { // jointly enormous
					parms["Colors"] = pdf.Integer(Pick(r, fbIntBoundary))
					parms["Columns"] = pdf.Integer(Pick(r, fbIntBoundary))
				}
			}
			body = fbZlib(raw)
			if r.P(1, 4) && len(body) > 2 {
				body = body[:len(body)-1-r.Intn(min(6, len(body)-1))]
			}
			if r.P(1, 6) && len(body) > 0 {
				body[r.Intn(len(body))] ^= byte(1 << r.Intn(8))
			}
			dict = pdf.Dict{"Filter": pdf.Name("FlateDecode")}
			if parms != nil {
				dict["DecodeParms"] = parms
			}
			// correspondence of the predictor reader on this body when the parameters parse to a usable shape
			if f, err := pdf.MakeFilter("FlateDecode", parms); err == nil {
				ff := f.(pdf.FilterFlate)
				pp := pdf.VerifPredictParamsOf(ff.Predictor, ff.Colors, ff.BitsPerComponent, ff.Columns)
				q := fbPred{pp.Colors, pp.BitsPerComponent, pp.Columns, pp.Predictor}
				if err, rb2, _ := pdf.VerifPredictValidate(pp); err == nil && rb2 < 5000 && len(raw) < 5000 {
					out, word := fbPredDecodeHook(q, raw, r, r.Intn(4))
					c.Emit(fmt.Sprintf("FB pdec %s %s", q, hexWire(raw)), hexWire(out)+" "+word)
				}
			}
		case 2, 3: // CCITTFax: hostile parameters, random / damaged / all-ones bodies
			parms := fbGenParamDict(r)
			if parms == nil || r.Bool() {
				parms = pdf.Dict{"K": pdf.Integer(Pick(r, []int64{-1, 0, 1, 4})), "Columns": pdf.Integer(Pick(r, []int64{1, 8, 100, 1728, 5000}))}
				if r.Bool() {
					parms["Rows"] = pdf.Integer(Pick(r, []int64{1, 3, 1 << 20, 1 << 40, -5}))
				}
				if r.P(1, 3) {
					parms["EndOfBlock"] = pdf.Boolean(false)
				}
				if r.P(1, 3) {
					parms["BlackIs1"] = pdf.Boolean(true)
				}
			}
			switch r.Intn(4) {
			case 0:
				body = r.Bytes(r.Intn(200))
			case 1:
				body = bytes.Repeat([]byte{0xff}, r.Intn(40))
			case 2:
				body = bytes.Repeat([]byte{0x00}, r.Intn(40))
			default:
				pc := fbGenCC(r)
				pc.rows = 0
				d := fbGenCCData(r, pc, 1+r.Intn(4))
				enc, _, _ := fbEncode(pc.filter(), pdf.V1_7, d, r, 0)
				body = enc
				if len(body) > 0 && r.Bool() {
					body[r.Intn(len(body))] ^= byte(1 << r.Intn(8))
				}
			}
			dict = pdf.Dict{"Filter": pdf.Name("CCITTFaxDecode"), "DecodeParms": parms}
			if f, err := pdf.MakeFilter("CCITTFaxDecode", parms); err == nil {
				ff := f.(pdf.FilterCCITTFax)
				if ff.Columns <= 6000 && len(body) <= 250 {
					q := fbCC{cols: ff.Columns, k: ff.K, rows: ff.Rows, eol: ff.EndOfLine, align: ff.EncodedByteAlign, blackIs1: ff.BlackIs1, ignEOB: ff.IgnoreEndOfBlock}
					// keep the model's work small: all-ones bodies decode into one row per bit
					if !(ff.Columns > 300 && bytes.Count(body, []byte{0xff}) > 8) {
						line, _, _ := fbCCDecodeLine(q, body, r, 0, 0)
						c.Emit(fmt.Sprintf("FB cdec %s %s", q, hexWire(body)), line)
						if ok, key, det := oracleCCEdge(q, body); !ok { // no row longer than ceil(Columns/8)
							c.Violate("fb-ccitt-edge", key, fmt.Sprintf("CCITTFax %v: %s", q, det), fmt.Sprintf("%s %s", q, hexWire(body)))
						}
					}
				}
			}
		case 4: // dimension bombs: a few bytes claiming huge geometry
			cols := Pick(r, []int64{1 << 16, 1 << 20, 1<<20 + 1, 1 << 31, 1 << 62})
			rows := Pick(r, []int64{0, 1 << 20, 1 << 40})
			nb := 1 + r.Intn(40)
			if cols == 1<<20 && !c.Thorough {
				nb = 1 + r.Intn(3) // a row is 128 KiB: with the 16 MiB budget base these decode (up to 128 rows)
			}
			body = bytes.Repeat([]byte{0xff}, nb) // Group 4: every 1 bit is a whole white row
			parms := pdf.Dict{"K": pdf.Integer(-1), "Columns": pdf.Integer(cols), "EndOfBlock": pdf.Boolean(false)}
			if rows != 0 {
				parms["Rows"] = pdf.Integer(rows)
			}
			dict = pdf.Dict{"Filter": pdf.Name("CCITTFaxDecode"), "DecodeParms": parms}
			// geometry clamp: the number of rows is min(bits, MaxRows after the clamp)
			f, _ := pdf.MakeFilter("CCITTFaxDecode", parms)
			ff := f.(pdf.FilterCCITTFax)
			kind, out, detail, wall := fbHostileRun(dict, body, limit)
			lb := (ff.Columns + 7) / 8
			c.Emit(fmt.Sprintf("FB cgeo %d %d %d", ff.Columns, ff.Rows, nb),
				fmt.Sprintf("%d %d", len(out)/lb, pdf.VerifCCITTBufferBytes(pdf.VerifCCITTToParams(ff))))
			// output bound: MaxRows after the clamp times the row size
			geo := max(1, min(1<<16, (128<<20)/max(ff.Columns, 1)))
			if len(out) > geo*lb {
				c.Violate("fb-hostile", "unbounded-output", fmt.Sprintf("CCITTFax Columns=%d: %d bytes exceed rows x row size = %d", ff.Columns, len(out), geo*lb), fmt.Sprintf("%d %s %s", limit, wire(dict), hexWire(body)))
			}
			report(dict, body, limit, kind, out, detail, wall)
			c.Case("bomb:"+wire(dict)+hexWire(body), true)
			continue
		default: // chains up to and beyond the cap, with type-confused entries
			k := Pick(r, []int{1, 2, 3, 7, 8, 9, 12, 40})
			names := make(pdf.Array, k)
			for j := range names {
				names[j] = Pick(r, []pdf.Name{"ASCIIHexDecode", "FlateDecode", "RunLengthDecode", "ASCII85Decode", "LZWDecode", "Crypt", "CCITTFaxDecode"})
				if r.P(1, 30) {
					names[j] = fbGenParamValue(r)
				}
			}
			dict = pdf.Dict{"Filter": names}
			if r.Bool() {
				pa := make(pdf.Array, r.Intn(k+2))
				for j := range pa {
					if r.Bool() {
						if d := fbGenParamDict(r); d != nil {
							pa[j] = d
						}
					} else if r.P(1, 8) {
						pa[j] = fbGenParamValue(r)
					}
				}
				dict["DecodeParms"] = pa
			} else if r.P(1, 6) {
				dict["DecodeParms"] = fbGenParamValue(r)
			}
			body = r.Bytes(r.Intn(64))
			if r.Bool() {
				body = []byte("48656c6c6f>")
			}
			var p0 pdf.Object
			if v, ok := dict["DecodeParms"]; ok {
				p0 = v
			}
			c.Emit(fmt.Sprintf("FB getf %s %s", wire(dict["Filter"]), wire(p0)), fbGetFiltersLine(dict["Filter"], p0))
		}
		kind, out, detail, wall := fbHostileRun(dict, body, limit)
		report(dict, body, limit, kind, out, detail, wall)
		c.Case("h:"+wire(dict)+hexWire(body), kind == "data" || len(out) > 0)
		if i < 3 {
			c.Sample(fmt.Sprintf("hostile %s body=%s -> %s %d bytes", wire(dict), fbTrunc(body), kind, len(out)))
		}
	}

	// hostile DecodeParms through MakeFilter (model agreement on every clamp)
	for i := 0; i < n; i++ {
		name := Pick(r, []pdf.Name{"FlateDecode", "LZWDecode", "CCITTFaxDecode", "DCTDecode", "Crypt"})
		d := fbGenParamDict(r)
		c.Emit(fmt.Sprintf("FB make %s %s", hexWire([]byte(name)), fbDictWire(d)), fbMakeLine(name, d))
		c.Case("hm:"+string(name)+fbDictWire(d), len(d) > 0)
	}
}

package main

import (
	"bytes"
	"fmt"
	"io"

	"golang.org/x/image/ccitt"
	"seehuhn.de/go/membudget"
	"seehuhn.de/go/pdf"
)

// ---- C06/C07: encoders fed from a reused, overwritten caller buffer; decoders read into
// small, reused destination buffers ----
//
// A Writer must have consumed (copied or coded) the bytes of a Write call when the call returns:
// io.CopyBuffer and hand-written loops reuse one buffer for every call.  Every encoder is driven
// with a reused buffer that is scribbled over after each Write, with sizes below one row, exactly
// one row, row+-1, 2.5 rows and small primes, also through io.CopyBuffer; the output must be
// byte-identical to the single-Write encoding of the same data, and decode to the data.
// Every decoder is read with destination buffers of 1, 3, 5, 7 bytes that are scribbled over
// after each Read; the result must be the full-read result.

type fbOnlyReader struct{ r io.Reader } // hides WriterTo so that io.CopyBuffer uses its buffer

func (o fbOnlyReader) Read(p []byte) (int, error) { return o.r.Read(p) }

type fbOnlyWriter struct{ w io.Writer } // hides ReaderFrom

func (o fbOnlyWriter) Write(p []byte) (int, error) { return o.w.Write(p) }

// fbWriteReused feeds data through one buffer of the given size which is overwritten after
// every Write call.
func fbWriteReused(w io.Writer, data []byte, size int, junk byte) error {
	buf := make([]byte, size)
	for pos := 0; pos < len(data); {
		n := copy(buf, data[pos:])
		k, err := w.Write(buf[:n])
		for i := range buf {
			buf[i] = junk + byte(i)
		}
		pos += k
		if err != nil {
			return err
		}
		if k != n {
			return io.ErrShortWrite
		}
	}
	return nil
}

// fbEncodeVia: style 0 one Write, 1 reused buffer, 2 io.CopyBuffer with a reused buffer.
func fbEncodeVia(f pdf.Filter, v pdf.Version, data []byte, style, size int) (enc []byte, err error) {
	defer func() {
		if p := recover(); p != nil {
			err = fmt.Errorf("panic: %v", p)
		}
	}()
	buf := &bytes.Buffer{}
	w, err := f.Encode(v, fbNopWC{buf})
	if err != nil {
		return nil, err
	}
	switch style {
	case 0:
		_, err = w.Write(data)
	case 1:
		err = fbWriteReused(w, data, size, 0xa5)
	default:
		cb := make([]byte, size)
		_, err = io.CopyBuffer(fbOnlyWriter{w}, fbOnlyReader{bytes.NewReader(data)}, cb)
		for i := range cb {
			cb[i] = 0x5a
		}
	}
	cerr := w.Close()
	if err != nil {
		return buf.Bytes(), err
	}
	return buf.Bytes(), cerr
}

// fbReadSmall reads to the end with a destination buffer of the given size which is scribbled
// over after each Read.
func fbReadSmall(rd io.Reader, size int) ([]byte, error) {
	var out []byte
	buf := make([]byte, size)
	for {
		k, err := rd.Read(buf)
		out = append(out, buf[:k]...)
		for i := range buf {
			buf[i] = 0xee
		}
		if err == io.EOF {
			return out, nil
		}
		if err != nil {
			return out, err
		}
		if len(out) > 64<<20 {
			return out, errFbTooMuch
		}
	}
}

type fbChunkSubject struct {
	name string
	f    pdf.Filter
	v    pdf.Version
	row  int // bytes per row (1 for byte-oriented filters)
	data []byte
	cc   *fbCC // CCITTFax parameters (nil otherwise)
}

func (s fbChunkSubject) sizes(r *Rand) []int {
	rb := s.row
	set := map[int]bool{}
	var out []int
	for _, n := range []int{1, 2, 3, 5, 7, rb - 1, rb, rb + 1, rb*5/2 + rb%2, 2*rb + 1, 3*rb - 1, 4, 13, 127, 4095, 1 + r.Intn(3*rb+2)} {
		if n >= 1 && !set[n] {
			set[n] = true
			out = append(out, n)
		}
	}
	return out
}

// oracleChunking: reused-buffer encodings equal the single-Write encoding; the encoding decodes
// (where round trip is claimed) to the data, also with small reused read buffers.
func oracleChunking(s fbChunkSubject, r *Rand, decodeToo bool) (ok bool, key, detail string) {
	ref, err := fbEncodeVia(s.f, s.v, s.data, 0, 0)
	if err != nil {
		return true, "", "not encodable: " + err.Error()
	}
	for _, size := range s.sizes(r) {
		for style := 1; style <= 2; style++ {
			got, err := fbEncodeVia(s.f, s.v, s.data, style, size)
			how := map[int]string{1: "a reused buffer", 2: "io.CopyBuffer"}[style]
			if err != nil {
				return false, "writer-chunking", fmt.Sprintf("%s: encoding through %s of %d bytes fails: %v (one Write succeeds)", s.name, how, size, err)
			}
			if !bytes.Equal(got, ref) {
				return false, "writer-chunking", fmt.Sprintf("%s: encoding %d bytes through %s of %d bytes (row %d bytes) differs from the single-Write encoding: %s vs %s",
					s.name, len(s.data), how, size, s.row, fbTrunc(got), fbTrunc(ref))
			}
		}
	}
	if !decodeToo {
		return true, "", ""
	}
	name, parms, err := s.f.Info(s.v)
	if err != nil {
		return true, "", ""
	}
	f2, err := pdf.MakeFilter(name, parms)
	if err != nil {
		return false, "makefilter-error", err.Error()
	}
	for _, size := range []int{1, 3, 5, 7, 4096} {
		rd, err := f2.Decode(s.v, bytes.NewReader(ref), membudget.New(1<<28))
		if err != nil {
			return false, "reader-chunking", fmt.Sprintf("%s: Decode: %v", s.name, err)
		}
		out, err := fbReadSmall(rd, size)
		rd.Close()
		if err != nil || !bytes.Equal(out, s.data) {
			return false, "reader-chunking", fmt.Sprintf("%s: reading with a %d-byte buffer gives %s (%v), want %s", s.name, size, fbTrunc(out), err, fbTrunc(s.data))
		}
	}
	// CCITTFax: the independent decoder reads the same bytes
	if s.cc != nil && (s.cc.k < 0 || (s.cc.k == 0 && s.cc.eol)) && !s.cc.align && len(s.data) > 0 {
		sf := ccitt.Group4
		if s.cc.k == 0 {
			sf = ccitt.Group3
		}
		nrows := len(s.data) / s.cc.lineBytes()
		fr := ccitt.NewReader(bytes.NewReader(ref), ccitt.MSB, sf, s.cc.effCols(), nrows, &ccitt.Options{Invert: s.cc.blackIs1})
		got, err := io.ReadAll(fr)
		if err != nil || !bytes.Equal(got, s.data) {
			return false, "foreign-ccitt", fmt.Sprintf("%s: x/image/ccitt reads %s (%v), want %s", s.name, fbTrunc(got), err, fbTrunc(s.data))
		}
	}
	return true, "", ""
}

func fbChunkSubjects(r *Rand, n int) []fbChunkSubject {
	var out []fbChunkSubject
	for i := 0; i < n; i++ {
		switch i % 6 {
		case 0, 1: // CCITTFax, every K class and option set; rows coded against the previous row
			p := fbGenCC(r)
			p.k = []int{-1, 0, 1, 2, 4, -3}[(i/6)%6]
			nrows := 2 + r.Intn(6)
			p.rows = Pick(r, []int{0, nrows})
			data := fbGenCCData(r, p, nrows)
			pp := p
			out = append(out, fbChunkSubject{name: "CCITTFax " + p.String(), f: p.filter(), v: pdf.V1_7, row: p.lineBytes(), data: data, cc: &pp})
		case 2: // Flate / LZW with predictor rows
			p := fbGenPred(r, false)
			err, rb, _ := pdf.VerifPredictValidate(p.params())
			if err != nil || p.pred == 1 {
				p = fbPred{3, 8, 5, 12}
				rb = 15
			}
			kind := Pick(r, []string{"flate", "lzw", "compress"})
			out = append(out, fbChunkSubject{name: kind + " " + p.String(), f: fbFilterOf(kind, p, r.Bool()), v: pdf.V1_7, row: rb, data: fbGenRowData(r, rb*(1+r.Intn(6)))})
		case 3:
			out = append(out, fbChunkSubject{name: "ASCII85", f: pdf.FilterASCII85{}, v: pdf.V1_7, row: 4, data: fbChunkBytes(r, 1+r.Intn(200))})
		case 4:
			out = append(out, fbChunkSubject{name: "ASCIIHex", f: pdf.FilterASCIIHex{}, v: pdf.V1_7, row: 1, data: fbChunkBytes(r, 1+r.Intn(200))})
		default: // RunLength: runs and literals crossing chunk edges and the 128 limits
			var d []byte
			for len(d) < 40+r.Intn(500) {
				if r.Bool() {
					d = append(d, bytes.Repeat([]byte{byte(r.U64())}, Pick(r, []int{2, 3, 127, 128, 129, 130, 200, 1 + r.Intn(20)}))...)
				} else {
					d = append(d, r.Bytes(Pick(r, []int{1, 2, 127, 128, 129, 1 + r.Intn(30)}))...)
				}
			}
			out = append(out, fbChunkSubject{name: "RunLength", f: pdf.FilterRunLength{}, v: pdf.V1_7, row: 128, data: d})
		}
	}
	return out
}

func fbChunkBytes(r *Rand, n int) []byte {
	b := r.Bytes(n)
	if r.P(1, 3) { // zero groups (ASCII85 'z'), runs
		for i := 0; i+8 <= len(b); i += 12 {
			copy(b[i:i+8], make([]byte, 8))
		}
	}
	return b
}

// replay: subjects are regenerated from the seed and index: "<seed> <count> <index>"
func replayChunking(input string) (bool, string) {
	a := fbFields(input)
	if len(a) != 3 {
		return true, "bad replay input"
	}
	r := &Rand{s: uint64(fbAtoi(a[0]))}
	subs := fbChunkSubjects(r, fbAtoi(a[1]))
	i := fbAtoi(a[2])
	if i < 0 || i >= len(subs) {
		return true, "bad replay input"
	}
	s := subs[i]
	decodeToo := s.cc == nil || (fbCCClass(*s.cc, s.data) == "" && fbCCAdmissible(*s.cc, s.data))
	ok, key, d := oracleChunking(s, NewRand(7), decodeToo)
	return ok, key + " " + d
}

func runFBChunking(c *Ctx) {
	n := 180
	if c.Thorough {
		n = 3000
	}
	seed := c.R.U64() >> 1
	subs := fbChunkSubjects(&Rand{s: seed}, n)
	r := c.R.Fork()
	for i, s := range subs {
		decodeToo := s.cc == nil || (fbCCClass(*s.cc, s.data) == "" && fbCCAdmissible(*s.cc, s.data))
		ok, key, detail := oracleChunking(s, r, decodeToo)
		c.Case(fmt.Sprintf("chunk:%s:%x", s.name, s.data), len(s.data) > 0)
		c.Stat("chunking_" + fbFields(s.name)[0])
		if !ok {
			c.Violate("fb-chunking", key, detail, fmt.Sprintf("%d %d %d", seed, n, i))
		}
		if i < 2 {
			c.Sample(fmt.Sprintf("chunking %s %d bytes", s.name, len(s.data)))
		}
	}
}
